// Command dp is a development aid: parses its arguments with js.Parse and prints String() plus the Go types of all statements.
package main

import (
	"fmt"
	"os"
	"strings"

	"github.com/tdewolff/parse/v2"
	"github.com/tdewolff/parse/v2/js"
)

type v struct{ sb *strings.Builder }

func (x v) Enter(n js.INode) js.IVisitor {
	if _, ok := n.(js.IStmt); ok {
		fmt.Fprintf(x.sb, "%T ", n)
	}
	return x
}
func (x v) Exit(n js.INode) {}

func main() {
	for _, s := range os.Args[1:] {
		if strings.HasPrefix(s, "deep:") {
			// deep:<open>:<middle>:<close>:<n>  — nests a construct n times and reports whether js.Parse returns
			f := strings.Split(s, ":")
			n := 0
			fmt.Sscan(f[4], &n)
			src := strings.Repeat(f[1], n) + f[2] + strings.Repeat(f[3], n)
			_, err := js.Parse(parse.NewInputString(src), js.Options{})
			e := "<nil>"
			if err != nil {
				e = err.Error()
				if len(e) > 80 {
					e = e[:80]
				}
			}
			fmt.Printf("deep %q x %d: returned, err=%s\n", f[1], n, e)
			continue
		}
		if strings.HasPrefix(s, "@") {
			b, _ := os.ReadFile(s[1:])
			s = string(b)
		}
		ast, err := js.Parse(parse.NewInputString(s), js.Options{})
		fmt.Println(s, "=>", err)
		if err == nil {
			fmt.Println("   ", ast.String())
			var sb strings.Builder
			js.Walk(v{&sb}, ast)
			fmt.Println("   ", strings.ReplaceAll(sb.String(), "*js.", ""))
		}
	}
}
