// Command jsdump writes generated JavaScript programs to a directory (development aid: the spellings can be
// syntax-checked with an independent engine, e.g. `node --check`, to find generator bugs; it is not part of
// any registered check).
package main

import (
	"fmt"
	"math/rand"
	"os"
	"path/filepath"
	"strconv"

	"vh/gen"
	"vh/props"
)

func main() {
	if os.Args[1] == "shrink" {
		shrink(os.Args[2:])
		return
	}
	if os.Args[1] == "forbid" {
		n, _ := strconv.Atoi(os.Args[2])
		os.MkdirAll(os.Args[3], 0o755)
		r := rand.New(rand.NewSource(1))
		for i := 0; i < n; i++ {
			os.WriteFile(filepath.Join(os.Args[3], fmt.Sprintf("f%05d.mjs", i)), []byte(props.C03ForbiddenFragment(r)+";\n"), 0o644)
		}
		return
	}
	if os.Args[1] == "rename" {
		rename(os.Args[2:])
		return
	}
	if os.Args[1] == "find" {
		find(os.Args[2:])
		return
	}
	n, _ := strconv.Atoi(os.Args[1])
	dir := os.Args[2]
	mode := ""
	if len(os.Args) > 3 {
		mode = os.Args[3]
	}
	os.MkdirAll(dir, 0o755)
	for i := 0; i < n; i++ {
		r := rand.New(rand.NewSource(int64(i)))
		o := gen.JSOpts{}
		if mode == "yld" {
			o = gen.JSOpts{CtxNames: true, YieldName: true, NoModuleItems: true}
		}
		if mode == "ctx" {
			o = gen.JSOpts{CtxNames: true}
		}
		if mode == "c04" {
			o = gen.JSOpts{NoRegex: true, PlainKeys: true, NoClassSelf: true, NoModuleItems: true}
		}
		p := gen.JSProgram(r, o)
		for k, st := range []gen.JSStyle{{Parens: 1, Semi: 0, WS: 1}, {Parens: 0, Semi: 0, WS: 0, Seed: 1}, {Parens: 0, Semi: 1, WS: 2, Seed: 2}, {Parens: 2, Semi: 2, WS: 2, Seed: 3}} {
			src, _ := gen.JSSpell(p, st)
			os.WriteFile(filepath.Join(dir, fmt.Sprintf("p%05d_%d.%s", i, k, map[bool]string{true: "cjs", false: "mjs"}[mode == "yld"])), []byte(src), 0o644)
		}
	}
}

// find: jsdump find <n> : seeds whose minimal spelling the library rejects
func find(args []string) {
	n, _ := strconv.Atoi(args[0])
	seen := map[string]int{}
	for i := 0; i < n; i++ {
		o := gen.JSOpts{}
		if len(args) > 1 && args[1] == "nomod" {
			o = gen.JSOpts{NoModuleItems: true, MaxStmts: 3, NoRegex: true}
		}
		if len(args) > 1 && args[1] == "ctx" {
			o = gen.JSOpts{NoModuleItems: true, MaxStmts: 2, NoRegex: true, CtxNames: true, Budget: 12}
		}
		p := gen.JSProgram(rand.New(rand.NewSource(int64(i))), o)
		src, _ := gen.JSSpell(p, gen.JSStyle{Parens: 0, Semi: 0, WS: 0, Seed: 1})
		if e := libErr(src); e != "" {
			msg := e
			for j, c := range msg {
				if c == '\n' {
					msg = msg[:j]
					break
				}
			}
			if k := indexOn(msg); k > 0 {
				msg = msg[:k]
			}
			seen[msg]++
			if seen[msg] <= 2 {
				fmt.Printf("%d\t%d\t%s\n", i, len(src), msg)
			}
			if len(src) < 120 && seen[msg] < 40 {
				fmt.Printf("    %s\n", src)
			}
		}
	}
}

func indexOn(s string) int {
	for i := 0; i+9 < len(s); i++ {
		if s[i:i+9] == " on line " {
			return i
		}
	}
	return -1
}
