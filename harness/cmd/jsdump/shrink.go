package main

import (
	"fmt"
	"math/rand"
	"os"
	"os/exec"
	"strings"

	"github.com/tdewolff/parse/v2"
	"github.com/tdewolff/parse/v2/js"

	"vh/gen"
)

func libErr(src string) string {
	_, err := js.Parse(parse.NewInputString(src), js.Options{})
	if err == nil {
		return ""
	}
	return err.Error()
}

func nodeOK(src string) bool {
	if os.Getenv("NONODE") != "" {
		return true
	}
	f := fmt.Sprintf("/tmp/shrink-%d.mjs", os.Getpid())
	os.WriteFile(f, []byte(src), 0o644)
	return exec.Command("node", "--check", f).Run() == nil
}

func collect(n *gen.JSNode, out *[]**gen.JSNode, slot **gen.JSNode) {
	if n == nil {
		return
	}
	if slot != nil {
		*out = append(*out, slot)
	}
	for i := range n.Kids {
		collect(n.Kids[i], out, &n.Kids[i])
	}
}

// shrink: usage jsdump shrink <seed> <needle> [c04]
func shrink(args []string) {
	var seed int64
	fmt.Sscan(args[0], &seed)
	needle := args[1]
	o := gen.JSOpts{}
	if len(args) > 2 && args[2] == "nomod" {
		o.NoModuleItems = true
		o.MaxStmts = 3
		o.NoRegex = true
	}
	p := gen.JSProgram(rand.New(rand.NewSource(seed)), o)
	st := gen.JSStyle{Parens: 0, Semi: 0, WS: 0, Seed: 1}
	bad := func() bool {
		src, _ := gen.JSSpell(p, st)
		return strings.Contains(libErr(src), needle) && nodeOK(src)
	}
	if !bad() {
		fmt.Println("seed does not reproduce")
		return
	}
	for changed := true; changed; {
		changed = false
		var slots []**gen.JSNode
		collect(p.Root, &slots, nil)
		for _, sl := range slots {
			old := *sl
			if old == nil || old.K == "num" && old.S == "0" {
				continue
			}
			for _, rep := range []*gen.JSNode{{K: "num", S: "0"}, {K: "empty"}, {K: "block"}, nil} {
				*sl = rep
				ok := func() (ok bool) {
					defer func() {
						if recover() != nil {
							ok = false
						}
					}()
					return bad()
				}()
				if ok {
					changed = true
					break
				}
				*sl = old
			}
			if changed {
				break
			}
		}
		// drop statements
		for i := 0; i < len(p.Root.Kids) && !changed; i++ {
			old := p.Root.Kids
			p.Root.Kids = append(append([]*gen.JSNode{}, old[:i]...), old[i+1:]...)
			if len(p.Root.Kids) > 0 && bad() {
				changed = true
			} else {
				p.Root.Kids = old
			}
		}
	}
	src, _ := gen.JSSpell(p, st)
	fmt.Printf("%s\n=> %s\n", src, strings.SplitN(libErr(src), "\n", 2)[0])
}
