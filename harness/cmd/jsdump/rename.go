package main

import (
	"fmt"
	"os"

	"github.com/tdewolff/parse/v2"
	"github.com/tdewolff/parse/v2/js"
)

type renamer struct {
	names map[*js.Var]string
	vars  []*js.Var
}

func (v *renamer) Enter(n js.INode) js.IVisitor {
	if x, ok := n.(*js.Var); ok {
		root := x
		for root.Link != nil {
			root = root.Link
		}
		if root.Decl != js.NoDecl && root.Decl != js.PrivateDecl {
			if _, seen := v.names[root]; !seen {
				v.names[root] = fmt.Sprintf("v%d_", len(v.names)+1)
				v.vars = append(v.vars, root)
			}
		}
	}
	return v
}
func (v *renamer) Exit(n js.INode) {}

// rename: jsdump rename <file|-e src>: print the program with every declared Var renamed, and its uses
func rename(args []string) {
	var src []byte
	if args[0] == "-e" {
		src = []byte(args[1])
	} else {
		src, _ = os.ReadFile(args[0])
	}
	ast, err := js.Parse(parse.NewInputBytes(src), js.Options{})
	if err != nil {
		fmt.Println("ERR", err)
		return
	}
	rn := &renamer{names: map[*js.Var]string{}}
	js.Walk(rn, ast)
	for _, v := range rn.vars {
		v.Data = []byte(rn.names[v])
	}
	fmt.Println(ast.JSString())
	for _, v := range rn.vars {
		fmt.Printf("%s uses=%d decl=%v  ", v.Data, v.Uses, v.Decl)
	}
	fmt.Println("\nglobal undeclared:", ast.BlockStmt.Scope.Undeclared)
}
