// Command vh is the single harness binary: one sub-command per property (see fw/driver.go).
package main

import (
	"vh/fw"
	_ "vh/props"
)

func main() { fw.Main() }
