package props

import (
	"bytes"
	"encoding/base64"
	"errors"
	"fmt"
	"math/rand"
	"mime"
	"net/url"
	"strings"

	"github.com/tdewolff/parse/v2"
	"github.com/tdewolff/parse/v2/css"
	"github.com/tdewolff/parse/v2/html"

	"vh/fw"
	"vh/gen"
)

// C16 — Number/Dimension/URL/data-URI/media-type helpers match their definitions.
//
// Every monitor runs the real helper on a generated argument that lives in a canary window
// (c16_ref.go), under recover(), and compares the result with an independent reference:
// regexp (leftmost-longest) for Number/Dimension, a byte-wise encoder + net/url for
// EncodeURL/DecodeURL, the generator's own knowledge (media type, payload) + encoding/base64 for
// DataURI, mime.ParseMediaType for Mediatype, bytes/one-line loops for the util.go helpers and a
// hand-written name->constant map for the css/html hash tables.

func c16Desc(fn string, in []byte, buf *c16Buf, extra ...any) map[string]any {
	d := map[string]any{"fn": fn, "in": append([]byte(nil), in...)}
	if buf != nil {
		d["spareCap"] = buf.spare()
	}
	for i := 0; i+1 < len(extra); i += 2 {
		d[extra[i].(string)] = extra[i+1]
	}
	return d
}

// c16Intact fails the case when a byte of the window outside [lo,hi) changed.
func c16Intact(t *fw.T, fn string, buf *c16Buf, lo, hi int) bool {
	if at := buf.changedOutside(lo, hi); at >= 0 {
		where := "argument bytes"
		if at >= buf.n {
			where = "spare capacity behind the argument"
		}
		t.Failf("%s changed byte %d of its argument window (%s; allowed region [%d,%d)): %#x -> %#x", fn, at, where, lo, hi, buf.pristine[at], buf.win[at])
		return false
	}
	return true
}

// ---------------------------------------------------------------------------------------------
// Number / Dimension
// ---------------------------------------------------------------------------------------------

func c16CheckNumber(t *fw.T, in []byte) bool {
	buf, b := c16Wrap(t.Rng, in)
	t.Desc(c16Desc("Number+Dimension", in, buf))
	var n, dn, du int
	if p := fw.Guard(func() { n = parse.Number(b); dn, du = parse.Dimension(b) }); p != "" {
		t.Failf("Number/Dimension(%s): %s", fw.Q(in), p)
		return false
	}
	wn, wu := c16RefDimension(in)
	if n != wn {
		t.Failf("Number(%s) = %d, longest regex match has length %d", fw.Q(in), n, wn)
		return false
	}
	if dn != wn || du != wu {
		t.Failf("Dimension(%s) = (%d,%d), want (%d,%d)", fw.Q(in), dn, du, wn, wu)
		return false
	}
	if !c16Intact(t, "Number/Dimension", buf, 0, 0) {
		return false
	}
	t.Count("number.evals", 1)
	if wn > 0 {
		// what follows the match decides the back-off paths
		rest := in[wn:]
		switch {
		case len(rest) == 0:
			t.Count("number.ends.at.eof", 1)
		case rest[0] == '.':
			t.Count("number.backoff.dot", 1)
		case rest[0] == 'e' || rest[0] == 'E':
			t.Count("number.backoff.exp", 1)
		}
		if wu > 0 {
			if rest[0] == '%' {
				t.Count("dimension.percent", 1)
			} else {
				t.Count("dimension.unit", 1)
			}
		}
	}
	return true
}

func c16NumberShape(in []byte, n int) string {
	m := in[:n]
	s := ""
	if n > 0 && (m[0] == '+' || m[0] == '-') {
		s += "s"
		m = m[1:]
	}
	if len(m) > 0 && m[0] != '.' {
		s += "i"
	}
	if bytes.IndexByte(m, '.') >= 0 {
		s += "f"
	}
	if i := bytes.IndexAny(m, "eE"); i >= 0 {
		s += "e"
		if i+1 < len(m) && (m[i+1] == '+' || m[i+1] == '-') {
			s += "s"
		}
	}
	switch {
	case n == len(in):
		s += "|eof"
	case strings.IndexByte(c16NumAlphabet+"%", in[n]) >= 0:
		s += "|" + string(in[n])
	case in[n] >= 'a' && in[n] <= 'z' || in[n] >= 'A' && in[n] <= 'Z':
		s += "|unit"
	default:
		s += "|other"
	}
	return s
}

func c16RunNumber(t *fw.T) {
	in := c16GenNumberish(t.Rng)
	if !c16CheckNumber(t, in) {
		return
	}
	wn := c16RefNumber(in)
	t.Seen("number.shape", c16NumberShape(in, wn))
	// every prefix and every suffix: each syntax boundary becomes the end / the start of the input
	if len(in) <= 40 {
		for k := 0; k < len(in); k++ {
			if !c16CheckNumber(t, in[:k]) || !c16CheckNumber(t, in[k:]) {
				return
			}
		}
	}
	if wn > 0 {
		t.Nontrivial(in)
	}
	t.Sample(c16Desc("Number+Dimension", in, nil, "number", wn))
}

// ---------------------------------------------------------------------------------------------
// EncodeURL / DecodeURL
// ---------------------------------------------------------------------------------------------

var c16Tables = []struct {
	name  string
	table *[256]bool
}{{"URLEncodingTable", &parse.URLEncodingTable}, {"DataURIEncodingTable", &parse.DataURIEncodingTable},
	// tables of the caller's own ("its table"): an IRI-style copy of the URL table that leaves bytes >= 0x80 alone, a
	// table that marks '%' only, and the complement of the URL table
	{"caller's IRI table", c16CustomTable(0)}, {"caller's percent-only table", c16CustomTable(1)}, {"caller's complement table", c16CustomTable(2)}}

func c16CustomTable(kind int) *[256]bool {
	var tab [256]bool
	for c := 0; c < 256; c++ {
		switch kind {
		case 0:
			tab[c] = c < 0x80 && parse.URLEncodingTable[c]
		case 1:
			tab[c] = c == '%'
		default:
			tab[c] = !parse.URLEncodingTable[c]
		}
	}
	return &tab
}

// c16CheckEncode: EncodeURL(x, table) == byte-wise reference reading the same table.
func c16CheckEncode(t *fw.T, x []byte, ti int) ([]byte, bool) {
	tab := c16Tables[ti]
	buf, b := c16Wrap(t.Rng, x)
	t.Desc(c16Desc("EncodeURL", x, buf, "table", tab.name))
	var out []byte
	if p := fw.Guard(func() { out = parse.EncodeURL(b, *tab.table) }); p != "" {
		t.Failf("EncodeURL(%s, %s): %s", fw.Q(x), tab.name, p)
		return nil, false
	}
	want := c16RefEncode(x, tab.table)
	if !bytes.Equal(out, want) {
		t.Failf("EncodeURL(%s, %s) = %s, want %s", fw.Q(x), tab.name, fw.Q(out), fw.Q(want))
		return nil, false
	}
	if len(want) == len(x) { // nothing marked: nothing may be written anywhere
		if !c16Intact(t, "EncodeURL (no byte marked)", buf, 0, 0) {
			return nil, false
		}
		t.Count("url.encode.noop", 1)
	} else if len(want) <= len(buf.win) {
		t.Count("url.encode.fits.cap", 1)
	} else {
		t.Count("url.encode.realloc", 1)
	}
	t.Count("url.encode.evals", 1)
	return out, true
}

// c16CheckDecode: DecodeURL(y) == url.QueryUnescape(y) wherever that succeeds; never touches the
// spare capacity; result not longer than the argument.
func c16CheckDecode(t *fw.T, y []byte, mustEqual []byte) bool {
	buf, b := c16Wrap(t.Rng, y)
	t.Desc(c16Desc("DecodeURL", y, buf))
	var out []byte
	if p := fw.Guard(func() { out = parse.DecodeURL(b) }); p != "" {
		t.Failf("DecodeURL(%s): %s", fw.Q(y), p)
		return false
	}
	if !c16Intact(t, "DecodeURL", buf, 0, buf.n) {
		return false
	}
	if len(out) > len(y) {
		t.Failf("DecodeURL(%s) grew to %d bytes", fw.Q(y), len(out))
		return false
	}
	if mustEqual != nil && !bytes.Equal(out, mustEqual) {
		t.Failf("DecodeURL(EncodeURL(x, URLEncodingTable)) = %s, want x = %s (encoded %s)", fw.Q(out), fw.Q(mustEqual), fw.Q(y))
		return false
	}
	if ref, err := url.QueryUnescape(string(y)); err == nil {
		if string(out) != ref {
			t.Failf("DecodeURL(%s) = %s, url.QueryUnescape gives %s", fw.Q(y), fw.Q(out), fw.Q([]byte(ref)))
			return false
		}
		t.Count("url.unescape.agree", 1)
	} else {
		t.Count("url.unescape.refused", 1) // outside the statement: only no panic / no stray write
	}
	if n := len(y); n > 0 && (y[n-1] == '%' || n > 1 && y[n-2] == '%') {
		t.Count("url.escape.cut.at.end", 1)
	}
	return true
}

func c16RunURL(t *fw.T) {
	r := t.Rng
	max := 64
	if r.Intn(50) == 0 {
		max = 3000
	}
	x := c16GenBytes(r, max)
	for ti := range c16Tables {
		enc, ok := c16CheckEncode(t, x, ti)
		if !ok {
			return
		}
		if ti == 0 { // DecodeURL inverts EncodeURL for the standard URL table
			if !c16CheckDecode(t, enc, x) {
				return
			}
			t.Count("url.roundtrip", 1)
		}
	}
	y := c16GenEncoded(r)
	if !c16CheckDecode(t, y, nil) {
		return
	}
	// every truncation of the encoded text: each escape is cut at the end of input once
	if len(y) <= 24 {
		for k := 0; k < len(y); k++ {
			if !c16CheckDecode(t, y[:k], nil) {
				return
			}
		}
	}
	if len(x) > 0 && bytes.IndexByte(y, '%') >= 0 {
		t.Nontrivial(append(append([]byte(nil), x...), y...))
	}
	t.Sample(map[string]any{"x": x, "y": y})
}

// ---------------------------------------------------------------------------------------------
// DataURI
// ---------------------------------------------------------------------------------------------

// c16CheckDataURI builds data:<mt><params>[;base64],<encoded payload> and demands
// (media type, payload). mt == "" means the type is absent: the result must then be text/plain,
// with or without the parameters.
func c16CheckDataURI(t *fw.T, mt, params string, b64 bool, payload, encoded []byte) bool {
	head := "data:" + mt + params
	if b64 {
		head += ";base64"
		if params != "" && t.Rng.Intn(3) == 0 {
			// the base64 marker is not the last item: the parameters behind it still belong to the media type
			head = "data:" + mt + ";base64" + params
			t.Count("datauri.base64.not_last", 1)
		}
	}
	head += ","
	uri := append([]byte(head), encoded...)
	buf, b := c16Wrap(t.Rng, uri)
	t.Desc(c16Desc("DataURI", uri, buf, "payload", append([]byte(nil), payload...), "base64", b64))
	var gm, gd []byte
	var err error
	if p := fw.Guard(func() { gm, gd, err = parse.DataURI(b) }); p != "" {
		t.Failf("DataURI(%s): %s", fw.Q(uri), p)
		return false
	}
	if err != nil {
		t.Failf("DataURI(%s) fails with %v; it encodes %s", fw.Q(uri), err, fw.Q(payload))
		return false
	}
	if !bytes.Equal(gd, payload) {
		t.Failf("DataURI(%s) payload = %s, want %s", fw.Q(uri), fw.Q(gd), fw.Q(payload))
		return false
	}
	okType := string(gm) == mt+params
	if mt == "" {
		okType = string(gm) == "text/plain" || string(gm) == "text/plain"+params
	}
	if !okType {
		t.Failf("DataURI(%s) media type = %q, want %q (text/plain when the type is absent)", fw.Q(uri), gm, mt+params)
		return false
	}
	if !c16Intact(t, "DataURI", buf, len(head), buf.n) {
		return false
	}
	if b64 {
		t.Count("datauri.base64.ok", 1)
	} else {
		t.Count("datauri.percent.ok", 1)
	}
	if mt == "" {
		t.Count("datauri.type.absent", 1)
	}
	return true
}

// c16CheckDataURIBad: the input is not a data URI, or its base64 payload cannot be decoded: an
// error must come back (exactly ErrBadDataURI when wantBad) and nothing may be written in front of
// the payload (nothing at all when there is no payload).
func c16CheckDataURIBad(t *fw.T, in []byte, wantBad bool, why string) bool {
	buf, b := c16Wrap(t.Rng, in)
	t.Desc(c16Desc("DataURI", in, buf, "expect", why))
	var err error
	if p := fw.Guard(func() { _, _, err = parse.DataURI(b) }); p != "" {
		t.Failf("DataURI(%s): %s", fw.Q(in), p)
		return false
	}
	if err == nil {
		t.Failf("DataURI(%s) succeeds, expected an error (%s)", fw.Q(in), why)
		return false
	}
	if wantBad && !errors.Is(err, parse.ErrBadDataURI) {
		t.Failf("DataURI(%s) = %v, want ErrBadDataURI (%s)", fw.Q(in), err, why)
		return false
	}
	lo := buf.n
	if comma := bytes.IndexByte(in, ','); comma >= 0 && bytes.HasPrefix(in, []byte("data:")) {
		lo = comma + 1
	}
	if !c16Intact(t, "DataURI (error path)", buf, lo, buf.n) {
		return false
	}
	t.Count("datauri.rejected", 1)
	return true
}

// c16CheckDataURIHostile: arbitrary bytes. No panic; success only with a data: prefix and a comma;
// an error is ErrBadDataURI or a base64 decoding error; only the payload may be rewritten.
func c16CheckDataURIHostile(t *fw.T, in []byte) bool {
	buf, b := c16Wrap(t.Rng, in)
	t.Desc(c16Desc("DataURI", in, buf, "expect", "hostile"))
	var gm, gd []byte
	var err error
	if p := fw.Guard(func() { gm, gd, err = parse.DataURI(b) }); p != "" {
		t.Failf("DataURI(%s): %s", fw.Q(in), p)
		return false
	}
	comma := bytes.IndexByte(in, ',')
	hasPrefix := bytes.HasPrefix(in, []byte("data:"))
	if (!hasPrefix || comma < 0) && err == nil {
		t.Failf("DataURI(%s) succeeds (%q, %s) on an input without data: prefix / comma", fw.Q(in), gm, fw.Q(gd))
		return false
	}
	var cie base64.CorruptInputError
	if err != nil && !errors.Is(err, parse.ErrBadDataURI) && !errors.As(err, &cie) {
		t.Failf("DataURI(%s) = %v: neither ErrBadDataURI nor a decoding error", fw.Q(in), err)
		return false
	}
	lo := buf.n
	if hasPrefix && comma >= 0 {
		lo = comma + 1
	}
	if !c16Intact(t, "DataURI (hostile)", buf, lo, buf.n) {
		return false
	}
	t.Count("datauri.hostile", 1)
	if err == nil {
		t.Count("datauri.hostile.accepted", 1)
	}
	return true
}

var c16DataDict = gen.Words("data:", "data", ";base64", "base64", ",", ";", "=", " ", "%", "%4", "%41", "+", "text/plain", "charset=utf-8", "dGV4dA==", "==", "\x00", "\xff")

func c16RunDataURI(t *fw.T) {
	r := t.Rng
	max := 80
	if r.Intn(60) == 0 {
		max = 4000
	}
	payload := c16GenBytes(r, max)
	mt, params := c16GenMediaType(r, 0.3, true)
	switch k := r.Intn(20); {
	case k < 7: // percent-encoded
		extra := 0.0
		if r.Intn(3) == 0 {
			extra = r.Float64()
		}
		enc := c16PctEncode(r, payload, extra, r.Intn(3) == 0)
		if !c16CheckDataURI(t, mt, params, false, payload, enc) {
			return
		}
		if len(payload) > 0 {
			t.Nontrivial(append([]byte(mt+params+"|pct|"), payload...))
		}
	case k < 14: // base64
		enc := []byte(base64.StdEncoding.EncodeToString(payload))
		if !c16CheckDataURI(t, mt, params, true, payload, enc) {
			return
		}
		if len(payload) > 0 {
			t.Nontrivial(append([]byte(mt+params+"|b64|"), payload...))
		}
		if len(enc) > 0 && bytes.IndexAny(enc, "+/") >= 0 {
			t.Count("datauri.base64.plus.slash", 1)
		}
	case k < 16: // base64 with a character no base64 alphabet knows
		enc := []byte(base64.StdEncoding.EncodeToString(append(payload, 'x')))
		at := r.Intn(len(enc))
		enc[at] = "()!@#$%^&*~<>?[]{}|\\\"'`;:."[r.Intn(26)]
		in := append([]byte("data:"+mt+params+";base64,"), enc...)
		if _, e := base64.StdEncoding.DecodeString(string(enc)); e == nil {
			return // cannot happen; keeps the oracle honest
		}
		if !c16CheckDataURIBad(t, in, false, "illegal base64 character") {
			return
		}
		t.Count("datauri.base64.corrupt", 1)
	case k < 18: // not a data URI: no "data:" prefix, or no comma after it
		var in []byte
		why := "no data: prefix"
		bad := true
		switch r.Intn(6) {
		case 0:
			in = gen.Pick(r, gen.Words("", "d", "data", "data;", "dat:,x", "xdata:,x", " data:,x", "www.domain.com", "http://a/b,c", "data,x", "data :,x"))
		case 1:
			in = c16GenBytes(r, 20)
			if bytes.HasPrefix(in, []byte("data:")) {
				in[0] = 'x'
			}
		case 2:
			in = append([]byte("data"), c16PctEncode(r, payload, 0, false)...) // scheme without ':'
			if len(in) > 4 && in[4] == ':' {
				in[4] = ';'
			}
		default: // data: without any comma
			why, bad = "no comma", false
			in = []byte("data:" + mt + params)
			if r.Intn(2) == 0 {
				in = append(in, ";base64"...)
			}
			if r.Intn(3) == 0 {
				in = in[:5+r.Intn(len(in)-4)]
			}
			if r.Intn(4) == 0 {
				in = append(in, bytes.ReplaceAll(c16PctEncode(r, payload, 0, false), []byte(","), nil)...)
			}
			if bytes.IndexByte(in, ',') >= 0 {
				return
			}
		}
		if !c16CheckDataURIBad(t, in, bad, why) {
			return
		}
	default: // hostile: anything around the syntax; only crash / stray-write / error-kind checks
		seed := []byte("data:" + mt + params + gen.Pick(r, []string{"", ";base64"}) + ",")
		if r.Intn(2) == 0 {
			seed = append(seed, base64.StdEncoding.EncodeToString(payload)...)
		} else {
			seed = append(seed, c16PctEncode(r, payload, 0, false)...)
		}
		if !c16CheckDataURIHostile(t, gen.Mutate(r, seed, c16DataDict, 1+r.Intn(4))) {
			return
		}
	}
	t.Sample(map[string]any{"mediatype": mt, "params": params, "payload": payload})
}

// ---------------------------------------------------------------------------------------------
// Mediatype
// ---------------------------------------------------------------------------------------------

const c16TokPunct = "!#$%&'+-.^_`{|}~" // RFC 2045 token characters besides alphanumerics, without '*' (RFC 2231)

func c16Sp(r *rand.Rand) string {
	switch r.Intn(10) {
	case 0, 1:
		return " "
	case 2:
		return strings.Repeat(" ", 2+r.Intn(3))
	}
	return ""
}

func c16RunMediatype(t *fw.T) {
	r := t.Rng
	// well-formed, lower-case, unquoted: [sp] type "/" subtype [sp] *( ";" [sp] attr [sp] "=" [sp] value [sp] )
	var sb strings.Builder
	sb.WriteString(c16Sp(r))
	if r.Intn(3) == 0 {
		sb.WriteString(gen.Pick(r, c16Types))
	} else {
		sb.WriteString(c16Tok(r, 6, c16TokPunct) + "/" + c16Tok(r, 8, c16TokPunct))
	}
	sb.WriteString(c16Sp(r))
	np := gen.Pick(r, []int{0, 0, 1, 1, 1, 2, 2, 3, 5})
	want := map[string]string{}
	for i := 0; i < np; i++ {
		a := gen.Pick(r, c16Attrs)
		if r.Intn(2) == 0 {
			a = c16Tok(r, 8, c16TokPunct)
		}
		v := strings.ToLower(gen.Pick(r, c16Values))
		if r.Intn(2) == 0 {
			v = c16Tok(r, 10, c16TokPunct+"*")
		}
		if old, dup := want[a]; dup {
			v = old // a repeated attribute is well-formed only with the same value
		}
		want[a] = v
		sb.WriteString(";" + c16Sp(r) + a + c16Sp(r) + "=" + c16Sp(r) + v + c16Sp(r))
	}
	in := []byte(sb.String())
	buf, b := c16Wrap(r, in)
	t.Desc(c16Desc("Mediatype", in, buf))
	var gm []byte
	var gp map[string]string
	if p := fw.Guard(func() { gm, gp = parse.Mediatype(b) }); p != "" {
		t.Failf("Mediatype(%s): %s", fw.Q(in), p)
		return
	}
	mm, mp, err := mime.ParseMediaType(string(in))
	if err != nil {
		t.Count("mediatype.mime.refused", 1) // generator bug guard: never compared
	} else {
		if string(gm) != mm {
			t.Failf("Mediatype(%s) type = %q, mime.ParseMediaType gives %q", fw.Q(in), gm, mm)
			return
		}
		if len(gp) != len(mp) {
			t.Failf("Mediatype(%s) params = %v, mime.ParseMediaType gives %v", fw.Q(in), gp, mp)
			return
		}
		for k, v := range mp {
			if g, ok := gp[k]; !ok || g != v {
				t.Failf("Mediatype(%s) params = %v, mime.ParseMediaType gives %v", fw.Q(in), gp, mp)
				return
			}
		}
		t.Count("mediatype.mime.agree", 1)
		if len(mp) > 0 {
			t.Count("mediatype.with.params", 1)
			t.Nontrivial(in)
		}
	}
	if !c16Intact(t, "Mediatype", buf, 0, 0) {
		return
	}
	t.Sample(c16Desc("Mediatype", in, nil))

	// hostile variant: no panic, read-only, results are pieces of the argument
	h := gen.Mutate(r, in, gen.Words(";", "=", " ", "  ", "/", "\"", ",", "\x00", "\xc3\xbf", ";;", "= ;"), 1+r.Intn(4))
	if r.Intn(4) == 0 {
		n := r.Intn(6)
		h = h[:0]
		for i := 0; i < n; i++ {
			h = append(h, " ;=a/\xff"[r.Intn(6)])
		}
	}
	c16CheckMediatypeHostile(t, h)
}

// c16CheckMediatypeHostile: arbitrary bytes. No panic, read-only, the type is a piece of the argument.
func c16CheckMediatypeHostile(t *fw.T, h []byte) bool {
	buf, b := c16Wrap(t.Rng, h)
	t.Desc(c16Desc("Mediatype", h, buf, "expect", "hostile"))
	var gm []byte
	if p := fw.Guard(func() { gm, _ = parse.Mediatype(b) }); p != "" {
		t.Failf("Mediatype(%s): %s", fw.Q(h), p)
		return false
	}
	if !bytes.Contains(h, gm) {
		t.Failf("Mediatype(%s) type %q is not part of the argument", fw.Q(h), gm)
		return false
	}
	if !c16Intact(t, "Mediatype (hostile)", buf, 0, 0) {
		return false
	}
	t.Count("mediatype.hostile", 1)
	return true
}

// ---------------------------------------------------------------------------------------------
// EqualFold / ToLower / TrimWhitespace / IsAllWhitespace
// ---------------------------------------------------------------------------------------------

func c16CheckFold(t *fw.T, s, target []byte) bool {
	bs, as := c16Wrap(t.Rng, s)
	bt, at := c16Wrap(t.Rng, target)
	t.Desc(map[string]any{"fn": "EqualFold", "s": append([]byte(nil), s...), "targetLower": append([]byte(nil), target...)})
	var got bool
	if p := fw.Guard(func() { got = parse.EqualFold(as, at) }); p != "" {
		t.Failf("EqualFold(%s, %s): %s", fw.Q(s), fw.Q(target), p)
		return false
	}
	if !c16Intact(t, "EqualFold (s)", bs, 0, 0) || !c16Intact(t, "EqualFold (targetLower)", bt, 0, 0) {
		return false
	}
	if c16HasUpper(target) {
		t.Count("fold.target.not.lower", 1) // outside the documented domain: crash check only
		return true
	}
	want := c16RefEqualFold(s, target)
	if got != want {
		t.Failf("EqualFold(%s, %s) = %v, ASCII case-insensitive equality is %v", fw.Q(s), fw.Q(target), got, want)
		return false
	}
	if c16IsASCII(s) && c16IsASCII(target) && bytes.EqualFold(s, target) != got {
		t.Failf("EqualFold(%s, %s) = %v, bytes.EqualFold on ASCII gives %v", fw.Q(s), fw.Q(target), got, !got)
		return false
	}
	if want {
		t.Count("fold.equal", 1)
	} else {
		t.Count("fold.unequal", 1)
	}
	return true
}

func c16CheckLowerTrim(t *fw.T, in []byte) bool {
	// ToLower: in place over src[0:len]
	buf, b := c16Wrap(t.Rng, in)
	t.Desc(c16Desc("ToLower", in, buf))
	var out []byte
	if p := fw.Guard(func() { out = parse.ToLower(b) }); p != "" {
		t.Failf("ToLower(%s): %s", fw.Q(in), p)
		return false
	}
	if want := c16RefToLower(in); !bytes.Equal(out, want) {
		t.Failf("ToLower(%s) = %s, want %s", fw.Q(in), fw.Q(out), fw.Q(want))
		return false
	} else if c16IsASCII(in) && !bytes.Equal(out, bytes.ToLower(in)) {
		t.Failf("ToLower(%s) = %s, bytes.ToLower gives %s", fw.Q(in), fw.Q(out), fw.Q(bytes.ToLower(in)))
		return false
	}
	if !c16Intact(t, "ToLower", buf, 0, buf.n) {
		return false
	}
	t.Count("lower.evals", 1)

	// TrimWhitespace, IsAllWhitespace: read-only
	buf, b = c16Wrap(t.Rng, in)
	t.Desc(c16Desc("TrimWhitespace+IsAllWhitespace", in, buf))
	var all bool
	if p := fw.Guard(func() { out = parse.TrimWhitespace(b); all = parse.IsAllWhitespace(b) }); p != "" {
		t.Failf("TrimWhitespace/IsAllWhitespace(%s): %s", fw.Q(in), p)
		return false
	}
	if want := c16RefTrim(in); !bytes.Equal(out, want) {
		t.Failf("TrimWhitespace(%s) = %s, bytes.Trim(b, \" \\t\\n\\r\\f\") gives %s", fw.Q(in), fw.Q(out), fw.Q(want))
		return false
	}
	if want := c16RefAllWS(in); all != want {
		t.Failf("IsAllWhitespace(%s) = %v, want %v", fw.Q(in), all, want)
		return false
	}
	if !c16Intact(t, "TrimWhitespace/IsAllWhitespace", buf, 0, 0) {
		return false
	}
	if all {
		t.Count("ws.all", 1)
	}
	if len(out) > 0 && len(out) < len(in) {
		t.Count("ws.trimmed", 1)
	}
	return true
}

func c16RunFold(t *fw.T) {
	r := t.Rng
	// target: "lower-case" = no A-Z; everything else (incl. bytes 32 away from letters, non-ASCII) allowed
	const pool = "abcxyz0189@[\\]^_`{|}~ -\x00\x7f\x80\xc9\xe9\xff\xa0"
	n := gen.SmallLen(r, 20)
	target := make([]byte, n)
	for i := range target {
		switch r.Intn(4) {
		case 0:
			target[i] = pool[r.Intn(len(pool))]
		case 1:
			target[i] = c16LowerByte(byte(r.Intn(256)))
		default:
			target[i] = byte('a' + r.Intn(26))
		}
	}
	s := append([]byte(nil), target...)
	for i := range s {
		switch r.Intn(16) {
		case 0, 1, 2, 3, 4, 5:
			if s[i] >= 'a' && s[i] <= 'z' {
				s[i] -= 32
			}
		case 6:
			if r.Intn(3) == 0 {
				s[i] -= 32 // '{' vs '[', '`' vs '@', 0xe9 vs 0xc9: same distance as 'a' and 'A'
			}
		case 7:
			if r.Intn(6) == 0 {
				s[i] += 32
			}
		case 8:
			if r.Intn(8) == 0 {
				s[i] = byte(r.Intn(256))
			}
		}
	}
	switch r.Intn(12) {
	case 0:
		s = append(s, byte('a'+r.Intn(26)))
	case 1:
		if len(s) > 0 {
			s = s[:len(s)-1]
		}
	case 2:
		if len(target) > 0 { // target outside the documented domain
			target[r.Intn(len(target))] = byte('A' + r.Intn(26))
		}
	}
	if !c16CheckFold(t, s, target) {
		return
	}

	// ToLower / TrimWhitespace / IsAllWhitespace
	const ws = " \t\n\r\f"
	const near = "\v\x00\x08\x0e\x1f\x1c!\x85\xa0\x7f"
	var in []byte
	run := func(set string, k int) {
		for i := 0; i < k; i++ {
			in = append(in, set[r.Intn(len(set))])
		}
	}
	switch r.Intn(8) {
	case 0:
		run(ws, gen.SmallLen(r, 10))
	case 1:
		in = gen.RawBytes(r, gen.SmallLen(r, 30))
	case 2:
		run(ws+near+"aZ", gen.SmallLen(r, 12))
	default:
		run(ws, r.Intn(4))
		if r.Intn(4) == 0 {
			run(near, 1)
		}
		k := gen.SmallLen(r, 16)
		for i := 0; i < k; i++ {
			switch r.Intn(5) {
			case 0:
				in = append(in, "AZ@[MNaz`{\xc9\xe9\xde\xfe"[r.Intn(14)])
			case 1:
				in = append(in, ws[r.Intn(len(ws))])
			case 2:
				in = append(in, byte('A'+r.Intn(26)))
			default:
				in = append(in, byte(0x20+r.Intn(0x5f)))
			}
		}
		if r.Intn(4) == 0 {
			run(near, 1)
		}
		run(ws, r.Intn(4))
	}
	if !c16CheckLowerTrim(t, in) {
		return
	}
	if len(target) > 0 && len(in) > 0 {
		t.Nontrivial(append(append(append([]byte(nil), s...), target...), in...))
	}
	t.Sample(map[string]any{"s": s, "targetLower": target, "ws": in})
}

// ---------------------------------------------------------------------------------------------
// css / html ToHash
// ---------------------------------------------------------------------------------------------

// c16CheckHash: ToHash(s) of package pk (0 css, 1 html) == map lookup over the constants (0 for
// non-members); for a member also Hash.String()/Bytes() == the text.
func c16CheckHash(t *fw.T, pk int, s []byte) bool {
	buf, b := c16Wrap(t.Rng, s)
	name, ref := "css", c16CSSMap
	if pk == 1 {
		name, ref = "html", c16HTMLMap
	}
	t.Desc(c16Desc(name+".ToHash", s, buf))
	var got uint32
	var back string
	if p := fw.Guard(func() {
		if pk == 0 {
			h := css.ToHash(b)
			got, back = uint32(h), h.String()
		} else {
			h := html.ToHash(b)
			got, back = uint32(h), h.String()
		}
	}); p != "" {
		t.Failf("%s.ToHash(%s): %s", name, fw.Q(s), p)
		return false
	}
	want := ref[string(s)]
	if got != want {
		t.Failf("%s.ToHash(%s) = %#x, want %#x", name, fw.Q(s), got, want)
		return false
	}
	if want != 0 && back != string(s) {
		t.Failf("%s.Hash(%#x).String() = %q, want %q", name, got, back, s)
		return false
	}
	if !c16Intact(t, name+".ToHash", buf, 0, 0) {
		return false
	}
	if want != 0 {
		t.Count("hash.member", 1)
		t.Seen("hash.constants", fmt.Sprintf("%s:%s", name, s))
	} else {
		t.Count("hash.nonmember", 1)
	}
	return true
}

// c16HashText returns Hash(v).Bytes() of the package: for arbitrary v these are substrings of the
// generated, overlapped text table (e.g. "facekey"), the nastiest near-misses there are.
func c16HashText(t *fw.T, pk int, v uint32) []byte {
	var out []byte
	t.Desc(map[string]any{"fn": "Hash.Bytes", "pkg": pk, "hash": v})
	if p := fw.Guard(func() {
		if pk == 0 {
			out = append(out, css.Hash(v).Bytes()...)
			_ = css.Hash(v).String()
		} else {
			out = append(out, html.Hash(v).Bytes()...)
			_ = html.Hash(v).String()
		}
	}); p != "" {
		t.Failf("Hash(%#x).Bytes() (pkg %d): %s", v, pk, p)
	}
	return out
}

func c16RunHash(t *fw.T) {
	r := t.Rng
	pk := r.Intn(2)
	names := c16CSSNames
	if pk == 1 {
		names = c16HTMLNames
	}
	// all constants of the package in every case (cheap) …
	for _, n := range names {
		if !c16CheckHash(t, pk, []byte(n)) {
			return
		}
	}
	// … and a batch of non-members / near-misses
	for k := 0; k < 6; k++ {
		m := []byte(gen.Pick(r, names))
		var s []byte
		switch r.Intn(10) {
		case 0: // one byte altered
			s = m
			s[r.Intn(len(s))] ^= byte(1 << uint(r.Intn(8)))
		case 1: // case flipped
			s = m
			i := r.Intn(len(s))
			if s[i] >= 'a' && s[i] <= 'z' {
				s[i] -= 32
			}
		case 2: // truncated
			s = m[:r.Intn(len(m))]
			if r.Intn(2) == 0 {
				s = m[1+r.Intn(len(m)-1):]
			}
		case 3: // extended
			s = append(m, gen.Pick(r, []string{"s", " ", "\x00", "-", "x"})...)
			if r.Intn(2) == 0 {
				s = append([]byte(gen.Pick(r, []string{"x", " ", "-", "@"})), m...)
			}
		case 4, 5: // substring of the overlapped text table
			s = c16HashText(t, pk, uint32(r.Intn(52))<<8|uint32(r.Intn(12)))
		case 6: // two members joined / other package's member
			s = append(m, gen.Pick(r, names)...)
			if r.Intn(2) == 0 {
				s = []byte(gen.Pick(r, append(append([]string{}, c16CSSNames...), c16HTMLNames...)))
			}
		case 7: // random lower-case of a plausible length
			n := 1 + r.Intn(11)
			s = make([]byte, n)
			for i := range s {
				s[i] = byte('a' + r.Intn(26))
			}
		case 8:
			s = gen.RawBytes(r, r.Intn(12))
		default: // arbitrary Hash value printed back: never panics
			_ = c16HashText(t, pk, r.Uint32())
			s = gen.UTF8(r, r.Intn(5))
		}
		if t.Failed() || !c16CheckHash(t, pk, s) {
			return
		}
	}
	t.Nontrivial([]byte(fmt.Sprint(pk, t.Index)))
	t.Sample(map[string]any{"pkg": pk})
}

// ---------------------------------------------------------------------------------------------
// arbitrary: one hostile byte string (mutated / spliced / truncated texts of all the syntaxes above)
// through every helper; references are applied wherever they are total
// ---------------------------------------------------------------------------------------------

var c16Corpus = gen.Words("0.5e-99px", "+50.0%", "-.5E+7em", "data:text/plain;charset=utf-8;base64,dGV4dA==", "data:,a%20b+c",
	"data:;charset=utf-8,hello", "data:;charset=utf-8;base64,aGVsbG8=", "data:;a=b,x%20y", "data:;base64,QQ==", "data:;x=1;y=2,z",
	"data:image/svg+xml,%3Cpath%20stroke-width='9.38%'/%3E", " text/plain  ; charset = US-ASCII ", "text/plain;inline=;base64",
	"%20%3F%7E%2b", "a+b%", "keyframes", "plaintext", "font-face", " \t\r\n\f", "\xc3\xbf   ", "Abc[]{}@`")
var c16Dict = gen.Words("data:", ";base64", ",", ";", "=", " ", "%", "%4", "%41", "%2b", "+", "-", ".", "e", "E", "e+", "1", "9", "px", "%%",
	"/", ":", "@", "[", "`", "{", "\x00", "\xff", "\t", "\n", "\f", "\r", "script", "svg", "xml", "media", "page", "text/plain", "charset=utf-8")

func c16RunArbitrary(t *fw.T) {
	in := gen.Hostile(t.Rng, c16Corpus, c16Dict, 300)
	if !c16CheckNumber(t, in) {
		return
	}
	for ti := range c16Tables {
		enc, ok := c16CheckEncode(t, in, ti)
		if !ok || ti == 0 && !c16CheckDecode(t, enc, in) {
			return
		}
	}
	if !c16CheckDecode(t, in, nil) || !c16CheckDataURIHostile(t, in) || !c16CheckMediatypeHostile(t, in) || !c16CheckLowerTrim(t, in) {
		return
	}
	if !c16CheckFold(t, in, c16RefToLower(in)) || !c16CheckFold(t, in, in) || !c16CheckHash(t, 0, in) || !c16CheckHash(t, 1, in) {
		return
	}
	t.Count("arbitrary.inputs", 1)
	if len(in) >= 4 {
		t.Nontrivial(in)
	}
	t.Sample(c16Desc("all helpers", in, nil))
}

// ---------------------------------------------------------------------------------------------
// sweep: case i = byte value i; all 256 single bytes through every helper and table, all 65536
// two-byte strings {c,d} through the scanners that look one or two bytes ahead
// ---------------------------------------------------------------------------------------------

func c16RunSweep(t *fw.T) {
	c := byte(t.Index)
	one := []byte{c}
	for ti := range c16Tables {
		enc, ok := c16CheckEncode(t, one, ti)
		if !ok {
			return
		}
		if marked := c16Tables[ti].table[c]; marked != (len(enc) == 3) {
			t.Failf("EncodeURL of byte %#x with %s: table says marked=%v, output %s", c, c16Tables[ti].name, marked, fw.Q(enc))
			return
		}
		if ti == 0 && !c16CheckDecode(t, enc, one) {
			return
		}
	}
	if !c16CheckDataURI(t, "", "", false, one, c16PctEncode(t.Rng, one, 0, false)) ||
		!c16CheckDataURI(t, "a/b", "", true, one, []byte(base64.StdEncoding.EncodeToString(one))) {
		return
	}
	if !c16CheckHash(t, 0, one) || !c16CheckHash(t, 1, one) {
		return
	}
	if !c16CheckLowerTrim(t, one) || !c16CheckFold(t, one, []byte{c16LowerByte(c)}) {
		return
	}
	if got, want := parse.IsWhitespace(c), strings.IndexByte(c16WS, c) >= 0; got != want {
		t.Failf("IsWhitespace(%#x) = %v, want %v", c, got, want)
		return
	}
	for d := 0; d < 256; d++ {
		two := []byte{c, byte(d)}
		if !c16CheckNumber(t, two) || !c16CheckNumber(t, []byte{'1', c, byte(d)}) || !c16CheckNumber(t, []byte{'.', '5', c, byte(d)}) {
			return
		}
		if !c16CheckDecode(t, []byte{'%', c, byte(d)}, nil) || !c16CheckDecode(t, []byte{'a', '%', c, byte(d), '%'}, nil) {
			return
		}
		if !c16CheckFold(t, two, []byte{c16LowerByte(c), c16LowerByte(byte(d))}) || !c16CheckFold(t, []byte{byte(d)}, []byte{c16LowerByte(c)}) {
			return
		}
		if !c16CheckLowerTrim(t, []byte{c, 'a', byte(d)}) {
			return
		}
	}
	t.Count("sweep.bytes", 1)
	t.Nontrivial(one)
}

// ---------------------------------------------------------------------------------------------
// probes: fixed regression cases — the failure modes the property names and the defect found
// ---------------------------------------------------------------------------------------------

var c16Probes = []struct {
	name string
	run  func(t *fw.T) bool
}{
	// parameter value "base64" must not switch the payload to base64 (fixed in the worktree)
	{"datauri-param-value-base64", func(t *fw.T) bool {
		return c16CheckDataURI(t, "text/plain", ";charset=base64", false, []byte("abcd"), []byte("abcd"))
	}},
	{"datauri-param-value-base64-then-param", func(t *fw.T) bool {
		return c16CheckDataURI(t, "text/plain", ";charset=base64;x=y", false, []byte("abc"), []byte("abc"))
	}},
	{"datauri-param-value-base64-and-base64", func(t *fw.T) bool {
		return c16CheckDataURI(t, "a/b", ";x=base64", true, []byte("abc"), []byte("YWJj"))
	}},
	{"datauri-type-absent-base64", func(t *fw.T) bool {
		return c16CheckDataURI(t, "", "", true, []byte("text"), []byte("dGV4dA=="))
	}},
	{"datauri-type-absent-with-param", func(t *fw.T) bool {
		return c16CheckDataURI(t, "", ";charset=utf-8", false, []byte("a+b c"), []byte("a%2Bb%20c"))
	}},
	{"datauri-empty", func(t *fw.T) bool { return c16CheckDataURI(t, "", "", false, []byte{}, []byte{}) }},
	{"datauri-base64-without-comma", func(t *fw.T) bool {
		return c16CheckDataURIBad(t, []byte("data:text/plain;base64"), false, "no comma")
	}},
	{"datauri-scheme-only", func(t *fw.T) bool { return c16CheckDataURIBad(t, []byte("data:"), false, "no comma") }},
	{"datauri-not-data", func(t *fw.T) bool {
		return c16CheckDataURIBad(t, []byte("www.domain.com"), true, "no data: prefix")
	}},
	{"datauri-corrupt-base64", func(t *fw.T) bool {
		return c16CheckDataURIBad(t, []byte("data:;base64,()"), false, "illegal base64 character")
	}},
	{"number-dangling-dot", func(t *fw.T) bool { return c16CheckNumber(t, []byte("1.")) }},
	{"number-dangling-exp-sign", func(t *fw.T) bool { return c16CheckNumber(t, []byte("0.5e-")) }},
	{"number-dangling-exp", func(t *fw.T) bool { return c16CheckNumber(t, []byte("1e")) }},
	{"number-sign-only", func(t *fw.T) bool { return c16CheckNumber(t, []byte("+")) }},
	{"number-dot-only", func(t *fw.T) bool { return c16CheckNumber(t, []byte(".")) }},
	{"number-sign-dot", func(t *fw.T) bool { return c16CheckNumber(t, []byte("-.")) }},
	{"number-dot-exp", func(t *fw.T) bool { return c16CheckNumber(t, []byte(".e1")) }},
	{"number-full", func(t *fw.T) bool { return c16CheckNumber(t, []byte("-.5E+7e1.2px")) }},
	{"dimension-unit-after-failed-exp", func(t *fw.T) bool { return c16CheckNumber(t, []byte("1e-x")) }},
	{"dimension-percent", func(t *fw.T) bool { return c16CheckNumber(t, []byte("5%%")) }},
	{"decode-percent-at-end", func(t *fw.T) bool { return c16CheckDecode(t, []byte("a%"), nil) }},
	{"decode-one-hex-at-end", func(t *fw.T) bool { return c16CheckDecode(t, []byte("a%4"), nil) }},
	{"decode-two-hex-at-end", func(t *fw.T) bool { return c16CheckDecode(t, []byte("a%41"), nil) }},
	{"decode-mixed-case-plus", func(t *fw.T) bool { return c16CheckDecode(t, []byte("%2B%2b+%7e%7E"), nil) }},
	{"decode-escaped-percent", func(t *fw.T) bool { return c16CheckDecode(t, []byte("%2541%25"), nil) }},
	{"fold-bracket-brace", func(t *fw.T) bool { return c16CheckFold(t, []byte("[]"), []byte("{}")) }},
	{"fold-at-backtick", func(t *fw.T) bool { return c16CheckFold(t, []byte("@Az"), []byte("`az")) }},
	{"trim-only-whitespace", func(t *fw.T) bool { return c16CheckLowerTrim(t, []byte(" \t\r\n\f")) }},
	{"trim-vertical-tab", func(t *fw.T) bool { return c16CheckLowerTrim(t, []byte("\v A \v")) }},
	{"trim-empty", func(t *fw.T) bool { return c16CheckLowerTrim(t, []byte{}) }},
	{"hash-maxlen-plus-one", func(t *fw.T) bool {
		return c16CheckHash(t, 0, []byte("keyframess")) && c16CheckHash(t, 1, []byte("plaintextx")) && c16CheckHash(t, 0, nil)
	}},
	{"hash-overlap-substring", func(t *fw.T) bool {
		return c16CheckHash(t, 0, []byte("facekey")) && c16CheckHash(t, 1, []byte("scriptitle")) && c16CheckHash(t, 1, []byte("xmplain"))
	}},
}

func c16RunProbes(t *fw.T) {
	p := c16Probes[t.Index%len(c16Probes)]
	t.Key("probe:" + p.name)
	if p.run(t) {
		t.Count("probes", 1)
		t.Nontrivial([]byte(p.name))
	}
}

func init() {
	fw.Register(&fw.Prop{
		ID: "C16",
		Rule: "one case = one generated argument (plus, for Number/Dimension and DecodeURL, every prefix/suffix resp. truncation of it) placed in a window with 0, few or ample canary bytes of spare capacity; " +
			"number: grammar-with-holes / alphabet soup / mutated numbers around (+|-)?(d+(.d+)?|.d+)((e|E)(+|-)?d+)? followed by %, units and the ASCII neighbours of the scanned classes, checked against regexp leftmost-longest, non-trivial = a number was matched; " +
			"url: arbitrary bytes through EncodeURL with both built-in tables and three caller-owned ones (IRI-style, %-only, complement of the URL table; byte-wise reference), DecodeURL∘EncodeURL with URLEncodingTable, and damaged percent-encodings against url.QueryUnescape where it succeeds, non-trivial = non-empty bytes and an encoded text with '%'; " +
			"datauri: data:[type/subtype][;attr=value…][;base64],payload from arbitrary bytes (base64.StdEncoding or percent-encoding of at least everything outside A-Za-z0-9-_.~!'()*), plus inputs that are no data URI / have corrupt base64 / are hostile mutations, non-trivial = well-formed with non-empty payload; " +
			"mediatype: lower-case unquoted type/subtype *(;attr=value) with optional spaces vs mime.ParseMediaType, plus hostile mutations (crash/read-only only), non-trivial = has parameters; " +
			"fold: EqualFold on (case-perturbed s, lower-case target), ToLower/TrimWhitespace/IsAllWhitespace on whitespace-framed bytes; hash: every css/html constant + 6 near-misses per case; " +
			"arbitrary: one hostile string (mutated/spliced/truncated texts of all these syntaxes, <= 300 bytes) through every helper, non-trivial = >= 4 bytes; " +
			"sweep: case i drives byte i alone through every helper and all 256 two-byte continuations through Number/Dimension/DecodeURL/EqualFold/ToLower/Trim",
		Assume: []string{
			"Number's regex is read with a literal '.', as in the doc comment of Number (the statement text lost the backslash)",
			"Dimension's unit is the longest match of %|[A-Za-z]+ directly after a non-empty number; (0,0) when there is no number",
			"EncodeURL is compared with a reference that reads the same exported table (the statement: 'escapes exactly the bytes its table marks'); the table contents are not pinned, except that DecodeURL∘EncodeURL must be the identity for URLEncodingTable",
			"DecodeURL is compared with url.QueryUnescape only where QueryUnescape succeeds; elsewhere only: no panic, result not longer than the argument, spare capacity untouched",
			"generated data URIs percent-encode at least every byte outside A-Za-z0-9-_.~!'()* (the full URL table, so '+' is always escaped), optionally more, with upper- or lower-case hex; base64 payloads use base64.StdEncoding with padding",
			"generated media types in data URIs consist of lower-case type/subtype/attribute tokens over [a-z0-9-+._] and values over [A-Za-z0-9-+._]; no whitespace, no quoting; the literal text between 'data:' and [;base64], is the expected media type",
			"media type absent: 'text/plain' is accepted with or without the generated parameters",
			"'otherwise' is checked only on inputs that cannot be read as a data URI under any reading: no 'data:' prefix (error must be ErrBadDataURI, per its doc comment), no comma after 'data:' (any error), base64 text containing a byte of no base64 alphabet (any error); scheme case variants and unpadded base64 are not generated",
			"hostile DataURI/Mediatype inputs: only panic, stray-write and error-kind checks (error is ErrBadDataURI or base64.CorruptInputError)",
			"Mediatype is compared with mime.ParseMediaType only on generated lower-case, unquoted, well-formed values (type/subtype of >= 3 bytes, RFC 2045 token characters, no '*' in attribute names, repeated attributes only with equal values, spaces (0x20) allowed around ';' '=' and at both ends); a nil map equals an empty map",
			"EqualFold is compared with ASCII case-insensitive equality only when targetLower contains no A-Z (documented precondition); otherwise crash/stray-write checks only",
			"whitespace = space, \\t, \\n, \\r, \\f (doc comment of IsWhitespace); IsAllWhitespace of the empty slice is true (vacuous)",
			"in-place regions: ToLower src[0:len]; DecodeURL b[0:len]; EncodeURL b[0:cap] (nothing when no byte is marked); DataURI the payload after the first comma; every other helper is read-only. Bytes before a slice's start and beyond its capacity are unreachable for code without unsafe and are not monitored",
		},
		Required: []string{"probes", "number.evals", "number.backoff.dot", "number.backoff.exp", "number.ends.at.eof", "dimension.unit", "dimension.percent",
			"url.encode.evals", "url.encode.noop", "url.encode.fits.cap", "url.encode.realloc", "url.roundtrip", "url.unescape.agree", "url.unescape.refused", "url.escape.cut.at.end",
			"datauri.base64.ok", "datauri.percent.ok", "datauri.type.absent", "datauri.rejected", "datauri.base64.corrupt", "datauri.base64.plus.slash", "datauri.hostile",
			"mediatype.mime.agree", "mediatype.with.params", "mediatype.hostile",
			"fold.equal", "fold.unequal", "lower.evals", "ws.all", "ws.trimmed", "hash.member", "hash.nonmember", "sweep.bytes", "arbitrary.inputs"},
		Streams: []fw.Stream{
			{Name: "probes", Quick: len(c16Probes), Thorough: len(c16Probes), Run: c16RunProbes},
			{Name: "sweep", Quick: 256, Thorough: 256, Run: c16RunSweep},
			{Name: "number", Quick: 300000, Thorough: 18000000, Run: c16RunNumber},
			{Name: "url", Quick: 300000, Thorough: 18000000, Run: c16RunURL},
			{Name: "datauri", Quick: 500000, Thorough: 30000000, Run: c16RunDataURI},
			{Name: "mediatype", Quick: 300000, Thorough: 18000000, Run: c16RunMediatype},
			{Name: "fold", Quick: 300000, Thorough: 18000000, Run: c16RunFold},
			{Name: "hash", Quick: 150000, Thorough: 8000000, Run: c16RunHash},
			{Name: "arbitrary", Quick: 250000, Thorough: 14000000, Run: c16RunArbitrary},
		},
	})
}
