package props

import (
	"bytes"
	"encoding/binary"
	"fmt"
	"io"
	"math/rand"
	"strings"
	"sync"

	"github.com/tdewolff/parse/v2"

	"vh/fw"
	"vh/gen"
)

// C19 — BinaryWriter/BinaryReader over every backend, Seek/Read/ReadAt contracts, Bitmap round trip.
//
// Oracle: a reference model {data, pos, eof} (what bytes.Reader + encoding/binary would deliver) that is
// stepped with every call and compared online with Pos/Len/Err and the returned values.
//
// Readings adopted (weakest consistent with the statement, the doc comments and binary_test.go):
//   * the typed read that runs past the end returns 0 (pinned by the unit tests) resp. a prefix of the bytes
//     that are left (ReadBytes/ReadString); how much of the short remainder it consumes is not stated, so
//     only pos <= Pos() <= total (and, for byte strings, Pos advanced by the returned length) is demanded;
//   * Err() is about the typed reads; what Read/ReadAt (io contracts) do to Err() is not stated, so short
//     Read/ReadAt calls are only made after the typed script, where Err() may be nil or io.EOF;
//   * a short ReadAt must return a prefix of the data and a non-nil error (io.ReaderAt), not necessarily
//     all available bytes and not necessarily io.EOF; Read may return fewer bytes than asked (io.Reader);
//   * Seek: targets in [0, total] must agree with bytes.Reader; a negative target must fail (io.Seeker);
//     a target beyond the end may fail or succeed; a failed Seek leaves Pos() alone;
//   * the plain io.Reader backend with n >= 0 cannot seek: only sequential calls and Seeks that do not
//     move (or are not followed by reads) are made on it.

const (
	kU8 = iota
	kI8
	kU16
	kI16
	kU24
	kI24
	kU32
	kI32
	kU64
	kI64
	kBytes
	kNum
)

var c19KindName = [kNum]string{"u8", "i8", "u16", "i16", "u24", "i24", "u32", "i32", "u64", "i64", "bytes"}
var c19KindBits = [kNum]uint{8, 8, 16, 16, 24, 24, 32, 32, 64, 64, 0}

type c19Item struct {
	Kind string `json:"kind"`
	U    uint64 `json:"u,omitempty"` // value written (unsigned kinds)
	I    int64  `json:"i,omitempty"` // value written (signed kinds)
	B    fw.B   `json:"bytes,omitempty"`
	LE   bool   `json:"littleEndian"`
	Alt  int    `json:"alt"` // which of the equivalent write/read methods is used
	Off  int64  `json:"off"` // offset of the item in the encoding
	kind int
	w    int64
}

type c19Op struct {
	Op   string `json:"op"`
	A, B int64
}

type c19Case struct {
	Items       []c19Item `json:"items"`
	Extra       []c19Item `json:"extraReads,omitempty"` // typed reads issued after the script (they hit the end)
	WriterCap   int       `json:"writerBufCap"`
	Encoded     fw.B      `json:"encoded"`
	Cut         int       `json:"cut"` // the readers get encoded[:cut]
	Backend     string    `json:"backend"`
	Ctor        string    `json:"constructor"`
	Chunks      []int     `json:"chunks"`
	EOFWithLast bool      `json:"eofWithLastBytes"`
	Seed        int64     `json:"driveSeed"`
	Ops         []c19Op   `json:"ops,omitempty"`
}

func c19Order(le bool) binary.ByteOrder {
	if le {
		return binary.LittleEndian
	}
	return binary.BigEndian
}

var c19Edge64 = []uint64{0, 1, 0x7f, 0x80, 0xff, 0x100, 0x7fff, 0x8000, 0xffff, 0x7fffff, 0x800000, 0xffffff, 0x7fffffff, 0x80000000, 0xffffffff,
	0x7fffffffffffffff, 0x8000000000000000, 0xffffffffffffffff, 0x0102030405060708, 0xf1f2f3f4f5f6f7f8}

// c19GenItems draws a write script. Values are within the range of their type (24-bit values within 24 bits).
func c19GenItems(r *rand.Rand, n int, maxBytes int) []c19Item {
	items := make([]c19Item, n)
	le := r.Intn(2) == 0
	flip := r.Intn(8) == 0 // a few scripts change the byte order between items
	for i := range items {
		if flip && r.Intn(4) == 0 {
			le = !le
		}
		items[i] = c19GenItem(r, le, maxBytes)
	}
	return items
}

func c19GenItem(r *rand.Rand, le bool, maxBytes int) c19Item {
	it := c19Item{LE: le, Alt: r.Intn(6)}
	it.kind = r.Intn(kNum)
	if r.Intn(5) == 0 {
		it.kind = gen.Pick(r, []int{kU24, kI24, kBytes, kU8})
	}
	it.Kind = c19KindName[it.kind]
	if it.kind == kBytes {
		n := gen.SmallLen(r, 24)
		if maxBytes > 24 && r.Intn(12) == 0 {
			n = r.Intn(maxBytes + 1)
		}
		it.B = gen.RawBytes(r, n)
		it.w = int64(n)
		return it
	}
	bits := c19KindBits[it.kind]
	v := r.Uint64()
	switch r.Intn(4) {
	case 0:
		v = gen.Pick(r, c19Edge64)
	case 1:
		v = 1<<uint(r.Intn(64)) - uint64(r.Intn(2))
	}
	v &= 1<<bits - 1 // for bits == 64 the shift yields 0 and the mask is all ones
	it.w = int64(bits / 8)
	if it.kind%2 == 0 { // unsigned
		it.U = v
	} else {
		it.I = int64(v<<(64-bits)) >> (64 - bits) // sign-extend from the type's width
	}
	return it
}

// c19Encode is the reference encoding (encoding/binary; 24-bit: the three low-order bytes in the same order).
func c19Encode(dst []byte, it *c19Item) []byte {
	v := it.U
	if it.kind%2 == 1 {
		v = uint64(it.I)
	}
	switch it.kind {
	case kBytes:
		return append(dst, it.B...)
	case kU8, kI8:
		return append(dst, byte(v))
	case kU16, kI16:
		if it.LE {
			return binary.LittleEndian.AppendUint16(dst, uint16(v))
		}
		return binary.BigEndian.AppendUint16(dst, uint16(v))
	case kU24, kI24:
		if it.LE {
			return append(dst, byte(v), byte(v>>8), byte(v>>16))
		}
		return append(dst, byte(v>>16), byte(v>>8), byte(v))
	case kU32, kI32:
		if it.LE {
			return binary.LittleEndian.AppendUint32(dst, uint32(v))
		}
		return binary.BigEndian.AppendUint32(dst, uint32(v))
	default:
		if it.LE {
			return binary.LittleEndian.AppendUint64(dst, v)
		}
		return binary.BigEndian.AppendUint64(dst, v)
	}
}

// c19Write runs the script through BinaryWriter and checks the produced bytes against the reference encoding.
func c19Write(t *fw.T, cs *c19Case) (enc []byte, ok bool) {
	var buf []byte
	if cs.WriterCap > 0 {
		buf = make([]byte, 0, cs.WriterCap)
	}
	var ref []byte
	var w *parse.BinaryWriter
	le := false
	if p := fw.Guard(func() { w = parse.NewBinaryWriter(buf) }); p != "" {
		t.Failf("NewBinaryWriter: %s", p)
		return nil, false
	}
	for i := range cs.Items {
		it := &cs.Items[i]
		it.Off = int64(len(ref))
		p := fw.Guard(func() {
			if it.LE != le || i == 0 {
				le = it.LE
				if le {
					w.ByteOrder = binary.LittleEndian
				} else {
					w.ByteOrder = binary.BigEndian
				}
			}
			switch it.kind {
			case kBytes:
				switch it.Alt % 3 {
				case 0:
					w.WriteBytes(it.B)
				case 1:
					w.WriteString(string(it.B))
				default:
					if n, err := w.Write(it.B); n != len(it.B) || err != nil {
						t.Failf("BinaryWriter.Write(%d bytes) = (%d, %v), io.Writer demands (len, nil)", len(it.B), n, err)
					}
				}
			case kU8:
				if it.Alt%2 == 0 {
					w.WriteUint8(uint8(it.U))
				} else {
					w.WriteByte(byte(it.U))
				}
			case kI8:
				w.WriteInt8(int8(it.I))
			case kU16:
				w.WriteUint16(uint16(it.U))
			case kI16:
				w.WriteInt16(int16(it.I))
			case kU24:
				w.WriteUint24(uint32(it.U))
			case kI24:
				w.WriteInt24(int32(it.I))
			case kU32:
				w.WriteUint32(uint32(it.U))
			case kI32:
				w.WriteInt32(int32(it.I))
			case kU64:
				w.WriteUint64(it.U)
			case kI64:
				w.WriteInt64(it.I)
			}
		})
		if p != "" {
			t.Failf("writing item %d (%s): %s", i, it.Kind, p)
		}
		if t.Failed() {
			return nil, false
		}
		ref = c19Encode(ref, it)
		if got := w.Len(); got != int64(len(ref)) {
			t.Failf("BinaryWriter.Len()=%d after item %d (%s), %d bytes were written", got, i, it.Kind, len(ref))
			return nil, false
		}
	}
	if got := w.Bytes(); !bytes.Equal(got, ref) {
		i := 0
		for i < len(got) && i < len(ref) && got[i] == ref[i] {
			i++
		}
		t.Failf("BinaryWriter produced %d bytes that differ from encoding/binary (%d bytes) at offset %d: got %s want %s", len(got), len(ref), i, fw.Q(got), fw.Q(ref))
		return nil, false
	}
	t.Count("writer.items", len(cs.Items))
	return ref, true
}

// ---------------------------------------------------------------------------------------------------
// the reader monitor

type c19Mon struct {
	keepOrder bool // typed reads use the ByteOrder the reader already has (clones)
	t         *fw.T
	cs        *c19Case
	r         *parse.BinaryReader
	data      []byte
	total     int64
	pos       int64
	eof       bool // a typed read ran past the end: Err() must be io.EOF from now on
	loose     bool // a short Read/ReadAt happened: Err() may be nil or io.EOF
	seekable  bool
	ops       []c19Op
	last      c19Op
	cnt       map[string]int
}

func (m *c19Mon) op(name string, a, b int64) {
	m.last = c19Op{name, a, b}
	if len(m.ops) < 400 {
		m.ops = append(m.ops, c19Op{name, a, b})
	}
}

func (m *c19Mon) fail(format string, a ...any) bool {
	m.cs.Ops = m.ops
	m.t.Desc(m.cs)
	m.t.Failf("[%s via %s, %d bytes] "+format, append([]any{m.cs.Backend, m.cs.Ctor, m.total}, a...)...)
	return false
}

// call runs f with panic capture.
func (m *c19Mon) call(what string, f func()) bool {
	if p := fw.Guard(f); p != "" {
		return m.fail("%s (last operation %s(%d, %d)) at pos %d: %s", what, m.last.Op, m.last.A, m.last.B, m.pos, p)
	}
	return true
}

func (m *c19Mon) flush() {
	for k, v := range m.cnt {
		m.t.Count(k, v)
	}
}

// state compares Pos/Len/Err with the model.
func (m *c19Mon) state(after string) bool {
	var p, l int64
	var err error
	if !m.call("Pos/Len/Err", func() { p, l, err = m.r.Pos(), m.r.Len(), m.r.Err() }) {
		return false
	}
	if p != m.pos || l != m.total-m.pos {
		return m.fail("after %s: Pos()=%d Len()=%d, want %d and %d", after, p, l, m.pos, m.total-m.pos)
	}
	switch {
	case m.eof:
		if err != io.EOF {
			return m.fail("after %s: Err()=%v although a read ran past the end (want io.EOF)", after, err)
		}
	case m.loose:
		if err != nil && err != io.EOF {
			return m.fail("after %s: Err()=%v", after, err)
		}
	default:
		if err != nil {
			return m.fail("after %s: Err()=%v at pos %d of %d although no read ran past the end", after, err, m.pos, m.total)
		}
	}
	m.cnt["reader.state.checks"]++
	return true
}

// crossed handles the position after a typed read that did not fit.
func (m *c19Mon) crossed(what string, consumed int64) bool {
	var p int64
	if !m.call("Pos", func() { p = m.r.Pos() }) {
		return false
	}
	if p < m.pos || p > m.total {
		return m.fail("%s ran past the end: Pos()=%d outside [%d, %d]", what, p, m.pos, m.total)
	}
	if consumed >= 0 && p-m.pos != consumed {
		return m.fail("%s returned %d bytes but Pos() moved from %d to %d", what, consumed, m.pos, p)
	}
	if p == m.total {
		m.cnt["reader.eof.pos_at_end"]++
	}
	if m.eof {
		m.cnt["reader.eof.after"]++
	} else {
		m.cnt["reader.eof.crossing"]++
	}
	m.pos = p
	m.eof = true
	return true
}

// readItem performs the typed read of one item at the current position. known: the value at this position is
// it's value (false for the extra reads after the script, which never fit).
func (m *c19Mon) readItem(it *c19Item, known bool) bool {
	fits := !m.eof && m.total-m.pos >= it.w
	if fits && !known {
		panic("c19: harness bug: unknown item fits")
	}
	what := "Read(" + it.Kind + ")"
	m.op(what, it.w, int64(it.Alt))
	if !m.keepOrder && !m.call("set ByteOrder", func() { m.r.ByteOrder = c19Order(it.LE) }) {
		return false
	}
	if it.kind == kBytes {
		return m.readBytesItem(it, fits, what)
	}
	var u uint64
	var i int64
	var berr error
	viaReadByte := it.kind == kU8 && it.Alt%2 == 1
	ok := m.call(what, func() {
		switch it.kind {
		case kU8:
			if viaReadByte {
				var b byte
				b, berr = m.r.ReadByte()
				u = uint64(b)
			} else {
				u = uint64(m.r.ReadUint8())
			}
		case kI8:
			i = int64(m.r.ReadInt8())
		case kU16:
			u = uint64(m.r.ReadUint16())
		case kI16:
			i = int64(m.r.ReadInt16())
		case kU24:
			u = uint64(m.r.ReadUint24())
		case kI24:
			i = int64(m.r.ReadInt24())
		case kU32:
			u = uint64(m.r.ReadUint32())
		case kI32:
			i = int64(m.r.ReadInt32())
		case kU64:
			u = m.r.ReadUint64()
		case kI64:
			i = m.r.ReadInt64()
		}
	})
	if !ok {
		return false
	}
	if fits {
		if u != it.U || i != it.I {
			return m.fail("%s (little-endian=%v) at offset %d = %d/%#x, written value %d/%#x (bytes %s)", what, it.LE, m.pos, i, u, it.I, it.U, fw.Q(m.data[m.pos:m.pos+it.w]))
		}
		if viaReadByte && berr != nil {
			return m.fail("ReadByte at offset %d of %d returned error %v", m.pos, m.total, berr)
		}
		m.pos += it.w
		m.cnt["reader.values.exact"]++
		m.t.Seen("kind.order", fmt.Sprint(it.Kind, it.LE))
	} else {
		if u != 0 || i != 0 {
			return m.fail("%s with %d bytes left (eof=%v) = %d/%#x, want the zero value", what, m.total-m.pos, m.eof, i, u)
		}
		if viaReadByte && berr != io.EOF {
			return m.fail("ReadByte with %d bytes left returned error %v, want io.EOF", m.total-m.pos, berr)
		}
		if !m.crossed(what, -1) {
			return false
		}
	}
	return m.state(what)
}

func (m *c19Mon) readBytesItem(it *c19Item, fits bool, what string) bool {
	n := it.w
	alt := it.Alt
	if !fits || n == 0 {
		alt %= 2 // Read / ReadAt+Seek are used for reads inside the data only
	} else if !m.seekable && alt == 3 {
		alt = 2
	}
	var got []byte
	switch alt {
	case 0, 1: // ReadBytes / ReadString
		if !m.call(what, func() {
			if alt == 0 {
				got = m.r.ReadBytes(n)
			} else {
				got = []byte(m.r.ReadString(n))
			}
		}) {
			return false
		}
		if fits {
			if !bytes.Equal(got, it.B) {
				return m.fail("ReadBytes/ReadString(%d) at offset %d = %s, written %s", n, m.pos, fw.Q(got), fw.Q(it.B))
			}
			m.pos += n
			m.cnt["reader.values.exact"]++
			m.t.Seen("kind.order", fmt.Sprint(it.Kind, it.LE))
			if alt == 0 && cap(got) > len(got) && m.pos < m.total {
				// the caller appends to the slice it was given: what the reader delivers next must not change
				ext := got[: len(got)+1 : len(got)+1]
				old := ext[len(got)]
				ext[len(got)] = old ^ 0xFF
				one := make([]byte, 1)
				nn := 0
				fw.Guard(func() { nn, _ = m.r.ReadAt(one, m.pos) })
				ext[len(got)] = old
				m.cnt["readbytes.spare_capacity_probed"]++
				if nn == 1 && one[0] != m.data[m.pos] {
					return m.fail("a byte appended to the slice returned by ReadBytes(%d) shows up as the next byte the reader delivers (offset %d): the slice has spare capacity inside the reader's data", n, m.pos)
				}
			}
			if n == 0 && m.pos == m.total {
				m.cnt["reader.zero_len_at_end"]++
			}
		} else {
			left := m.data[m.pos:]
			if m.eof && len(got) != 0 {
				return m.fail("ReadBytes(%d) after the end was passed returned %s, want nothing", n, fw.Q(got))
			}
			if len(got) > len(left) || !bytes.Equal(got, left[:len(got)]) {
				return m.fail("ReadBytes(%d) with %d bytes left returned %s, not a prefix of %s", n, len(left), fw.Q(got), fw.Q(left))
			}
			if !m.crossed(what, int64(len(got))) {
				return false
			}
		}
	case 2, 4, 5: // io.Reader: Read until n bytes arrived (a compliant Read may return fewer than asked)
		buf := make([]byte, n)
		idle := 0
		for done := int64(0); done < n; {
			k, ok := m.ioRead(buf[done:])
			if !ok {
				return false
			}
			if k == 0 {
				if idle++; idle > 3 {
					return m.fail("Read makes no progress at offset %d of %d", m.pos, m.total)
				}
			} else {
				idle = 0
			}
			done += int64(k)
		}
		if !bytes.Equal(buf, it.B) {
			return m.fail("Read assembled %s at offset %d, written %s", fw.Q(buf), m.pos-n, fw.Q(it.B))
		}
		m.cnt["reader.values.exact"]++
	case 3: // io.ReaderAt at the current position, then a relative Seek over it
		buf := make([]byte, n)
		if !m.ioReadAt(buf, m.pos) {
			return false
		}
		if !bytes.Equal(buf, it.B) {
			return m.fail("ReadAt(%d bytes, %d) = %s, written %s", n, m.pos, fw.Q(buf), fw.Q(it.B))
		}
		if !m.seek(n, io.SeekCurrent) {
			return false
		}
		m.cnt["reader.values.exact"]++
	}
	return m.state(what)
}

// ioRead makes one Read call and checks it against io.Reader.
func (m *c19Mon) ioRead(b []byte) (int, bool) {
	avail := m.total - m.pos
	var n int
	var err error
	m.op("Read", int64(len(b)), 0)
	if !m.call("Read", func() { n, err = m.r.Read(b) }) {
		return 0, false
	}
	m.cnt["read.calls"]++
	if n < 0 || n > len(b) || int64(n) > avail {
		return 0, m.fail("Read(%d bytes) at offset %d of %d returned n=%d", len(b), m.pos, m.total, n)
	}
	if !bytes.Equal(b[:n], m.data[m.pos:m.pos+int64(n)]) {
		return 0, m.fail("Read(%d bytes) at offset %d returned %s, the data there are %s", len(b), m.pos, fw.Q(b[:n]), fw.Q(m.data[m.pos:m.pos+int64(n)]))
	}
	if err != nil && err != io.EOF {
		return 0, m.fail("Read(%d bytes) at offset %d of %d returned error %v", len(b), m.pos, m.total, err)
	}
	if err == io.EOF && m.pos+int64(n) != m.total {
		return 0, m.fail("Read(%d bytes) at offset %d returned (%d, io.EOF) %d bytes before the end", len(b), m.pos, n, m.total-m.pos-int64(n))
	}
	if avail == 0 && len(b) > 0 {
		if err != io.EOF {
			return 0, m.fail("Read(%d bytes) at the end returned (%d, %v), want (0, io.EOF)", len(b), n, err)
		}
		m.cnt["read.at_end"]++
	}
	if err != nil {
		m.loose = true
	}
	m.pos += int64(n)
	return n, m.state("Read")
}

// ioReadAt makes one ReadAt call and checks it against io.ReaderAt. Returns false after a violation.
func (m *c19Mon) ioReadAt(b []byte, off int64) bool {
	var n int
	var err error
	m.op("ReadAt", int64(len(b)), off)
	if !m.call("ReadAt", func() { n, err = m.r.ReadAt(b, off) }) {
		return false
	}
	if msg := c19CheckReadAt(m.data, b, off, n, err); msg != "" {
		return m.fail("%s", msg)
	}
	m.cnt["readat.calls"]++
	if n < len(b) {
		m.cnt["readat.short"]++
	}
	if err != nil {
		m.loose = true
	}
	return m.state("ReadAt") // in particular: Pos() not moved
}

// c19CheckReadAt is the io.ReaderAt oracle (pure, also used from the goroutines of the parallel stream).
func c19CheckReadAt(data, b []byte, off int64, n int, err error) string {
	total := int64(len(data))
	if n < 0 || n > len(b) {
		return fmt.Sprintf("ReadAt(%d bytes, %d) returned n=%d", len(b), off, n)
	}
	if n < len(b) && err == nil {
		return fmt.Sprintf("ReadAt(%d bytes, %d) on %d bytes returned (%d, nil): io.ReaderAt demands an error for a short read", len(b), off, total, n)
	}
	if off < 0 {
		return "" // nothing else is stated for negative offsets
	}
	avail := total - off
	if avail < 0 {
		avail = 0
	}
	if int64(n) > avail {
		return fmt.Sprintf("ReadAt(%d bytes, %d) on %d bytes returned n=%d, only %d are there", len(b), off, total, n, avail)
	}
	if n > 0 && !bytes.Equal(b[:n], data[off:off+int64(n)]) {
		return fmt.Sprintf("ReadAt(%d bytes, %d) returned %s, the data there are %s", len(b), off, fw.Q(b[:n]), fw.Q(data[off:off+int64(n)]))
	}
	if avail >= int64(len(b)) {
		// everything asked for exists: ReadAt must deliver it; io.EOF is allowed only for a read ending at the end
		if n != len(b) {
			return fmt.Sprintf("ReadAt(%d bytes, %d) on %d bytes returned only %d bytes (err %v)", len(b), off, total, n, err)
		}
		if err != nil && !(err == io.EOF && off+int64(n) >= total) {
			return fmt.Sprintf("ReadAt(%d bytes, %d) on %d bytes returned error %v with a full read", len(b), off, total, err)
		}
	}
	return ""
}

// seek performs a Seek and checks it (see the readings at the top).
func (m *c19Mon) seek(off int64, whence int) bool {
	base := int64(0)
	switch whence {
	case io.SeekCurrent:
		base = m.pos
	case io.SeekEnd:
		base = m.total
	}
	target := base + off
	var ret int64
	var err error
	m.op("Seek", off, int64(whence))
	if !m.call("Seek", func() { ret, err = m.r.Seek(off, whence) }) {
		return false
	}
	switch {
	case target >= 0 && target <= m.total:
		// bytes.Reader over the same data: (target, nil)
		if err != nil || ret != target {
			return m.fail("Seek(%d, whence %d) from pos %d = (%d, %v), bytes.Reader gives (%d, nil)", off, whence, m.pos, ret, err, target)
		}
		m.pos = target
		m.cnt["seek.inrange"]++
	case target < 0:
		if err == nil {
			return m.fail("Seek(%d, whence %d) from pos %d to the negative position %d = (%d, nil), io.Seeker demands an error", off, whence, m.pos, target, ret)
		}
		m.cnt["seek.outofrange"]++
	default: // beyond the end: either refused or carried out
		m.cnt["seek.outofrange"]++
		if err == nil {
			if ret != target {
				return m.fail("Seek(%d, whence %d) from pos %d = (%d, nil), want %d", off, whence, m.pos, ret, target)
			}
			back := m.pos
			m.pos = target
			if !m.state("Seek beyond the end") {
				return false
			}
			return m.seek(back, io.SeekStart)
		}
	}
	return m.state("Seek")
}

// seekTo moves to target (inside [0,total]) with a random whence.
func (m *c19Mon) seekTo(r *rand.Rand, target int64) bool {
	switch r.Intn(3) {
	case 0:
		return m.seek(target, io.SeekStart)
	case 1:
		return m.seek(target-m.pos, io.SeekCurrent)
	default:
		return m.seek(target-m.total, io.SeekEnd)
	}
}

// excursion: seek somewhere inside the data, read there (only reads that fit), come back.
func (m *c19Mon) excursion(r *rand.Rand, items []c19Item) bool {
	home := m.pos
	if !m.seekable {
		// only Seeks that do not move
		return m.seekTo(r, home)
	}
	m.cnt["excursions"]++
	switch r.Intn(4) {
	case 0: // a typed read of an item of the script that lies inside the data
		if len(items) > 0 {
			it := &items[r.Intn(len(items))]
			if it.Off+it.w <= m.total {
				if !m.seekTo(r, it.Off) || !m.readItem(it, true) {
					return false
				}
				m.cnt["reads.after_seek"]++
			}
		}
	case 1: // Read at a random target
		target := r.Int63n(m.total + 1)
		if !m.seekTo(r, target) {
			return false
		}
		if n := m.total - target; n > 0 {
			if _, ok := m.ioRead(make([]byte, 1+r.Int63n(min64(n, 40)))); !ok {
				return false
			}
			m.cnt["reads.after_seek"]++
		}
	case 2: // ReadAt inside the data: must not move Pos
		off := r.Int63n(m.total + 1)
		if n := m.total - off; n > 0 {
			if !m.ioReadAt(make([]byte, 1+r.Int63n(min64(n, 40))), off) {
				return false
			}
		}
	default: // a clone has its own position; reading from it leaves the original alone
		var c *parse.BinaryReader
		if !m.call("Clone", func() { c = m.r.Clone() }) {
			return false
		}
		cm := &c19Mon{t: m.t, cs: m.cs, r: c, data: m.data, total: m.total, pos: m.pos, eof: m.eof, loose: m.loose, seekable: true, ops: m.ops, cnt: m.cnt}
		if !cm.state("Clone (the clone)") {
			return false
		}
		if c != nil && c.ByteOrder != m.r.ByteOrder {
			return m.fail("Clone() of a reader with ByteOrder %v has ByteOrder %v", m.r.ByteOrder, c.ByteOrder)
		}
		if len(items) > 0 {
			it := &items[r.Intn(len(items))]
			if it.Off+it.w <= m.total {
				// the clone reads with the byte order it inherited: a second clone is taken after the original was set to the item's order
				m.r.ByteOrder = c19Order(it.LE)
				var c2 *parse.BinaryReader
				if !m.call("Clone", func() { c2 = m.r.Clone() }) {
					return false
				}
				cm.r, cm.keepOrder = c2, true
				if !cm.seekTo(r, it.Off) || !cm.readItem(it, true) {
					return false
				}
			}
		}
		m.ops = cm.ops
		m.cnt["clone.checks"]++
		return m.state("reads on a clone (the original)")
	}
	return m.seekTo(r, home)
}

func min64(a, b int64) int64 {
	if a < b {
		return a
	}
	return b
}

// c19Drive runs the whole read side of a case on one opened reader.
func c19Drive(t *fw.T, cs *c19Case, o c19Opened, data []byte, seed int64, scriptOnly bool) bool {
	r := newRand(seed)
	m := &c19Mon{t: t, cs: cs, r: o.r, data: data, total: int64(len(data)), seekable: o.seekable, cnt: map[string]int{}}
	defer m.flush()
	closed := false
	defer func() { // failure paths: still release the file / mapping
		if !closed {
			fw.Guard(func() { o.r.Close() })
		}
	}()
	if !m.state("construction") {
		return false
	}
	// phase A: the script, read back in order, with excursions that return to the script position
	for i := range cs.Items {
		if !scriptOnly && !m.eof && r.Intn(6) == 0 && !m.excursion(r, cs.Items) {
			return false
		}
		if !m.readItem(&cs.Items[i], true) {
			return false
		}
	}
	for i := range cs.Extra {
		if !m.readItem(&cs.Extra[i], false) {
			return false
		}
	}
	if scriptOnly {
		closed = true
		return m.call("Close", func() { m.r.Close() })
	}
	// phase B: random access after the script. Short Read/ReadAt calls happen here only.
	if m.pos == m.total && r.Intn(2) == 0 { // sequential Read at the end, every backend
		if _, ok := m.ioRead(make([]byte, 1+r.Intn(6))); !ok {
			return false
		}
	}
	if m.seekable {
		for k := r.Intn(6); k > 0; k-- {
			off := r.Int63n(m.total + 3)
			if r.Intn(20) == 0 {
				off = -1 - r.Int63n(3)
			}
			n := r.Int63n(12)
			if r.Intn(3) == 0 {
				n = m.total - off + int64(r.Intn(3)) - 1 // around an exact fit
			}
			if n < 0 {
				n = 0
			}
			if !m.ioReadAt(make([]byte, n), off) {
				return false
			}
		}
		if r.Intn(2) == 0 { // Read across the end
			target := m.total - min64(m.total, int64(r.Intn(4)))
			if !m.seekTo(r, target) {
				return false
			}
			for k := 0; k < 3; k++ {
				if _, ok := m.ioRead(make([]byte, 1+r.Intn(6))); !ok {
					return false
				}
			}
		}
	}
	for k := r.Intn(5); k > 0; k-- { // Seek only moves the position: allowed on every backend once reading is over
		whence := r.Intn(3)
		if !m.seek(r.Int63n(2*m.total+5)-m.total-2, whence) {
			return false
		}
	}
	if m.eof && r.Intn(2) == 0 {
		// once a read has run past the end Err() is io.EOF and stays it, whatever a later read (which a forward-only
		// backend cannot serve after a Seek) runs into
		var err error
		if !m.call("ReadBytes(1) after the end was passed", func() { m.r.ReadBytes(1); err = m.r.Err() }) {
			return false
		}
		if err != io.EOF {
			return m.fail("after a read had run past the end and Err() was io.EOF, a further ReadBytes(1) at Pos()=%d changed Err() to %v", m.r.Pos(), err)
		}
		m.cnt["err.sticky_after_end"]++
	}
	closed = true
	return m.call("Close", func() { m.r.Close() })
}

// c19Plan says how one backend is opened and driven.
type c19Plan struct {
	backend     string
	variant     int
	chunks      []int
	eofWithLast bool
	seed        int64
	scriptOnly  bool // probes: the typed script and nothing else, so that each probe isolates one defect
}

// c19Plans draws a plan for every backend from the case PRNG.
func c19Plans(r *rand.Rand, backends []string) []c19Plan {
	ps := make([]c19Plan, len(backends))
	for i, b := range backends {
		p := c19Plan{backend: b}
		for k := 1 + r.Intn(3); k > 0; k-- {
			p.chunks = append(p.chunks, 1+r.Intn(gen.Pick(r, []int{1, 3, 9, 4096})))
		}
		p.eofWithLast = r.Intn(3) == 0
		p.seed = r.Int63()
		p.variant = r.Intn(12)
		ps[i] = p
	}
	return ps
}

// c19RunBackends opens every planned backend over data and drives it.
func c19RunBackends(t *fw.T, fs *c19Files, cs *c19Case, data []byte, plans []c19Plan) bool {
	for _, pl := range plans {
		cs.Backend, cs.Chunks, cs.EOFWithLast, cs.Seed = pl.backend, pl.chunks, pl.eofWithLast, pl.seed
		cs.Ctor = fmt.Sprintf("variant %d", pl.variant)
		cs.Ops = nil
		t.Desc(cs)
		var o c19Opened
		var libErr, envErr error
		if p := fw.Guard(func() { o, libErr, envErr = c19Open(fs, pl.backend, pl.variant, data, pl.chunks, pl.eofWithLast) }); p != "" {
			t.Failf("constructing backend %s (variant %d) over %d bytes: %s", pl.backend, pl.variant, len(data), p)
			return false
		}
		if envErr != nil {
			t.Count("env.scratch_file_errors", 1)
			continue
		}
		cs.Ctor = o.ctor
		if libErr != nil || o.r == nil {
			o.cleanup()
			t.Failf("%s over %d bytes failed: %v", o.ctor, len(data), libErr)
			return false
		}
		ok := c19Drive(t, cs, o, data, pl.seed, pl.scriptOnly)
		o.cleanup()
		if !ok {
			return false
		}
		t.Count("backend."+pl.backend, 1)
		t.Seen("ctor", o.ctor)
	}
	return true
}

func c19Extra(r *rand.Rand, le bool) []c19Item {
	extra := make([]c19Item, 1+r.Intn(3))
	for i := range extra {
		extra[i] = c19GenItem(r, le, 8)
		extra[i].U, extra[i].I = 0, 0
		if extra[i].kind == kBytes && extra[i].w == 0 {
			extra[i].B, extra[i].w = []byte{0}, 1
		}
	}
	return extra
}

func c19Kinds(items []c19Item) int {
	seen := map[int]bool{}
	for i := range items {
		seen[items[i].kind] = true
	}
	return len(seen)
}

// stream "script": a random write script, the encoding optionally truncated once, read on all eight backends.
func c19Script(t *fw.T) {
	r := t.Rng
	n := gen.SmallLen(r, 200)
	cs := &c19Case{Items: c19GenItems(r, n, 9000)}
	if r.Intn(3) == 0 {
		cs.WriterCap = 1 + r.Intn(64)
	}
	cs.Extra = c19Extra(r, r.Intn(2) == 0)
	cs.Cut = -1
	t.Desc(cs)
	enc, ok := c19Write(t, cs)
	if !ok {
		return
	}
	cs.Encoded = enc
	cs.Cut = len(enc)
	if r.Intn(3) == 0 {
		cs.Cut = r.Intn(len(enc) + 1)
	}
	var fs c19Files
	defer fs.remove()
	if !c19RunBackends(t, &fs, cs, enc[:cs.Cut], c19Plans(r, c19Backends)) {
		return
	}
	if n >= 3 && c19Kinds(cs.Items) >= 2 {
		t.Nontrivial(append([]byte(fmt.Sprint(cs.Cut, cs.Items[0].LE, "|")), enc...))
	}
	if len(enc) <= 64 {
		cs.Backend, cs.Ctor = "all", ""
		t.Sample(cs)
	}
}

// stream "trunc": a small script whose encoding is truncated at EVERY byte; each cut is read on all backends.
func c19Trunc(t *fw.T) {
	r := t.Rng
	n := 1 + r.Intn(5)
	cs := &c19Case{Items: c19GenItems(r, n, 6)}
	cs.Extra = c19Extra(r, r.Intn(2) == 0)
	cs.Cut = -1
	t.Desc(cs)
	enc, ok := c19Write(t, cs)
	if !ok {
		return
	}
	cs.Encoded = enc
	var fs c19Files
	defer fs.remove()
	for cut := 0; cut <= len(enc); cut++ {
		cs.Cut = cut
		if !c19RunBackends(t, &fs, cs, enc[:cut], c19Plans(r, c19Backends)) {
			return
		}
		t.Count("trunc.cuts", 1)
	}
	if n >= 2 && len(enc) >= 3 {
		t.Nontrivial(append([]byte(fmt.Sprint(cs.Items[0].LE, "|")), enc...))
	}
	cs.Backend, cs.Ctor, cs.Cut = "all", "", -1
	t.Sample(cs)
}

// stream "seek": for a data length L in 0..64 (index mod 65), every start position x every whence x every
// target in [-3, L+3] on one backend, against bytes.Reader; after a Seek inside the data one byte is read.
func c19Seek(t *fw.T) {
	r := t.Rng
	L := t.Index % 65
	data := make([]byte, L)
	b0 := byte(r.Intn(256))
	for i := range data {
		data[i] = b0 + byte(i) // all bytes distinct: a read reveals the position it came from
	}
	cs := &c19Case{Encoded: data, Cut: L, Backend: gen.Pick(r, c19Backends), Chunks: []int{1 + r.Intn(8)}, EOFWithLast: r.Intn(2) == 0}
	variant := r.Intn(12)
	readEvery := 1 + r.Intn(4)
	cs.Ctor = fmt.Sprintf("variant %d", variant)
	t.Desc(cs)
	var fs c19Files
	defer fs.remove()
	var o c19Opened
	var libErr, envErr error
	if p := fw.Guard(func() { o, libErr, envErr = c19Open(&fs, cs.Backend, variant, data, cs.Chunks, cs.EOFWithLast) }); p != "" {
		t.Failf("constructing backend %s: %s", cs.Backend, p)
		return
	}
	if envErr != nil {
		t.Count("env.scratch_file_errors", 1)
		return
	}
	defer o.cleanup()
	cs.Ctor = o.ctor
	if libErr != nil {
		t.Failf("%s over %d bytes failed: %v", o.ctor, L, libErr)
		return
	}
	m := &c19Mon{t: t, cs: cs, r: o.r, data: data, total: int64(L), seekable: o.seekable, cnt: map[string]int{}}
	defer m.flush()
	closed := false
	defer func() {
		if !closed {
			fw.Guard(func() { o.r.Close() })
		}
	}()
	ref := bytes.NewReader(data)
	k := 0
	for start := int64(0); start <= int64(L); start++ {
		for whence := 0; whence < 3; whence++ {
			for target := int64(-3); target <= int64(L)+3; target++ {
				if !m.seek(start, io.SeekStart) {
					return
				}
				ref.Seek(start, io.SeekStart)
				off := target - []int64{0, start, int64(L)}[whence]
				want, werr := ref.Seek(off, whence)
				if !m.seek(off, whence) {
					return
				}
				if target >= 0 && target <= int64(L) && (werr != nil || want != m.pos) {
					panic("c19: harness bug: model and bytes.Reader disagree")
				}
				m.ops = m.ops[:0]
				if k++; o.seekable && target >= 0 && target < int64(L) && k%readEvery == 0 {
					// the byte read after the Seek is the one bytes.Reader delivers
					wb, _ := ref.ReadByte()
					var gb byte
					if !m.call("ReadUint8 after Seek", func() { gb = m.r.ReadUint8() }) {
						return
					}
					if gb != wb {
						m.fail("after Seek(%d, whence %d) from pos %d: ReadUint8()=%#x, bytes.Reader delivers %#x (offset %d)", off, whence, start, gb, wb, target)
						return
					}
					m.pos++
					if !m.state("ReadUint8 after Seek") {
						return
					}
					m.cnt["seek.then_read"]++
				}
			}
		}
	}
	closed = true
	if !m.call("Close", func() { m.r.Close() }) {
		return
	}
	t.Count("backend."+cs.Backend, 1)
	t.Seen("seek.length", fmt.Sprint(L))
	if L >= 1 {
		t.Nontrivial([]byte(fmt.Sprint(L, cs.Backend, o.ctor, b0)))
	}
	t.Sample(cs)
}

// ---------------------------------------------------------------------------------------------------
// Bitmap

type c19BitCase struct {
	Mode string `json:"mode"` // roundtrip | buffer
	Bits string `json:"bits,omitempty"`
	Buf  fw.B   `json:"buf,omitempty"`
	Cap  int    `json:"writerBufCap"`
}

// c19Bitmap: (a) bits written with BitmapWriter come back in order from a BitmapReader over Bytes();
// (b) a BitmapReader over an arbitrary buffer yields exactly 8*len(buf) bits before EOF() turns true. The
// values of those bits are checked against the most-significant-bit-first layout only when BitmapWriter was
// observed to produce exactly that layout for the same bits (the statement fixes the layout only through
// the round trip).
func c19Bitmap(t *fw.T) {
	r := t.Rng
	nbits := gen.SmallLen(r, 600)
	if r.Intn(3) == 0 {
		nbits = 8 * (1 + r.Intn(12)) // whole bytes: the last bit of the buffer matters
	}
	bits := make([]bool, nbits)
	txt := make([]byte, nbits)
	mode := r.Intn(3)
	for i := range bits {
		switch mode {
		case 0:
			bits[i] = r.Intn(2) == 0
		case 1:
			bits[i] = true
		default:
			bits[i] = i == nbits-1 || r.Intn(8) == 0
		}
		txt[i] = '0'
		if bits[i] {
			txt[i] = '1'
		}
	}
	cs := &c19BitCase{Mode: "roundtrip", Bits: string(txt)}
	if r.Intn(3) == 0 {
		cs.Cap = 1 + r.Intn(8)
	}
	t.Desc(cs)
	var w *parse.BitmapWriter
	var wbuf []byte
	p := fw.Guard(func() {
		var buf []byte
		if cs.Cap > 0 {
			// a scratch buffer the caller reuses (prev[:0]): the spare capacity holds old bits
			buf = bytes.Repeat([]byte{0xFF}, cs.Cap)[:0]
		}
		w = parse.NewBitmapWriter(buf)
		for _, b := range bits {
			w.Write(b)
		}
		wbuf = w.Bytes()
		if l := w.Len(); l != int64(len(wbuf)) {
			t.Failf("BitmapWriter.Len()=%d but Bytes() has %d bytes", l, len(wbuf))
		}
	})
	if p != "" {
		t.Failf("BitmapWriter: %s", p)
	}
	if t.Failed() {
		return
	}
	if 8*len(wbuf) < nbits {
		t.Failf("BitmapWriter holds %d bytes after %d bits were written", len(wbuf), nbits)
		return
	}
	// (a) round trip
	if !c19ReadBits(t, wbuf, bits, false) {
		return
	}
	t.Count("bitmap.roundtrip.bits", nbits)
	// does the writer use the MSB-first layout with bit i in byte i/8 ?
	packed := make([]byte, (nbits+7)/8)
	for i, b := range bits {
		if b {
			packed[i>>3] |= 0x80 >> (i & 7)
		}
	}
	msb := bytes.Equal(wbuf[:len(packed)], packed) && len(bytes.Trim(wbuf[len(packed):], "\x00")) == 0
	if msb {
		t.Count("bitmap.writer.msb_first", 1)
	} else {
		t.Count("bitmap.writer.other_layout", 1)
	}
	// (b) arbitrary buffer: the exact bytes of the bits (no spare byte), or random bytes
	buf := packed
	if r.Intn(2) == 0 {
		buf = gen.RawBytes(r, r.Intn(20))
		if r.Intn(4) == 0 && len(buf) > 0 {
			buf[len(buf)-1] |= 1
		}
	}
	cs2 := &c19BitCase{Mode: "buffer", Buf: buf}
	t.Desc(cs2)
	var want []bool
	if msb {
		want = make([]bool, 8*len(buf))
		for i := range want {
			want[i] = buf[i>>3]&(0x80>>(i&7)) != 0
		}
	}
	if !c19ReadBitsN(t, buf, 8*len(buf), want, true) {
		return
	}
	t.Count("bitmap.buffer.bits", 8*len(buf))
	if nbits >= 9 {
		t.Nontrivial([]byte(cs.Bits))
	}
	t.Sample(cs)
}

func c19ReadBits(t *fw.T, buf []byte, want []bool, exact bool) bool {
	return c19ReadBitsN(t, buf, len(want), want, exact)
}

// c19ReadBitsN reads n bits from buf (EOF() must stay false), compares them with want when given, and when
// exact (n == 8*len(buf)) checks that the reader then reports the end: Read()==false and EOF()==true.
func c19ReadBitsN(t *fw.T, buf []byte, n int, want []bool, exact bool) bool {
	var br *parse.BitmapReader
	if p := fw.Guard(func() { br = parse.NewBitmapReader(buf) }); p != "" {
		t.Failf("NewBitmapReader: %s", p)
		return false
	}
	for i := 0; i < n; i++ {
		var bit, eof bool
		var pos uint32
		if p := fw.Guard(func() { bit = br.Read(); eof = br.EOF(); pos = br.Pos() }); p != "" {
			t.Failf("BitmapReader.Read of bit %d of a %d-byte buffer: %s", i, len(buf), p)
			return false
		}
		if eof {
			t.Failf("BitmapReader reports EOF at bit %d of a %d-byte buffer (%d bits); buffer %s", i, len(buf), 8*len(buf), fw.Q(buf))
			return false
		}
		if want != nil && bit != want[i] {
			t.Failf("BitmapReader bit %d = %v, want %v; buffer %s", i, bit, want[i], fw.Q(buf))
			return false
		}
		if pos != uint32(i+1) {
			t.Failf("BitmapReader.Pos()=%d after %d bits", pos, i+1)
			return false
		}
	}
	if exact {
		for k := 0; k < 2; k++ {
			var bit, eof bool
			if p := fw.Guard(func() { bit = br.Read(); eof = br.EOF() }); p != "" {
				t.Failf("BitmapReader.Read at the end of a %d-byte buffer: %s", len(buf), p)
				return false
			}
			if bit || !eof {
				t.Failf("BitmapReader after all %d bits: Read()=%v EOF()=%v, want false and true", n, bit, eof)
				return false
			}
		}
		t.Count("bitmap.all_bits_then_eof", 1)
	}
	return true
}

// ---------------------------------------------------------------------------------------------------
// stream "parallel" (-race build only): concurrent ReadAt on one reader and on clones

type c19ParCase struct {
	Data        fw.B    `json:"data"`
	Backend     string  `json:"backend"`
	Ctor        string  `json:"constructor"`
	Chunks      []int   `json:"chunks"`
	EOFWithLast bool    `json:"eofWithLastBytes"`
	Goroutines  int     `json:"goroutines"`
	OpsEach     int     `json:"readAtPerGoroutine"`
	Clone       []int   `json:"clone"` // per goroutine: 0 shared reader, 1 clone made before the start, 2 clone made inside
	Seeds       []int64 `json:"seeds"`
}

type c19ParResult struct {
	ops, short int
	fail       string
	_          [40]byte // keep the per-goroutine records apart
}

var c19ParBackends = []string{"bytes", "bytesrd", "seeker", "readerat", "plain-all", "file", "mmap"}

func c19Parallel(t *fw.T) {
	r := t.Rng
	L := 1 + r.Intn(gen.Pick(r, []int{16, 300, 5000, 20000}))
	data := make([]byte, L)
	r.Read(data)
	cs := &c19ParCase{Data: data, Backend: gen.Pick(r, c19ParBackends), Chunks: []int{1 + r.Intn(64)}, EOFWithLast: r.Intn(3) == 0,
		Goroutines: 2 + r.Intn(7), OpsEach: 20 + r.Intn(200)}
	if r.Intn(3) == 0 {
		cs.Backend = "seeker" // the one backend with shared mutable state (guarded by a mutex)
	}
	variant := r.Intn(12)
	for g := 0; g < cs.Goroutines; g++ {
		cs.Clone = append(cs.Clone, r.Intn(3))
		cs.Seeds = append(cs.Seeds, r.Int63())
	}
	cs.Ctor = fmt.Sprintf("variant %d", variant)
	t.Desc(cs)
	var fs c19Files
	defer fs.remove()
	var o c19Opened
	var libErr, envErr error
	if p := fw.Guard(func() { o, libErr, envErr = c19Open(&fs, cs.Backend, variant, data, cs.Chunks, cs.EOFWithLast) }); p != "" {
		t.Failf("constructing backend %s: %s", cs.Backend, p)
		return
	}
	if envErr != nil {
		t.Count("env.scratch_file_errors", 1)
		return
	}
	defer o.cleanup()
	cs.Ctor = o.ctor
	if libErr != nil {
		t.Failf("%s over %d bytes failed: %v", o.ctor, L, libErr)
		return
	}
	defer fw.Guard(func() { o.r.Close() })

	results := make([]c19ParResult, cs.Goroutines) // goroutine g touches results[g] only; merged after Wait
	readers := make([]*parse.BinaryReader, cs.Goroutines)
	for g := range readers {
		readers[g] = o.r
		if cs.Clone[g] == 1 {
			readers[g] = o.r.Clone()
		}
	}
	racesBefore := c19RaceCount()
	endCapture := c19CaptureStderr()
	var wg sync.WaitGroup
	for g := 0; g < cs.Goroutines; g++ {
		wg.Add(1)
		go func(res *c19ParResult, rd *parse.BinaryReader, mode int, seed int64) {
			defer wg.Done()
			rr := newRand(seed)
			if p := fw.Guard(func() {
				if mode == 2 {
					rd = rd.Clone()
				}
				for k := 0; k < cs.OpsEach; k++ {
					off := rr.Int63n(int64(L) + 2)
					n := rr.Intn(48)
					if rr.Intn(8) == 0 {
						n = rr.Intn(L + 8)
					}
					b := make([]byte, n)
					m, err := rd.ReadAt(b, off)
					if msg := c19CheckReadAt(data, b, off, m, err); msg != "" {
						res.fail = msg
						return
					}
					res.ops++
					if m < n {
						res.short++
					}
				}
			}); p != "" {
				res.fail = p
			}
		}(&results[g], readers[g], cs.Clone[g], cs.Seeds[g])
	}
	wg.Wait()
	report := endCapture()
	races := c19RaceCount() - racesBefore
	ops := 0
	for g := range results {
		if results[g].fail != "" {
			t.Failf("[%s via %s, %d bytes] goroutine %d of %d (reader mode %d) during parallel ReadAt: %s", cs.Backend, o.ctor, L, g, cs.Goroutines, cs.Clone[g], results[g].fail)
			return
		}
		ops += results[g].ops
		t.Count("parallel.readat.short", results[g].short)
	}
	if races > 0 || strings.Contains(report, "WARNING: DATA RACE") {
		if i := strings.Index(report, "WARNING: DATA RACE"); i > 0 {
			report = report[i:]
		}
		if len(report) > 2500 {
			report = report[:2500]
		}
		t.Failf("[%s via %s, %d bytes] the race detector reported %d data race(s) while %d goroutines called ReadAt on one reader and its clones; library frames in the report: %v; report: %s",
			cs.Backend, o.ctor, L, races, cs.Goroutines, strings.Contains(report, "tdewolff/parse/v2."), report)
		return
	}
	t.Count("parallel.readat", ops)
	t.Count("parallel.cases", 1)
	t.Count("parallel.backend."+cs.Backend, 1)
	t.Nontrivial([]byte(fmt.Sprint(cs.Backend, o.ctor, cs.Seeds)))
	cs.Data = data[:min(len(data), 32)]
	t.Sample(cs)
}

// ---------------------------------------------------------------------------------------------------
// probes: fixed regression cases for the defects found on the pinned tree

func c19MkItem(kind int, le bool, alt int, u uint64, i int64, b []byte) c19Item {
	it := c19Item{Kind: c19KindName[kind], kind: kind, LE: le, Alt: alt, U: u, I: i, B: b, w: int64(c19KindBits[kind] / 8)}
	if kind == kBytes {
		it.w = int64(len(b))
	}
	return it
}

var c19ProbeNames = []string{"seek-end", "mmap-exact-fit", "bitmap-last-bit", "read-at-eof-reader-backends", "mmap-zero-length-read-at-end",
	"eof-delivered-with-last-bytes", "int24-negative"}

func c19Probes(t *fw.T) {
	name := c19ProbeNames[t.Index%len(c19ProbeNames)]
	t.Key("probe:" + name)
	u32 := c19MkItem(kU32, false, 0, 0x01020304, 0, nil)
	var cs, more *c19Case
	var plans []c19Plan
	mk := func(backend string, variants []int, eofWithLast bool) {
		for _, v := range variants {
			plans = append(plans, c19Plan{backend: backend, variant: v, chunks: []int{3}, eofWithLast: eofWithLast, seed: 1, scriptOnly: true})
		}
	}
	switch name {
	case "seek-end": // Seek(off, io.SeekEnd) went to Len-off
		data := []byte{1, 2, 3, 4}
		cs = &c19Case{Encoded: data, Cut: 4, Backend: "bytes", Ctor: "NewBinaryReaderBytes(data)"}
		t.Desc(cs)
		var r *parse.BinaryReader
		if p := fw.Guard(func() { r = parse.NewBinaryReaderBytes(data) }); p != "" {
			t.Failf("%s", p)
			return
		}
		m := &c19Mon{t: t, cs: cs, r: r, data: data, total: 4, seekable: true, cnt: map[string]int{}}
		for _, off := range []int64{-1, 0, -4, -2, -5, 1} {
			if !m.seek(off, io.SeekEnd) {
				return
			}
			if m.pos < 4 {
				it := c19MkItem(kU8, false, 0, uint64(data[m.pos]), 0, nil)
				if !m.readItem(&it, true) {
					return
				}
			}
		}
	case "bitmap-last-bit": // BitmapReader stopped one bit early
		for _, buf := range [][]byte{{0xff}, {0xa5, 0x01}, {0x00}, {}} {
			t.Desc(&c19BitCase{Mode: "buffer", Buf: buf})
			want := make([]bool, 8*len(buf))
			for i := range want {
				want[i] = buf[i>>3]&(0x80>>(i&7)) != 0
			}
			// round trip first: the layout is the writer's
			var wb []byte
			if p := fw.Guard(func() {
				w := parse.NewBitmapWriter(nil)
				for _, b := range want {
					w.Write(b)
				}
				wb = w.Bytes()
			}); p != "" {
				t.Failf("BitmapWriter: %s", p)
				return
			}
			if !c19ReadBits(t, wb, want, false) {
				return
			}
			if len(wb) < len(buf) || !bytes.Equal(wb[:len(buf)], buf) {
				want = nil // another layout: only the number of bits is demanded
			}
			if !c19ReadBitsN(t, buf, 8*len(buf), want, true) {
				return
			}
		}
	case "mmap-exact-fit": // the mmap backend reported io.EOF after a read that ends exactly at the end
		cs = &c19Case{Items: []c19Item{u32}, Extra: []c19Item{c19MkItem(kU8, false, 0, 0, 0, nil)}}
		mk("mmap", []int{0, 1}, false)
	case "read-at-eof-reader-backends": // ReadUint8/ReadByte/ReadInt8 at the end panicked on the reader-based backends
		cs = &c19Case{Items: []c19Item{u32}, Extra: []c19Item{c19MkItem(kU8, false, 0, 0, 0, nil), c19MkItem(kU8, false, 1, 0, 0, nil), c19MkItem(kI8, false, 0, 0, 0, nil)}}
		mk("seeker", []int{0, 1, 2, 3}, false)
		mk("readerat", []int{0}, false)
		mk("plain-seq", []int{0, 2}, false)
		mk("file", []int{0, 1, 2, 3}, false)
	case "mmap-zero-length-read-at-end": // ReadBytes(0)/ReadString(0) at the end set Err()=io.EOF on the mmap backend only
		// first on an empty file (does not depend on the exact-fit repair), then after an exact-fit read
		more = &c19Case{Items: []c19Item{c19MkItem(kBytes, false, 0, 0, 0, []byte{}), c19MkItem(kBytes, false, 1, 0, 0, []byte{})}}
		cs = &c19Case{Items: []c19Item{u32, c19MkItem(kBytes, false, 0, 0, 0, []byte{}), c19MkItem(kBytes, false, 1, 0, 0, []byte{})}}
		mk("mmap", []int{0, 1}, false)
		mk("bytes", []int{0}, false)
	case "eof-delivered-with-last-bytes": // a source returning (n, io.EOF) made an exact-fit read set Err()=io.EOF
		cs = &c19Case{Items: []c19Item{c19MkItem(kU16, true, 0, 0x0201, 0, nil), c19MkItem(kU16, false, 0, 0x0304, 0, nil)}, Extra: []c19Item{c19MkItem(kU16, false, 0, 0, 0, nil)}}
		mk("plain-seq", []int{0, 1}, true)
		mk("seeker", []int{0}, true)
		mk("readerat", []int{0}, true)
	case "int24-negative": // ReadInt24 did not sign-extend
		cs = &c19Case{Items: []c19Item{c19MkItem(kI24, false, 0, 0, -1, nil), c19MkItem(kI24, true, 0, 0, -8388608, nil),
			c19MkItem(kI24, false, 0, 0, 8388607, nil), c19MkItem(kI24, true, 0, 0, -2, nil)}}
		mk("bytes", []int{0}, false)
		mk("seeker", []int{2}, false)
	}
	var fs c19Files
	defer fs.remove()
	for _, c := range []*c19Case{more, cs} {
		if c == nil || plans == nil {
			continue
		}
		c.Cut = -1
		t.Desc(c)
		enc, ok := c19Write(t, c)
		if !ok {
			return
		}
		c.Encoded, c.Cut = enc, len(enc)
		if !c19RunBackends(t, &fs, c, enc, plans) {
			return
		}
	}
	if t.Failed() {
		return
	}
	t.Count("probes", 1)
	t.Nontrivial([]byte(name))
}

func init() {
	req := []string{"probes", "writer.items", "reader.values.exact", "reader.state.checks", "reader.eof.crossing", "reader.eof.after",
		"reader.zero_len_at_end", "seek.inrange", "seek.outofrange", "seek.then_read", "reads.after_seek", "read.calls", "read.at_end",
		"readat.calls", "readat.short", "clone.checks", "trunc.cuts", "bitmap.roundtrip.bits", "bitmap.buffer.bits", "bitmap.all_bits_then_eof",
		"parallel.readat", "parallel.backend.seeker"}
	for _, b := range c19Backends {
		req = append(req, "backend."+b)
	}
	fw.Register(&fw.Prop{
		ID: "C19",
		Rule: "script/trunc: case = write script (0-200 resp. 1-5 typed items: 8/16/24/32/64-bit signed+unsigned within range, byte strings; big/little endian, a few scripts switch order between items) " +
			"run through BinaryWriter (bytes compared with encoding/binary), the encoding cut once at a random byte (script) or at EVERY byte (trunc) and read back on all eight backends " +
			"(bytes, reader with Bytes(), ReadSeeker, ReaderAt, plain reader n<0, plain reader n>=0, *os.File, mmap; several constructors each; sources deliver chunks >= 1 byte, a third of them io.EOF together with the last bytes) " +
			"with excursions (Seek+Read, Seek+typed read, ReadAt, Clone) that return to the script position, 1-3 reads beyond the script, then short ReadAt/Read and out-of-range Seeks; every call is stepped on a model {data,pos,eof} and Pos/Len/Err compared. " +
			"seek: data length = index mod 65, every start x whence x target in [-3,L+3] against bytes.Reader. bitmap: random bit strings round trip + arbitrary buffers must yield 8*len bits. " +
			"parallel (-race build): 2-8 goroutines x 20-220 ReadAt on one reader and clones, bytes compared, race reports counted. " +
			"non-trivial: script >= 3 items of >= 2 kinds; trunc >= 2 items and >= 3 bytes; seek L >= 1; bitmap >= 9 bits; distinct by encoding, cut and order",
		Assume: []string{
			"sources never return (0, nil) for a non-empty buffer (the library documents nothing for it and reports it as an error)",
			"the n passed to NewBinaryReaderReader is the true length of the source (or negative where the constructor tolerates that)",
			"the typed read that runs past the end returns 0 / a prefix of what is left; only pos <= Pos() <= total is demanded of the position it leaves",
			"Err() is only constrained by the typed reads: after a short io.Reader/io.ReaderAt call it may be nil or io.EOF (such calls are made after the typed script only)",
			"a short ReadAt must return a prefix and a non-nil error; Read may return fewer bytes than asked; a Seek beyond the end may fail or succeed, a negative target must fail, a failed Seek leaves Pos() alone",
			"plain io.Reader with n >= 0: sequential calls only (no ReadAt, no Clone, only Seeks that do not move or are not followed by reads)",
			"BinaryWriter/BitmapWriter are started on an empty buffer (nil or zero length with spare capacity); 24-bit values are within 24 bits",
			"bit values from an arbitrary buffer are compared with the MSB-first layout only if BitmapWriter was observed to produce that layout in the same case",
			"parallel clause: only ReadAt is called concurrently (on the shared reader and on clones)",
		},
		Required: req,
		Streams: []fw.Stream{
			{Name: "probes", Quick: len(c19ProbeNames), Thorough: len(c19ProbeNames), Run: c19Probes},
			{Name: "script", Quick: 30000, Thorough: 4000000, Run: c19Script},
			{Name: "trunc", Quick: 3000, Thorough: 400000, Run: c19Trunc},
			{Name: "seek", Quick: 1300, Thorough: 104000, Run: c19Seek},
			{Name: "bitmap", Quick: 40000, Thorough: 4000000, Run: c19Bitmap},
			{Name: "parallel", Quick: 600, Thorough: 48000, Run: c19Parallel, Race: true},
		},
	})
}
