package props

import (
	"math/rand"

	"vh/gen"
)

// Hand-written seed corpora and dictionaries (not the unit-test tables). They feed the mutational
// byte-string generators; the grammar generators live next to the properties that use them.

var cssCorpus = gen.Words(
	`a{color:red}`,
	`@charset "utf-8";`,
	`@import url(foo.css) screen and (min-width: 10px);`,
	`@media print and (max-width:100px){a,b>c{margin:0 auto!important}}`,
	`@font-face{font-family:"x";src:url( 'a b.woff' )}`,
	`@supports (display:grid) and (not (display:inline-grid)){div{float:none}}`,
	`@keyframes k{from{top:0}50%{top:5px}to{top:10px}}`,
	`@page :first{margin:1in}`,
	`@layer base,special;@layer base{html{color:#fff}}`,
	`.a .b~.c+.d>.e{width:calc(100% - (2*var(--x,3px)))}`,
	`:root{--main-color: #06c;--accent:{a:b};--empty:;}`,
	`a[href^="http"],a[title~=x],a[lang|=en],a[x$=y],a[x*=z]{color:rgb(1,2,3)}`,
	`<!-- a{b:c} -->`,
	`/* comment */a{/*c*/b:/*d*/c/*e*/;}/* end`,
	`a{background:url(data:image/png;base64,iVBOR/+=)}`,
	`a{*zoom:1;_height:1px;filter:progid:DXImageTransform.Microsoft.gradient(startColorstr='#80000000',endColorstr='#80000000')}`,
	`a{font:12px/1.5 "Helvetica Neue",Arial,sans-serif;unicode-range:U+0025-00FF,u+4??}`,
	`a{width:1e3px;height:-.5em;top:+1.5E-2%;left:1.e2}`,
	`\61 \00062c{c\6flor:r\65 d}`,
	`a{color:red;;;b:c}}}b{}`,
	`.parent{color:blue;&:hover{color:red} .child{top:0}}`,
	`a||b{x:y}`,
	`a{b:"str\
ing";c:'bad
string';d:url(bad url);e:url("x"y)}`,
	`@unknown foo { bar: (baz [qux] {quux}) ; } a{}`,
	`color:red;background:blue;*hack:1;--x: y z `,
	`a{b:c`,
	`@media{`,
	`a{b:(}`,
)

var cssDict = gen.Words(
	"{", "}", "(", ")", "[", "]", ":", ";", ",", ".", "#", "@", "!", "*", "/", "\\", "'", "\"", "-", "--", "-->", "<!--",
	"/*", "*/", "~=", "|=", "^=", "$=", "*=", "||", "url(", "URL(", "u\\rl(", "U+", "u+0-f", "?", "%", "e", "E", "+", "1", "0", ".5",
	"\n", "\r\n", "\f", " ", "\t", "a", "--x", "-a", "\\\n", "\\", "\x00", "\xff", "\xc3\xa9", "@media", "@font-face", "@import", "!important",
	"var(", "calc(", "rgb(", "&", ">", "~", "=", "|", "^", "$", "<", "\\41 ", "\\000041", "\\g", "1e", "1e+", "1.", "-.", "+.",
)

var htmlCorpus = gen.Words(
	`<!doctype html><html><head><title>a &amp; b</title></head><body class=x id='y' data-z="1">text</body></html>`,
	`<p>a<br/>b<hr>c<img src=a.png alt="">d</p>`,
	`<script>if(a<b){document.write("</scr"+"ipt>")}</script>`,
	`<script><!-- <script> x </script> --> y</script>z`,
	`<style>a{b:"</style>"}</STYLE>`,
	`<textarea><b>not a tag</b></textarea><title><i></title>`,
	`<xmp><a></xmp><iframe><b></iframe><plaintext><a></plaintext>never ends`,
	`<svg width="1"><path d="M0 0"/><text>a</text></svg>after`,
	`<math><mi>x</mi><mo>=</mo></math>`,
	`<!-- comment --><!--> <!---> <!--a--!>b`,
	`<![CDATA[ x < y ]]>z`,
	`<?php echo 1 ?><? bogus >`,
	`</ bogus><//><a/></a ><A HREF=X>`,
	`<a b c=d e = f g='h"i' j="k'l" m=n/o p=q/>`,
	`<input value={{ .X }} {{if .Y}}checked{{end}} class="a {{ .B }} c">`,
	`<div <%= attrs %> id=<%= id %>><% if (x) { %>a<% } %></div>`,
	`<a href="<?php echo $x ?>"><?= "a>b" ?></a>`,
	`{{ "}}" }}{{ '\'}}' }}<p>{{</p>`,
	`<a`, `<a b`, `<a b=`, `<a b="`, `<a b='c`, `</a`, `<!--`, `<!doctype`, `<script>a`, `<svg><a b="`, `<`,
	`a<b>c<1>d< e>f`,
	`<DIV CLASS=A><Span ID=b></SPAN></div>`,
)

var htmlDict = gen.Words(
	"<", ">", "</", "/>", "<!--", "-->", "--!>", "<!", "<?", "?>", "<%", "%>", "{{", "}}", "=", "\"", "'", "/", " ", "\n", "\t", "\f", "\r",
	"</feComponentTransfer>", "</aVeryLongClosingTagNameOfThirtyNineChars", "<svg><filter><feDiffuseLighting></feDiffuseLighting></filter></svg>",
	"<script", "</script", "<script>", "</script>", "<style>", "</style>", "<svg", "</svg>", "<math>", "</math>", "<xml>", "</xml>",
	"<title>", "</title>", "<textarea>", "</textarea>", "<plaintext>", "<xmp>", "</xmp>", "<iframe>", "</iframe>",
	"<![CDATA[", "]]>", "<!doctype", "<!DOCTYPE ", "a", "B", "\x00", "\xff", "\xc3\xa9", "\\", "<a ", "<a b=", "x=y",
)

var xmlCorpus = gen.Words(
	`<?xml version="1.0" encoding="UTF-8"?><root a="1" b='2'><child/>text<!-- c --><![CDATA[<x>]]></root>`,
	`<!DOCTYPE note [<!ENTITY a "b>c"><!ELEMENT x (#PCDATA)>]><note>&a;</note>`,
	`<!DOCTYPE html PUBLIC "-//W3C//DTD XHTML 1.0//EN" "http://x">`,
	`<a:b xmlns:a="urn:x" c = "d
e	f"/>`,
	`<?pi target data?><x ?><y/ ></y >`,
	`<x a=b c>d</x>`,
	`<x`, `<x a`, `<x a="`, `</x`, `<!--`, `<![CDATA[`, `<!DOCTYPE x [`, `<?x`,
	`text only`,
	`<a><b><c></c></b></a>`,
	`<x a="1"b="2"/>`,
)

var xmlDict = gen.Words(
	"<", ">", "</", "/>", "?>", "<?", "<!--", "-->", "<![CDATA[", "]]>", "]]", "<!DOCTYPE", "[", "]", "=", "\"", "'", " ", "\n", "\t", "\r",
	"a", "x:y", "\x00", "\xff", "\xc3\xa9", "&amp;", "&#x41;", "<a ", "b='c'", "?", "/", "!",
)

var jsonCorpus = gen.Words(
	`{"a":1,"b":[true,false,null],"c":{"d":"e\"f\\"},"g":-1.5e+10}`,
	`[]`, `{}`, `[[],{}]`, `"str"`, `0`, `-0.0e0`, `null`,
	` { "a" : [ 1 , 2 ] , "b" : { } } `,
	`["\u00e9\ud83d\ude00\\\/\b\f\n\r\t"]`,
	`{"a":{"b":{"c":[[[1]]]}}}`,
	`[1 2]`, `{"a" 1}`, `{1:2}`, `[1,]`, `{,}`, `]`, `}`, `[}`, `{]`, `{"a":}`, `tru`, `1.`, `1e`, `-`, `"abc`, `"a\`,
)

var jsonDict = gen.Words(
	"{", "}", "[", "]", ",", ":", "\"", "\\", "\\\"", "\\\\", "\\u00", "true", "false", "null", "0", "1", "-", ".", "e", "E", "+", " ", "\n", "\t", "\r", "\x00", "\xff", "a", "\"a\"", "\"a\":",
)

var jsCorpus = gen.Words(
	"({...a = 1}) => 0; ([{...b = 1}]) => 0; ({...[c].d}) => 0; ({...{e}.f}, g) => 1",
	"async ({...a = 1}, [b, ...[c = 2]]) => { var {x, ...y} = z; ({p, ...q.r} = s) }",
	"x = 1\n--> html-like close comment\ny = 2",
	"/* multi\nline */ --> also a comment\nz",
	"<!-- html-like open comment\na = b --> c",
	`var a = 1, b = [2, 3], c = {d: 4, "e": 5, [f]: 6, g() {}, get h() { return 1 }, set h(v) {}, ...i};`,
	`function f(a, b = 1, ...c) { "use strict"; return a + b * c ** 2 }`,
	`async function* g() { yield* h(); await x; for await (const y of z) {} }`,
	`class A extends B { static #p = 1; #q; constructor() { super(); } static { init() } get [k]() {} static async *m() {} }`,
	`x = class A { m() { return A } };`,
	`const {a, b: {c = 1}, ...d} = e, [f, , g = 2, ...h] = i;`,
	`let f = (a, b) => a + b, g = async x => await x, h = async (x, y) => { return x };`,
	`if (a) b; else if (c) d; else { e }`,
	`for (var i = 0; i < n; i++) continue; for (const k in o) break; for (let v of w) ; do x++; while (x < 5)`,
	`while (a) { b() }
label: for (;;) { break label }`,
	`switch (a) { case 1: b; break; default: c }`,
	`try { a } catch (e) { b } finally { c }
try { a } catch { b }`,
	"x = `a${b}c${`d${e}f`}g`; y = tag`h${i}`",
	`r = /ab+c[/\]]\/(?<n>x)/gi.test(s); q = a / b / c; z = a /= 2`,
	`a?.b?.[c]?.(d); e ?? f; g ||= h; i &&= j; k ??= l; m **= n`,
	`import a, {b as c, default as d} from "m"; import * as e from 'n'; import "o"; export default function () {}; export {a as b}; export * from "p"; export const q = 1`,
	`new A; new B(c); new.target; import.meta; import("x"); new (a.b)(); new a.b.c`,
	`a = b ? c : d ? e : f; g = (h, i); j = typeof k; delete l.m; void 0; !n; ~o; -p; +q; ++r; s--`,
	`with (a) b; debugger; throw c; ; {} `,
	`// line comment
/* block */ /*! bang */ a /* multi
line */ b
<!-- html comment
--> closing`,
	`0x1F + 0b11 + 0o17 + 1_000n + .5e-3 + 1. + 1e10 + 0n`,
	`'a\'b\
c' + "d\"e\\"`,
	`a
++b
c
(d)
return
e`,
	`x = {async, get, set, static, await: 1, yield: 2, let: 3, of: 4}; async = 1; let
y`,
	`({a, b} = c); [d, e] = f; ({g: h.i, j: [k]} = l)`,
	`(function () {})(); (() => {})(); !function () {}()`,
	`#!/usr/bin/env node
a`,
	`if (a) function f() {}`,
	`a = b
/c/d`,
	`var \u0061bc = 1, d\u{65}f, $g_h, ünï, 𝒳`,
	`let [[[a]]] = b, {c: {d: {e}}} = f; function g([h, [i]], {j: {k}}) {} try {} catch ([l, {m}]) {}`,
	`!a`, `({})`, `[1, "a", null, true, {"b": -1}]`, `"json"`,
)

var jsDict = gen.Words(
	"{", "}", "(", ")", "[", "]", ";", ",", "<", ">", "<=", ">=", "==", "!=", "===", "!==", "+", "-", "*", "%", "**", "++", "--", "<<", ">>", ">>>",
	"&", "|", "^", "!", "~", "&&", "||", "??", "?", ":", "=", "+=", "-=", "*=", "%=", "**=", "<<=", ">>=", ">>>=", "&=", "|=", "^=", "&&=", "||=", "??=",
	"=>", ".", "...", "?.", "/", "/=", "#", "#a", "~=", "?=", "@", "`", "${", "\\", "'", "\"", "//", "/*", "*/", "<!--", "-->", "\n", "\r\n", "\u2028", " ", "\t",
	"\x00", "\xff", "\xc3\xa9", "\u00a0", "\ufeff", "0", "1", ".5", "0x", "0b1", "1e", "1n", "1_", "08", "a", "var ", "let ", "const ", "function ", "class ", "async ",
	"await ", "yield ", "return ", "if(", "else ", "for(", "while(", "do ", "new ", "typeof ", "in ", "of ", "instanceof ", "static ", "get ", "set ", "import ", "export ",
	"default ", "from ", "as ", "super", "this", "null", "true", "extends ", "case ", "try{", "catch(", "finally{", "switch(", "break ", "continue ", "throw ", "with(", "debugger",
	"\\u0061", "\\u{61}", "\\u{", "a:", "=>{", "){", "})", "({", "[[", "]]", "`${", "}`",
)

type langInfo struct {
	corpus, dict [][]byte
}

var langs = map[string]langInfo{
	"css":  {cssCorpus, cssDict},
	"html": {htmlCorpus, htmlDict},
	"xml":  {xmlCorpus, xmlDict},
	"json": {jsonCorpus, jsonDict},
	"js":   {jsCorpus, jsDict},
}

// generatedDoc writes one well-formed document of the language with the structural generators (the same that give
// C03–C11 their ground truth); used as raw material for hostile inputs that reach deep parser states.
func generatedDoc(r *rand.Rand, lang string) []byte {
	switch lang {
	case "js":
		prog := gen.JSProgram(r, gen.JSOpts{CtxNames: r.Intn(2) == 0, Budget: 5 + r.Intn(60)})
		s, _ := gen.JSSpell(prog, gen.JSStyle{Parens: r.Intn(3), Semi: r.Intn(3), WS: r.Intn(3), Seed: r.Int63(), Bang: []int{0, 0, 15}[r.Intn(3)]})
		return []byte(s)
	case "css":
		if r.Intn(2) == 0 {
			s, _ := gen.CSSSequence(r, 1+gen.SmallLen(r, 40))
			return []byte(s)
		}
		s, _ := gen.CSSSheet(r, r.Intn(2) == 0)
		return []byte(s)
	case "html":
		o := gen.HTMLOpts{}
		if v := r.Intn(4); v > 0 {
			o.Tmpl = [][2]string{htmlDialects["go"], htmlDialects["ejs"], htmlDialects["php"]}[v-1]
		}
		s, _ := gen.HTMLDoc(r, o)
		return []byte(s)
	case "xml":
		s, _ := gen.XMLDoc(r)
		return []byte(s)
	case "json":
		doc, _ := gen.JSONSpell(gen.JSONDoc(r, 4), "")
		return doc
	}
	return nil
}

// hostileInput: a hostile byte string for the language — two times in three built from the hand-written corpus and
// dictionary, otherwise from a generated well-formed document that is kept, mutated, truncated or spliced.
func hostileInput(r *rand.Rand, lang string, maxLen int) []byte {
	li := langs[lang]
	if r.Intn(3) > 0 {
		return gen.Hostile(r, li.corpus, li.dict, maxLen)
	}
	b := generatedDoc(r, lang)
	switch r.Intn(6) {
	case 0:
		// as generated
	case 1:
		b = b[:r.Intn(len(b)+1)]
	case 2:
		c := generatedDoc(r, lang)
		b = append(append([]byte(nil), b[:r.Intn(len(b)+1)]...), c[r.Intn(len(c)+1):]...)
	default:
		b = gen.Mutate(r, b, li.dict, 1+r.Intn(3))
	}
	if len(b) > maxLen {
		b = b[:maxLen]
	}
	return b
}
