package props

import (
	"fmt"
	"io"

	"github.com/tdewolff/parse/v2/html"

	"vh/fw"
	"vh/gen"
)

// C09 — HTML lexer recognises tags, attributes, raw text and foreign content.

type c09Case struct {
	Kind    string `json:"kind"`
	Dialect string `json:"dialect"`
	Doc     fw.B   `json:"doc"`
}

var c09Dialects = []string{"", "go", "handlebars", "mustache", "ejs", "asp", "php"}

func c09Lexer(doc []byte, ctor, dialect string, t *fw.T) *html.Lexer {
	in, _ := mkInput(t.Rng, doc, ctor)
	if dialect == "" {
		return html.NewLexer(in)
	}
	return html.NewTemplateLexer(in, htmlDialects[dialect])
}

// c09Compare lexes doc and compares the tokens with the abstract document.
func c09Compare(t *fw.T, doc string, want []gen.XTok, ctor, dialect string) bool {
	l := c09Lexer([]byte(doc), ctor, dialect, t)
	for i := 0; ; i++ {
		tt, data := l.Next()
		if tt == html.ErrorToken {
			if l.Err() != io.EOF {
				t.Failf("document rejected after %d tokens: %v", i, oneLineErrAny(l.Err()))
				return false
			}
			if i != len(want) {
				t.Failf("lexer returned %d tokens, the document has %d constructs; next expected %s %q", i, len(want), want[i].Type, want[i].Norm)
				return false
			}
			return true
		}
		if i >= len(want) {
			t.Failf("extra token %v %s after the %d expected ones", tt, fw.Q(data), len(want))
			return false
		}
		w := want[i]
		typ := w.Type
		if typ == "CDATA" {
			typ = "Text"
		}
		if tt.String() != typ || string(data) != w.Norm {
			prev := ""
			if i > 0 {
				prev = fmt.Sprintf(" (after %s %q)", want[i-1].Type, want[i-1].Norm)
			}
			t.Failf("token %d: got %v %s, want %s %q%s", i, tt, fw.Q(data), typ, w.Norm, prev)
			return false
		}
		switch tt {
		case html.StartTagToken, html.EndTagToken, html.CommentToken, html.DoctypeToken, html.TextToken, html.SVGToken, html.MathToken:
			if string(l.Text()) != w.Text {
				t.Failf("token %d %v %s: Text()=%s want %q", i, tt, fw.Q(data), fw.Q(l.Text()), w.Text)
				return false
			}
		case html.AttributeToken:
			if string(l.AttrKey()) != w.Text {
				t.Failf("token %d %s: AttrKey()=%s want %q", i, fw.Q(data), fw.Q(l.AttrKey()), w.Text)
				return false
			}
			if w.HasVal && string(l.AttrVal()) != w.AttrVal || !w.HasVal && len(l.AttrVal()) != 0 {
				t.Failf("token %d %s: AttrVal()=%s want %q", i, fw.Q(data), fw.Q(l.AttrVal()), w.AttrVal)
				return false
			}
		}
		if l.HasTemplate() != w.Tmpl {
			t.Failf("token %d %v %s: HasTemplate()=%v want %v", i, tt, fw.Q(data), l.HasTemplate(), w.Tmpl)
			return false
		}
		if w.Tmpl {
			t.Count("tokens.with_template", 1)
		}
		t.Seen("token kinds", w.Type)
		t.Count("tokens", 1)
	}
}

func c09Generated(t *fw.T) {
	r := t.Rng
	dialect := ""
	if r.Intn(2) == 0 {
		dialect = c09Dialects[1+r.Intn(6)]
	}
	o := gen.HTMLOpts{}
	if dialect != "" {
		o.Tmpl = htmlDialects[dialect]
	}
	doc, want := gen.HTMLDoc(r, o)
	ctor := gen.Pick(r, inputCtors)
	t.Desc(&c09Case{Kind: "generated", Dialect: dialect, Doc: []byte(doc)})
	if !c09Compare(t, doc, want, ctor, dialect) {
		return
	}
	t.Seen("dialect", dialect)
	t.Count("docs", 1)
	if len(want) >= 3 {
		t.Nontrivial(append([]byte(dialect+"|"), doc...))
	}
	t.Sample(map[string]any{"dialect": dialect, "doc": []byte(doc), "tokens": len(want)})
}

// c09Fuzz: attribute tokens only between a start tag and its closer, on hostile bytes (up to the first error).
func c09Fuzz(t *fw.T) {
	r := t.Rng
	li := langs["html"]
	dialect := c09Dialects[r.Intn(len(c09Dialects))]
	var data []byte
	if r.Intn(3) == 0 {
		o := gen.HTMLOpts{}
		if dialect != "" {
			o.Tmpl = htmlDialects[dialect]
		}
		d, _ := gen.HTMLDoc(r, o)
		data = gen.Mutate(r, []byte(d), li.dict, 1+r.Intn(3))
	} else {
		data = gen.Hostile(r, li.corpus, li.dict, 300)
	}
	t.Desc(&c09Case{Kind: "fuzz", Dialect: dialect, Doc: data})
	l := c09Lexer(data, gen.Pick(r, inputCtors), dialect, t)
	inTag := false
	for i := 0; i < 4*len(data)+64; i++ {
		tt, tok := l.Next()
		if tt == html.ErrorToken {
			break
		}
		switch tt {
		case html.AttributeToken:
			if !inTag {
				t.Failf("Attribute token %s outside a start tag (token %d)", fw.Q(tok), i)
				return
			}
			t.Count("fuzz.attributes", 1)
		case html.StartTagToken:
			inTag = true
		case html.StartTagCloseToken, html.StartTagVoidToken:
			if !inTag {
				t.Failf("%v outside a start tag (token %d)", tt, i)
				return
			}
			inTag = false
		default:
			if inTag {
				t.Failf("%v %s while a start tag is still open (token %d)", tt, fw.Q(tok), i)
				return
			}
		}
		t.Count("fuzz.tokens", 1)
	}
	if len(data) >= 3 {
		t.Nontrivial(append([]byte(dialect+"|"), data...))
	}
}

// fixed probes: repaired defects and recorded known findings
var c09Probes = []struct {
	name, dialect, doc string
	want               []gen.XTok
}{
	{"script-endtag-lookalike-digit", "", "<script>a</script1>b</script>", []gen.XTok{
		{Type: "StartTag", Norm: "<script", Text: "script"}, {Type: "StartTagClose", Norm: ">"},
		{Type: "Text", Norm: "a</script1>b", Text: "a</script1>b"}, {Type: "EndTag", Norm: "</script>", Text: "script"}}},
	{"title-endtag-lookalike-dash", "", "<title>a</title-x>b</title>", []gen.XTok{
		{Type: "StartTag", Norm: "<title", Text: "title"}, {Type: "StartTagClose", Norm: ">"},
		{Type: "Text", Norm: "a</title-x>b", Text: "a</title-x>b"}, {Type: "EndTag", Norm: "</title>", Text: "title"}}},
	{"svg-endtag-lookalike-digit", "", "<svg><a/></svg2></svg>x", []gen.XTok{
		{Type: "SVG", Norm: "<svg><a/></svg2></svg>", Text: "svg"}, {Type: "Text", Norm: "x", Text: "x"}}},
	{"rawtext-template-lt-dialect", "ejs", "<script>a<% \"</script>\" %>b</script>", []gen.XTok{
		{Type: "StartTag", Norm: "<script", Text: "script"}, {Type: "StartTagClose", Norm: ">"},
		{Type: "Text", Norm: "a<% \"</script>\" %>b", Text: "a<% \"</script>\" %>b", Tmpl: true}, {Type: "EndTag", Norm: "</script>", Text: "script"}}},
	{"svg-single-quoted-endtag", "", "<svg a='</svg>'>b</svg>x", []gen.XTok{
		{Type: "SVG", Norm: "<svg a='</svg>'>b</svg>", Text: "svg"}, {Type: "Text", Norm: "x", Text: "x"}}},
	{"svg-nested-same-name", "", "<svg><svg></svg></svg>x", []gen.XTok{
		{Type: "SVG", Norm: "<svg><svg></svg></svg>", Text: "svg"}, {Type: "Text", Norm: "x", Text: "x"}}},
	{"svg-text-lone-doublequote", "", "<svg><text>say \"hi</text></svg>x", []gen.XTok{
		{Type: "SVG", Norm: "<svg><text>say \"hi</text></svg>", Text: "svg"}, {Type: "Text", Norm: "x", Text: "x"}}},
	{"svg-self-closed", "", "<svg/><p>y</p>", []gen.XTok{
		{Type: "SVG", Norm: "<svg/>", Text: "svg"}, {Type: "StartTag", Norm: "<p", Text: "p"}, {Type: "StartTagClose", Norm: ">"},
		{Type: "Text", Norm: "y", Text: "y"}, {Type: "EndTag", Norm: "</p>", Text: "p"}}},
	{"template-in-comment", "go", "<!-- {{.X}} -->a", []gen.XTok{
		{Type: "Comment", Norm: "<!-- {{.X}} -->", Text: " {{.X}} ", Tmpl: true}, {Type: "Text", Norm: "a", Text: "a"}}},
	{"template-inside-unquoted-value", "go", "<p class=a{{ .B }}>", []gen.XTok{
		{Type: "StartTag", Norm: "<p", Text: "p"}, {Type: "Attribute", Norm: " class=a{{ .B }}", Text: "class", AttrVal: "a{{ .B }}", HasVal: true, Tmpl: true}, {Type: "StartTagClose", Norm: ">"}}},
	{"template-in-script-escaped-comment", "go", "<script><!-- {{ \"</script>\" }} --></script>x", []gen.XTok{
		{Type: "StartTag", Norm: "<script", Text: "script"}, {Type: "StartTagClose", Norm: ">"},
		{Type: "Text", Norm: "<!-- {{ \"</script>\" }} -->", Text: "<!-- {{ \"</script>\" }} -->", Tmpl: true}, {Type: "EndTag", Norm: "</script>", Text: "script"}, {Type: "Text", Norm: "x", Text: "x"}}},
}

func c09Probe(t *fw.T) {
	p := c09Probes[t.Index%len(c09Probes)]
	t.Key("probe:" + p.name)
	t.Desc(&c09Case{Kind: "probe", Dialect: p.dialect, Doc: []byte(p.doc)})
	c09Compare(t, p.doc, p.want, "string", p.dialect)
	t.Count("probes", 1)
	t.Nontrivial([]byte(p.name))
}

func init() {
	fw.Register(&fw.Prop{
		ID: "C09",
		Rule: "streams: documents of well-formed HTML constructs (text, comments, doctype, CDATA, start tags with the four attribute syntaxes, void and end tags, six raw-text elements with look-alike end tags and script double-escape comments, plaintext, svg/math subtrees) in random ASCII case and whitespace, " +
			"half of them with one of the six template dialects and regions at the documented positions, compared token by token (type, exact bytes, Text/AttrKey, AttrVal, HasTemplate) with the abstract document; hostile byte strings under the attribute-placement automaton. " +
			"non-trivial = >= 3 constructs / bytes; distinct by dialect+bytes",
		Assume: []string{"svg/math content in random documents has balanced double quotes in text, no end-tag look-alike inside single-quoted values and no nested element of the same name (recorded known findings; fixed probes exercise them)",
			"template regions are placed where the unit tests document support: text, whole attribute, attribute name, quoted value, unquoted value consisting of templates, directly after the tag name, raw-text content",
			"Text() of a doctype is everything after the 9-byte keyword (pinned by the unit tests)"},
		Required: []string{"tokens", "docs", "tokens.with_template", "fuzz.tokens", "fuzz.attributes", "probes"},
		Streams: []fw.Stream{
			{Name: "probes", Quick: len(c09Probes), Thorough: len(c09Probes), Run: c09Probe},
			{Name: "generated", Quick: 300000, Thorough: 64000000, Run: c09Generated},
			{Name: "fuzz", Quick: 300000, Thorough: 64000000, Run: c09Fuzz},
		},
	})
}
