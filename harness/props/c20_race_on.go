//go:build race

package props

import (
	"fmt"
	"os"
	"path/filepath"
	"runtime"
	"syscall"
)

// Race observation (same approach as c19_race_on.go): the number of reports so far comes from the race
// runtime; the report text is captured by pointing fd 2 at a scratch file for the duration of a case.

func c20RaceCount() int { return runtime.RaceErrors() }

func c20CaptureStderr() func() string {
	dir := os.Getenv("VH_SCRATCH")
	if dir == "" {
		dir = os.TempDir()
	}
	name := filepath.Join(dir, fmt.Sprintf("c20-stderr-%d", os.Getpid()))
	f, err := os.OpenFile(name, os.O_CREATE|os.O_TRUNC|os.O_RDWR, 0o600)
	if err != nil {
		return func() string { return "" }
	}
	saved, err := syscall.Dup(2)
	if err != nil {
		f.Close()
		os.Remove(name)
		return func() string { return "" }
	}
	syscall.Dup3(int(f.Fd()), 2, 0)
	return func() string {
		syscall.Dup3(saved, 2, 0)
		syscall.Close(saved)
		f.Close()
		b, _ := os.ReadFile(name)
		os.Remove(name)
		os.Stderr.Write(b)
		return string(b)
	}
}
