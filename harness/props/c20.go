package props

import (
	"encoding/hex"
	"fmt"
	"os"
	"path/filepath"
	"sort"
	"strings"
	"sync"
	"syscall"
	"time"

	"github.com/tdewolff/parse/v2"
	"github.com/tdewolff/parse/v2/buffer"
	"github.com/tdewolff/parse/v2/css"
	"github.com/tdewolff/parse/v2/html"
	"github.com/tdewolff/parse/v2/js"

	"vh/fw"
)

// C20 — distinct parser instances are independent and safe to use concurrently; no mutable package-level
// state; results never depend on what was parsed before in the same process.
//
// Four observations decide the property (DESIGN §4 C20, §3 M-seg):
//
//	race     (-race binary) N goroutines each run a private list of ops (c20_ops.go) on private deep copies.
//	         (1) the race detector must stay silent — its happens-before analysis flags any conflicting pair of
//	         accesses made by two goroutines of the case irrespective of timing; (2) every op's digest must be
//	         the same in a second round inside the same goroutine and (3) equal to the digest of the same op
//	         executed afterwards alone on the main goroutine.
//	order    (plain) a fixed pool of ops; each op's digest is computed once per process, first thing, in a
//	         process-specific order, and must be reproduced after arbitrary seeded histories of other ops, in
//	         reversed order, interleaved A/B — and must agree with the table of every other worker process.
//	segment  (plain) M-seg: the bytes of every library symbol in the writable data sections and of the memory
//	         one typed level behind every library variable (c20_seg_on.go), snapshotted after package
//	         initialisation, must be unchanged after a mixed workload over every entry point. The same
//	         comparison also closes every order and probe case.
//	exported (all builds) a deep digest of the exported package variables (tables, Keywords map, limits,
//	         template delimiters, error values, the verif hook) must never change.
//
// All monitor state is per goroutine (one result record each, written only by its owner) and merged after
// WaitGroup.Wait; ops are immutable once generated; the only memory shared between goroutines is the ops'
// master bytes and the entity maps, both read-only, as the property's "private data" premise allows.
// parse.VerifOnNewError is never set here (it is a package variable; it must stay nil).

type c20Case struct {
	Probe      string     `json:"probe,omitempty"`
	Rounds     int        `json:"rounds"`
	Goroutines [][]*c20Op `json:"goroutines"`
}

type c20GoRes struct {
	dig      [][32]byte
	t0, t1   []int64
	unstable int // 1 + index of the first op whose digest changed between rounds
	panics   int
	_        [64]byte // keep the records of two goroutines on different cache lines
}

var c20SeenCache = map[string]bool{} // main goroutine of a case only

// c20Off switches single monitors off (VH_C20_OFF=seg,exported,race,digest). Mutation self-test only: it shows
// which of the remaining monitors catches a mutant on its own. Never set by ./check.
func c20Off(what string) bool {
	return strings.Contains(","+os.Getenv("VH_C20_OFF")+",", ","+what+",")
}

func c20Seen(t *fw.T, set, key string) {
	if k := set + "\x00" + key; !c20SeenCache[k] {
		c20SeenCache[k] = true
		t.Seen(set, key)
	}
}

func c20BoolBytes(b []bool) []byte {
	out := make([]byte, len(b))
	for i, v := range b {
		if v {
			out[i] = 1
		}
	}
	return out
}

// c20Exported is the deep digest of the exported package variables (read at quiescent points only).
func c20Exported() [32]byte {
	d := newC20Dig()
	d.b(c20BoolBytes(parse.URLEncodingTable[:]))
	d.b(c20BoolBytes(parse.DataURIEncodingTable[:]))
	keys := make([]string, 0, len(js.Keywords))
	for k := range js.Keywords {
		keys = append(keys, k)
	}
	sort.Strings(keys)
	for _, k := range keys {
		d.s(k)
		d.n(int(js.Keywords[k]))
	}
	d.n(js.NestedStmtLimit)
	d.n(js.NestedExprLimit)
	d.n(buffer.MinBuf)
	for _, tm := range [][2]string{html.GoTemplate, html.HandlebarsTemplate, html.MustacheTemplate, html.EJSTemplate, html.ASPTemplate, html.PHPTemplate} {
		d.s(tm[0])
		d.s(tm[1])
	}
	d.s(parse.ErrBadDataURI.Error())
	d.s(js.ErrInvalidJSON.Error())
	d.t(parse.VerifOnNewError == nil)
	return d.sum()
}

var (
	c20BaseOnce     sync.Once
	c20ExportedBase [32]byte
)

// c20Begin runs at the start of every C20 case: the first call in a process takes the baselines (data segment,
// exported variables) before C20 made any library call.
func c20Begin(t *fw.T) {
	c20BaseOnce.Do(func() {
		if c20SegAvailable() {
			c20SegBaseline()
		}
		c20ExportedBase = c20Exported()
	})
	c20Setup()
}

// c20Quiescent checks the package-state clauses at the end of a case (no goroutine of the case alive).
func c20Quiescent(t *fw.T, what string) {
	if c20Exported() != c20ExportedBase && !c20Off("exported") {
		t.Failf("%s: the exported package variables (encoding tables, js.Keywords, limits, template delimiters, error values, verif hook) changed since the start of the process", what)
	}
	t.Count("exported.checks", 1)
	if !c20SegAvailable() {
		return
	}
	seg := c20SegBaseline()
	if seg.err != "" {
		t.Count("segment.unavailable", 1)
		return
	}
	if d := seg.diff(false); len(d) > 0 && !c20Off("seg") {
		t.Failf("%s: M-seg: %d library data symbol(s) differ from the snapshot taken after package initialisation: %s", what, len(d), strings.Join(d, "; "))
	}
	t.Count("segment.diffs", 1)
}

// --- stderr of the case (race reports) ----------------------------------------------------------------

// c20Stderr returns a function that yields what was written to fd 2 since the call. When fd 2 is a regular
// file (the worker log of the driver) the text is read back from it, so that the report of a fatal error
// that kills the process stays in the log; otherwise fd 2 is redirected for the duration (c20_race_on.go).
func c20Stderr() func() string {
	if !fw.RaceEnabled {
		return func() string { return "" }
	}
	var st syscall.Stat_t
	if syscall.Fstat(2, &st) == nil && st.Mode&syscall.S_IFMT == syscall.S_IFREG {
		if off, err := syscall.Seek(2, 0, 1); err == nil {
			return func() string {
				f, err := os.Open("/proc/self/fd/2")
				if err != nil {
					return ""
				}
				defer f.Close()
				end, _ := syscall.Seek(2, 0, 1)
				if end <= off {
					return ""
				}
				b := make([]byte, end-off)
				n, _ := f.ReadAt(b, off)
				return string(b[:n])
			}
		}
	}
	return c20CaptureStderr()
}

// --- the concurrent engine -----------------------------------------------------------------------------

func c20OpText(op *c20Op) string {
	return fmt.Sprintf("%s data=%s aux=%s i=%v seed=%d", op.Entry, fw.Q(op.Data), fw.Q(op.Aux), op.I, op.Seed)
}

// c20RunPlan executes plan[g] on goroutine g (all released together), `rounds` times each, then the same ops
// alone on the calling goroutine, and applies the three race-stream clauses.
func c20RunPlan(t *fw.T, what string, plan [][]*c20Op, rounds int) bool {
	N := len(plan)
	res := make([]c20GoRes, N)
	total := 0
	for g := range plan {
		n := len(plan[g])
		res[g].dig, res[g].t0, res[g].t1 = make([][32]byte, n), make([]int64, n), make([]int64, n)
		total += n
	}
	racesBefore := c20RaceCount()
	endCapture := c20Stderr()
	epoch := time.Now()
	start := make(chan struct{})
	var wg sync.WaitGroup
	for g := 0; g < N; g++ {
		wg.Add(1)
		go func(rs *c20GoRes, ops []*c20Op) {
			defer wg.Done()
			<-start
			for round := 0; round < rounds; round++ {
				for k, op := range ops {
					t0 := int64(time.Since(epoch))
					sum, pan := c20ExecOp(op)
					if round == 0 {
						rs.dig[k], rs.t0[k], rs.t1[k] = sum, t0, int64(time.Since(epoch))
						if pan {
							rs.panics++
						}
					} else if sum != rs.dig[k] && rs.unstable == 0 {
						rs.unstable = k + 1
					}
				}
			}
		}(&res[g], plan[g])
	}
	close(start)
	wg.Wait()
	report := endCapture()
	races := c20RaceCount() - racesBefore

	if (races > 0 || strings.Contains(report, "WARNING: DATA RACE")) && !c20Off("race") {
		if i := strings.Index(report, "WARNING: DATA RACE"); i > 0 {
			report = report[i:]
		}
		lib := strings.Contains(report, c20ModPath+".") || strings.Contains(report, c20ModPath+"/")
		if len(report) > 3000 {
			report = report[:3000]
		}
		t.Failf("%s: the race detector reported %d data race(s) while %d goroutines drove private instances on private data (library frames in the report: %v): %s", what, races, N, lib, report)
		return false
	}
	for g := range res {
		if u := res[g].unstable; u > 0 && !c20Off("digest") {
			t.Failf("%s: goroutine %d of %d: op %d gave a different result when repeated in the same goroutine while the others were running: %s", what, g, N, u-1, c20OpText(plan[g][u-1]))
			return false
		}
	}
	// the same bodies alone
	panics := 0
	for g := range plan {
		panics += res[g].panics
		for k, op := range plan[g] {
			sum, _ := c20ExecOp(op)
			if sum != res[g].dig[k] && !c20Off("digest") {
				t.Failf("%s: goroutine %d of %d, op %d: the result obtained concurrently differs from the result of the same call running alone: %s", what, g, N, k, c20OpText(op))
				return false
			}
		}
	}
	t.Count("race.ops.concurrent", total*rounds)
	t.Count("race.ops.sequential", total)
	t.Count("race.goroutines", N)
	t.Count("ops.panicked", panics)

	// coverage: entry x entry executed by two different goroutines of one case (concurrent in the
	// happens-before sense, which is what the detector decides on), and the subset whose executions
	// overlapped in wall-clock time as well
	ne := len(c20Entries)
	idx := map[*c20Entry]int{}
	for i, e := range c20Entries {
		idx[e] = i
	}
	gor := make([]map[int]bool, ne)
	type iv struct {
		e, g   int
		t0, t1 int64
	}
	var ivs []iv
	for g := range plan {
		for k, op := range plan[g] {
			e := idx[op.e]
			if gor[e] == nil {
				gor[e] = map[int]bool{}
			}
			gor[e][g] = true
			ivs = append(ivs, iv{e, g, res[g].t0[k], res[g].t1[k]})
		}
	}
	for a := 0; a < ne; a++ {
		for b := a; b < ne; b++ {
			if len(gor[a]) == 0 || len(gor[b]) == 0 {
				continue
			}
			two := len(gor[a]) > 1 || len(gor[b]) > 1
			if !two {
				for g := range gor[a] {
					two = !gor[b][g]
				}
			}
			if two {
				c20Seen(t, "matrix.entry×entry", c20Entries[a].name+" × "+c20Entries[b].name)
			}
		}
	}
	sort.Slice(ivs, func(i, j int) bool { return ivs[i].t0 < ivs[j].t0 })
	over := map[[2]int]bool{}
	for i := range ivs {
		for j := i + 1; j < len(ivs) && ivs[j].t0 < ivs[i].t1; j++ {
			if ivs[i].g != ivs[j].g {
				a, b := ivs[i].e, ivs[j].e
				if a > b {
					a, b = b, a
				}
				over[[2]int{a, b}] = true
			}
		}
	}
	for p := range over {
		c20Seen(t, "matrix.entry×entry.overlapped-in-time", c20Entries[p[0]].name+" × "+c20Entries[p[1]].name)
	}
	for e := range gor {
		if len(gor[e]) > 0 {
			c20Seen(t, "entry", c20Entries[e].name)
		}
	}
	return true
}

const c20ModPath = "github.com/tdewolff/parse/v2"

// --- stream: race ----------------------------------------------------------------------------------------

func c20Race(t *fw.T) {
	c20Begin(t)
	r := t.Rng
	N := 8 + r.Intn(57)
	var focus *c20Entry
	if r.Intn(3) == 0 { // one entry point that every goroutine runs (same code at the same time)
		focus = c20Weighted[r.Intn(len(c20Weighted))]
	}
	var hot []*c20Op // identical inputs shared (as masters; every execution copies) by many goroutines
	if r.Intn(3) == 0 {
		for k := 1 + r.Intn(3); k > 0; k-- {
			hot = append(hot, c20GenOp(r, c20Weighted[r.Intn(len(c20Weighted))]))
		}
	}
	cs := &c20Case{Rounds: 2, Goroutines: make([][]*c20Op, N)}
	distinct := map[string]bool{}
	for g := range cs.Goroutines {
		for k := 2 + r.Intn(5); k > 0; k-- {
			var op *c20Op
			switch {
			case focus != nil && k == 1:
				op = c20GenOp(r, focus)
			case len(hot) > 0 && r.Intn(3) == 0:
				op = hot[r.Intn(len(hot))]
			default:
				op = c20GenOp(r, c20Weighted[r.Intn(len(c20Weighted))])
			}
			distinct[op.Entry] = true
			cs.Goroutines[g] = append(cs.Goroutines[g], op)
		}
	}
	t.Desc(cs)
	if !c20RunPlan(t, "race", cs.Goroutines, cs.Rounds) {
		return
	}
	c20Quiescent(t, "race")
	t.Count("race.cases", 1)
	if len(distinct) >= 2 {
		t.Nontrivial([]byte(fmt.Sprint(N, t.Index, len(distinct), cs.Goroutines[0][0].Seed)))
	}
	if t.Index < 3 {
		t.Sample(map[string]any{"goroutines": N, "entries": len(distinct), "first_goroutine": cs.Goroutines[0]})
	}
}

// --- stream: order (history independence) ---------------------------------------------------------------

const c20PoolPerEntry = 16

var (
	c20PoolOnce sync.Once
	c20Pool     []*c20Op
	c20Ref      [][32]byte
	c20RefOrder string
	c20PeerSeen = map[string]bool{}
)

// c20PoolInit builds the fixed pool (independent of VERIF_SEED: every process of every run agrees on it) and
// computes the reference digests, first thing, in an order private to this process.
func c20PoolInit(t *fw.T) {
	c20PoolOnce.Do(func() {
		for i, e := range c20Entries {
			r := newRand(int64(20_000 + i))
			for k := 0; k < c20PoolPerEntry; k++ {
				c20Pool = append(c20Pool, c20GenOp(r, e))
			}
		}
		c20Ref = make([][32]byte, len(c20Pool))
		perm := t.Rng.Perm(len(c20Pool))
		switch t.Index % 3 {
		case 0:
			c20RefOrder = "shuffled"
		case 1:
			c20RefOrder = "forward"
			sort.Ints(perm)
		case 2:
			c20RefOrder = "reversed"
			sort.Sort(sort.Reverse(sort.IntSlice(perm)))
		}
		for _, i := range perm {
			c20Ref[i], _ = c20ExecOp(c20Pool[i])
		}
		t.Count("order.reference_tables", 1)
		// publish the table for the sibling worker processes of this run
		if dir := os.Getenv("VH_SCRATCH"); dir != "" {
			var sb strings.Builder
			sb.WriteString(c20RefOrder + "\n")
			for i := range c20Ref {
				sb.WriteString(hex.EncodeToString(c20Ref[i][:]) + "\n")
			}
			name := filepath.Join(dir, fmt.Sprintf("c20-ref-%d", os.Getpid()))
			if os.WriteFile(name+".tmp", []byte(sb.String()), 0o644) == nil {
				os.Rename(name+".tmp", name+".tab")
			}
		}
	})
}

// c20Peers compares this process's reference table with the tables published by other worker processes
// (each computed in a fresh process, in a different order).
func c20Peers(t *fw.T) {
	dir := os.Getenv("VH_SCRATCH")
	if dir == "" {
		return
	}
	files, _ := filepath.Glob(filepath.Join(dir, "c20-ref-*.tab"))
	sort.Strings(files)
	own := filepath.Join(dir, fmt.Sprintf("c20-ref-%d.tab", os.Getpid()))
	for _, f := range files {
		if f == own || c20PeerSeen[f] {
			continue
		}
		c20PeerSeen[f] = true
		b, err := os.ReadFile(f)
		if err != nil {
			continue
		}
		lines := strings.Split(strings.TrimSpace(string(b)), "\n")
		if len(lines) != len(c20Ref)+1 {
			continue // a table of another pool size: not comparable
		}
		for i := range c20Ref {
			if lines[i+1] != hex.EncodeToString(c20Ref[i][:]) {
				t.Failf("order: pool op %d gives a different result in two fresh processes that ran the pool in different orders (this process: %s, process of %s: %s): %s",
					i, c20RefOrder, filepath.Base(f), lines[0], c20OpText(c20Pool[i]))
				return
			}
		}
		t.Count("order.peer_tables_compared", 1)
	}
}

func c20Order(t *fw.T) {
	c20Begin(t)
	c20PoolInit(t)
	r := t.Rng
	M := len(c20Pool)
	var hist []int
	mode := []string{"random", "reversed-window", "forward-window", "interleaved-pair", "entry-sweep", "entry-shuffle"}[t.Index%6]
	switch mode {
	case "random":
		for k := 20 + r.Intn(60); k > 0; k-- {
			hist = append(hist, r.Intn(M))
		}
	case "reversed-window", "forward-window":
		a := r.Intn(M)
		n := 10 + r.Intn(90)
		for i := 0; i < n; i++ {
			hist = append(hist, (a+i)%M)
		}
		if mode == "reversed-window" {
			for i, j := 0, len(hist)-1; i < j; i, j = i+1, j-1 {
				hist[i], hist[j] = hist[j], hist[i]
			}
		}
	case "interleaved-pair":
		a, b := r.Intn(M), r.Intn(M)
		hist = []int{a, b, a, b, b, a, a, b}
	case "entry-shuffle": // all ops of one entry point back to back, in two different orders
		e := r.Intn(len(c20Entries))
		for rep := 0; rep < 2; rep++ {
			for _, k := range r.Perm(c20PoolPerEntry) {
				hist = append(hist, e*c20PoolPerEntry+k)
			}
		}
	case "entry-sweep": // every op of one entry point, between two random other ops each
		e := r.Intn(len(c20Entries))
		for k := 0; k < c20PoolPerEntry; k++ {
			hist = append(hist, r.Intn(M), e*c20PoolPerEntry+k, r.Intn(M), e*c20PoolPerEntry+k)
		}
	}
	t.Desc(map[string]any{"mode": mode, "reference_order": c20RefOrder, "history_pool_indices": hist})
	distinct := map[string]bool{}
	for n, i := range hist {
		sum, pan := c20ExecOp(c20Pool[i])
		if pan {
			t.Count("ops.panicked", 1)
		}
		if sum != c20Ref[i] {
			prev := "nothing"
			if n > 0 {
				prev = c20OpText(c20Pool[hist[n-1]])
			}
			t.Failf("order: pool op %d gives a result that depends on the history of the process: at step %d of a %s history it differs from the result obtained when the process was fresh (reference order %s); previous call: %s; the call: %s",
				i, n, mode, c20RefOrder, prev, c20OpText(c20Pool[i]))
			return
		}
		distinct[c20Pool[i].Entry] = true
		c20Seen(t, "order.pool_ops_rechecked", fmt.Sprint(i))
		if n > 0 {
			c20Seen(t, "order.entry-after-entry", c20Pool[hist[n-1]].Entry+" → "+c20Pool[i].Entry)
		}
	}
	t.Count("order.executions", len(hist))
	c20Peers(t)
	c20Quiescent(t, "order")
	if len(distinct) >= 2 {
		t.Nontrivial([]byte(fmt.Sprint(mode, hist)))
	}
	if t.Index < 5 {
		t.Sample(map[string]any{"mode": mode, "history_pool_indices": hist, "first_op": c20Pool[hist[0]]})
	}
}

// --- stream: segment (M-seg) ----------------------------------------------------------------------------

func c20Segment(t *fw.T) {
	c20Begin(t)
	r := t.Rng
	seg := c20SegBaseline()
	if seg.err != "" {
		t.Desc(map[string]any{"m-seg": seg.err})
		t.Count("segment.unavailable", 1)
		return // nothing observed: the Required counters make the run INCONCLUSIVE
	}
	// workload: every entry point at least once, then random ones; partly from extra goroutines (private data)
	var ops []*c20Op
	for _, e := range c20Entries {
		ops = append(ops, c20GenOp(r, e))
	}
	for k := 150 + r.Intn(150); k > 0; k-- {
		ops = append(ops, c20GenOp(r, c20Weighted[r.Intn(len(c20Weighted))]))
	}
	r.Shuffle(len(ops), func(i, j int) { ops[i], ops[j] = ops[j], ops[i] })
	t.Desc(map[string]any{"ops": ops})
	if parse.VerifOnNewError != nil {
		t.Failf("harness: parse.VerifOnNewError is set during a C20 case")
		return
	}
	cut := len(ops) * 3 / 4
	for _, op := range ops[:cut] {
		c20ExecOp(op)
	}
	var wg sync.WaitGroup
	for g := 0; g < 4; g++ {
		wg.Add(1)
		go func(mine []*c20Op) {
			defer wg.Done()
			for _, op := range mine {
				c20ExecOp(op)
			}
		}(ops[cut+g*(len(ops)-cut)/4 : cut+(g+1)*(len(ops)-cut)/4])
	}
	wg.Wait()
	t.Count("segment.workload_ops", len(ops))
	c20Quiescent(t, "segment")
	if t.Failed() {
		return
	}
	// the monitor must see a deliberate write (harness-owned array, same mechanism)
	if ok, why := seg.selfTest(r.Intn(64)); ok {
		t.Count("segment.selftest.detected", 1)
	} else {
		t.Count("segment.selftest.missed", 1)
		t.Failf("harness: M-seg self-test failed: %s", why)
		return
	}
	libSyms := 0
	for _, y := range seg.syms {
		if !strings.HasPrefix(y.name, "vh/") {
			libSyms++
			c20Seen(t, "segment.symbols", y.name)
		}
	}
	t.Count("segment.snapshots_compared", 1)
	if seg.deepErr == "" {
		t.Count("segment.deep_regions_compared", seg.regions)
		for _, v := range seg.vars {
			c20Seen(t, "segment.typed_variables", v.name)
		}
	}
	t.Count("segment.bytes_compared", seg.bytes)
	t.Nontrivial([]byte(fmt.Sprint("segment", t.Index, len(ops))))
	if t.Index < 2 {
		t.Sample(map[string]any{"library_symbols": libSyms, "bytes": seg.bytes, "slide": seg.slide, "workload_ops": len(ops)})
	}
}

// --- probes ---------------------------------------------------------------------------------------------

func c20Mk(entry string, data string, seed int64, i ...int64) *c20Op {
	e := c20ByName[entry]
	if e == nil {
		panic("c20: unknown entry " + entry)
	}
	op := &c20Op{Entry: entry, Seed: seed, I: i, e: e}
	if data != "" {
		op.Data = []byte(data)
	}
	return op
}

func c20Rotate(ops []*c20Op, k int) []*c20Op {
	k %= len(ops)
	return append(append([]*c20Op(nil), ops[k:]...), ops[:k]...)
}

var c20Probes = []struct {
	name string
	plan func() [][]*c20Op
	post func(t *fw.T)
}{
	// Empty inputs of every constructor share one package-level terminator buffer (parse.nullBuffer,
	// buffer.nullBuffer): all lexers, parsers and cursors over empty inputs at the same time.
	{"empty-input-shared-terminator", func() [][]*c20Op {
		plan := make([][]*c20Op, 32)
		for g := range plan {
			for _, ep := range entryPoints {
				plan[g] = append(plan[g], c20Mk(ep.name, "", int64(g), int64(g%4)))
			}
			plan[g] = append(plan[g], c20Mk("js.Parse", "", 1, int64(g%4), int64(g%4), 2),
				c20Mk("parse.Input", "abc", int64(g), 4, 20), c20Mk("parse.Input", "", int64(g), 5, 20), c20Mk("parse.Input", "", int64(g), int64(g%4), 20),
				c20Mk("buffer.Lexer", "abc", int64(g), 4, 20), c20Mk("buffer.Lexer", "", int64(g), 5, 20), c20Mk("buffer.Lexer", "", int64(g), int64(g%4), 20),
				c20Mk("buffer.StreamLexer", "", int64(g), int64(g%5), 10), c20Mk("parse.Position+Error", "", 1, 0, 7))
			plan[g] = c20Rotate(plan[g], g)
		}
		return plan
	}, func(t *fw.T) {
		for _, c := range []cursorAPI{parse.NewInputBytes(nil), parse.NewInputString(""), parse.NewInput(nil), buffer.NewLexerBytes(nil), buffer.NewLexer(nil)} {
			if c.Peek(0) != 0 || c.Err() == nil || len(c.Bytes()) != 0 {
				t.Failf("empty input after the concurrent workload: Peek(0)=%#x Err()=%v len(Bytes())=%d; want 0, EOF, 0 (the shared terminator buffer was written)", c.Peek(0), c.Err(), len(c.Bytes()))
			}
		}
	}},
	// The same documents in every goroutine (private copies): identical code paths at the same time. The
	// html lexer lower-cases names in place — in each private copy.
	{"same-document-every-goroutine", func() [][]*c20Op {
		base := []*c20Op{
			c20Mk("html.lexer", `<!DOCTYPE HTML><DIV CLASS=A><Span ID="b">T &amp; t</SPAN></div><SCRIPT>if(a<b)x()</SCRIPT><STYLE>a{}</STYLE><svg><PATH D="M0"/></svg>`, 1, 1),
			c20Mk("html.template.go", `<INPUT VALUE={{ .X }} {{if .Y}}CHECKED{{end}} class="a {{ .B }} c"><TEXTAREA>{{.T}}</TEXTAREA>`, 1, 2),
			c20Mk("html.template.php", `<A HREF="<?php echo $x ?>"><?= "a>b" ?></A>`, 1, 0),
			c20Mk("css.parser.stylesheet", `@MEDIA print and (max-width:100px){A,b>c{MARGIN:0 auto!IMPORTANT;*zoom:1}}@font-face{font-family:"x"}a{b:c`, 1, 1),
			c20Mk("css.parser.inline", `COLOR:Red;background:URL(a.png) ;--x: {a:b}`, 1, 3),
			c20Mk("css.lexer", `a{width:calc(100% - 2px);b:U+0025-00FF}/* c */`, 1, 0),
			c20Mk("xml.lexer", `<?xml version="1.0"?><!DOCTYPE n [<!ENTITY a "b>c">]><A:b xmlns:A="urn:x" c = "d"/><![CDATA[<x>]]>`, 1, 2),
			c20Mk("json.parser", `{"a":[1,2.5e+3,true,null,{"b":"c\"d"}],"e":{}}`, 1, 1),
			c20Mk("js.lexer", "a = b / c; r = /ab+c/gi; t = `x${y}z`; // c", 1, 2),
			c20Mk("js.Parse", "class A extends B{static #p=1;m(){return super.m()}};for(let [i,j]=[0,1];i<j;i++)while(x)y=`a${i}`;export default A", 1, 0, 0, 2),
			c20Mk("js.Parse", "while(a){var b=1;if(b)continue}function f(c=1,...d){'use strict';return c+d}", 1, 1, 1, 0),
			c20Mk("js.Parse", `[1,"a",null,true,{"b":-1}]`, 1, 2, 2, 4),
			c20Mk("js.Parse", "x = {a, b: 1, [c]: 2, ...d}; y = a ? b : c ?? d; z = async () => await w", 1, 3, 3, 8),
		}
		plan := make([][]*c20Op, 32)
		for g := range plan {
			plan[g] = c20Rotate(base, g)
		}
		return plan
	}, nil},
	// One pair of entity maps read by 32 goroutines; every buffer private.
	{"shared-entity-maps", func() [][]*c20Op {
		in := []string{"&amp;&lt;&quot;&apos;&#39;&#x27;&#34;", "a &varphi; b&varpi;c &nbsp; &amp;amp; &#38;#38;", "it's \"q\" &#x26; &am&#112;; &#x&#x41;", " a \n\t b  &quot; c ", "&#65;&#x41;&notit;&#0;&#1114112;"}
		plan := make([][]*c20Op, 32)
		for g := range plan {
			for k, s := range in {
				plan[g] = append(plan[g], c20Mk("parse.ReplaceEntities", s, 1, int64((g+k)%2), int64(k%2)),
					c20Mk("parse.ReplaceMultipleWhitespaceAndEntities", s, 1, int64(g%2), int64(g%2)),
					c20Mk("parse.ReplaceMultipleWhitespace", s, 1, int64(k%2)))
			}
			plan[g] = c20Rotate(plan[g], g)
		}
		return plan
	}, nil},
	// EscapeAttrVal with caller-owned scratch buffers of every size class (reuse, reallocation).
	{"escape-attr-private-buffers", func() [][]*c20Op {
		vals := []string{`a"b'c`, `it's`, `say "hi"`, `plain`, ``, `a b=c<d>e&f`, `""''""''`, `&quot;&#39;&amp;`, "x\ty\n", "]]>&<"}
		plan := make([][]*c20Op, 32)
		for g := range plan {
			for k, v := range vals {
				for _, capacity := range []int64{0, int64(len(v)), int64(len(v) + 64)} {
					plan[g] = append(plan[g], c20Mk("html.EscapeAttrVal", v, 1, int64([]byte{0, '\'', '"'}[(g+k)%3]), int64(g%2), capacity),
						c20Mk("xml.EscapeAttrVal+EscapeCDATAVal", v, 1, 0, 0, capacity))
				}
			}
			plan[g] = c20Rotate(plan[g], 3*g)
		}
		return plan
	}, nil},
	// The CSS parser hands out package-level constant slices ("}" for a block end that follows a declaration, " " for
	// collapsed whitespace, "" for values): every goroutine receives the same slices; nobody may write them.
	{"css-shared-constant-tokens", func() [][]*c20Op {
		docs := []string{"a{b:c}", "a{b:c", "a { b : c  d }", "@media{a{b:c", "a{b:c;;}", "a{--x: y  z ;}", "@x y  z{", "a{b:c}}}", "a{*"}
		plan := make([][]*c20Op, 32)
		for g := range plan {
			for k, s := range docs {
				plan[g] = append(plan[g], c20Mk("css.parser.stylesheet", s, 1, int64((g+k)%4)), c20Mk("css.parser.inline", "b : c  d ;*e:f;--x:  ", 1, int64(k%4)))
			}
			plan[g] = c20Rotate(plan[g], g)
		}
		return plan
	}, func(t *fw.T) {
		p := css.NewParser(parse.NewInputString("a{b:c}"), false)
		var end []byte
		for i := 0; i < 8; i++ {
			gt, _, data := p.Next()
			if gt == css.ErrorGrammar {
				break
			}
			if gt == css.EndRulesetGrammar {
				end = data
			}
		}
		if string(end) != "}" {
			t.Failf("css parser: the end of the ruleset a{b:c} is reported with data %q after the concurrent workload, want \"}\" (the shared constant was written)", end)
		}
	}},
	// Lookup tables whose slices are handed to callers: Hash.Bytes, TokenType.Bytes, Keywords.
	{"hash-and-token-tables", func() [][]*c20Op {
		words := []string{"media", "font-face", "script", "textarea", "Script", "svg", "x", "", "await", "class", "$x"}
		plan := make([][]*c20Op, 32)
		for g := range plan {
			for k, w := range words {
				plan[g] = append(plan[g], c20Mk("css.ToHash+Hash", w, 1, int64(k)), c20Mk("html.ToHash+Hash", w, 1, int64(k)),
					c20Mk("js.predicates+TokenType+Keywords", w, 1, int64(0x600+g+k)), c20Mk("parse.Copy+ToLower+EqualFold", strings.ToUpper(w), 1))
			}
			plan[g] = c20Rotate(plan[g], 5*g)
		}
		return plan
	}, nil},
	// strconv with private destination buffers (tight and with spare capacity).
	{"strconv-private-dst", func() [][]*c20Op {
		plan := make([][]*c20Op, 32)
		fl := []uint64{0x3FB999999999999A, 0x4005BF0A8B145769, 0x7FEFFFFFFFFFFFFF, 1, 0x8000000000000000, 0x3E7AD7F29ABCAF48, 0x4341C37937E08000, 0xC08F400000000000}
		for g := range plan {
			for k, f := range fl {
				plan[g] = append(plan[g], c20Mk("strconv.AppendFloat", "", 1, int64(f), int64((g+k)%19-1), int64(k%3)),
					c20Mk("strconv.AppendDecimal", "", 1, int64(f), int64((g+k)%18), int64(g%3)),
					c20Mk("strconv.AppendInt+LenInt", "", 1, int64(f>>(uint(g)%40)), int64(k%3)),
					c20Mk("strconv.AppendNumber+ParseNumber", "", 1, int64(f>>20), int64(k%5), int64(g%5), ',', '.', int64(k%3)))
			}
			for _, s := range []string{"1e5", "-12.5e-3", "9223372036854775807", "18446744073709551615", "0.1", "1e400", ".5", "+7", "1.7976931348623157e308", "4.9e-324"} {
				plan[g] = append(plan[g], c20Mk("strconv.ParseFloat", s, 1), c20Mk("strconv.ParseDecimal", s, 1), c20Mk("strconv.ParseInt", s, 1), c20Mk("strconv.ParseUint", s, 1), c20Mk("parse.Number+Dimension", s+"px", 1))
			}
			plan[g] = c20Rotate(plan[g], 7*g)
		}
		return plan
	}, nil},
	// Cursors, stream lexers and binary readers/writers (all backends, files included) on private data.
	{"cursors-streams-binary", func() [][]*c20Op {
		data := "héllo wörld, 日本語 \x00 text \xf0\x9f\x98\x80 with a tail that is long enough to be refilled several times 0123456789"
		plan := make([][]*c20Op, 24)
		for g := range plan {
			for k := 0; k < 6; k++ {
				plan[g] = append(plan[g], c20Mk("parse.Input", data, int64(g*10+k), int64(k), 60), c20Mk("buffer.Lexer", data, int64(g*10+k), int64(k), 60),
					c20Mk("buffer.StreamLexer", data, int64(g*10+k), []int64{0, 1, 3, 8, 64, 4096}[k], 80),
					c20Mk("parse.BinaryReader", data, int64(g*10+k), int64(k), 30), c20Mk("parse.BinaryWriter+Bitmap", data, 1, int64(k%3), int64(g)<<32|int64(k)),
					c20Mk("buffer.Reader+Writer", data, 1, int64(1+k), int64(k%2)))
			}
		}
		return plan
	}, nil},
}

func c20Probe(t *fw.T) {
	c20Begin(t)
	p := c20Probes[t.Index%len(c20Probes)]
	t.Key("probe:" + p.name)
	plan := p.plan()
	t.Desc(&c20Case{Probe: p.name, Rounds: 2, Goroutines: plan})
	if !c20RunPlan(t, "probe "+p.name, plan, 2) {
		return
	}
	if p.post != nil {
		p.post(t)
	}
	c20Quiescent(t, "probe "+p.name)
	t.Count("probes", 1)
	t.Nontrivial([]byte(p.name))
}

func init() {
	np := len(c20Probes)
	fw.Register(&fw.Prop{
		ID: "C20",
		Rule: "an op = one self-contained use of an exported entry point (14 streaming lexers/parsers x 4 Input constructors, js.Parse x 4 Options with String/JSString/JS/Walk/JSON/Scope, " +
			"Input/Lexer/StreamLexer cursor histories, strconv Parse*/Append*, the helpers of common.go/util.go, css/html ToHash+Hash, html/xml EscapeAttrVal, js predicates/TokenType/Keywords, buffer Reader/Writer, BinaryReader (6 backends)/Writer/Bitmap) " +
			"on a fresh deep copy of its input (corpus entries, hostile mutations, grammar-generated documents); its result is a sha256 over everything the calls return. " +
			"race: 8-64 goroutines x 2-6 ops x 2 rounds under the race detector, then the same ops alone; order: seeded histories (random, windows forward/reversed, interleaved pairs, per-entry sweeps and shuffles) over a fixed pool (16 ops per entry point) against the digests computed when the process was fresh, tables compared across worker processes; " +
			"segment: bytes of every library symbol in the writable ELF sections, and of the memory one DWARF-typed level behind every library variable, before/after a workload of >= 1 op per entry point + 150-300 random ops (a self-test write to harness-owned variables must be seen). " +
			"independence: every ordered pair of {BinaryReader over a seeker / a ReaderAt / a plain reader, StreamLexer, NewInput(reader)}: instance A is held inside its data source's Read/ReadAt while instance B of another goroutine must obtain its (solo) result. " +
			"non-trivial = a case that touched >= 2 distinct entry points (race, order), a completed snapshot comparison (segment), a completed probe",
		Assume: []string{
			"'private data' = every execution gets fresh copies of its byte inputs and its own scratch/destination buffers; entity maps passed to ReplaceEntities are shared read-only (maps the caller never writes)",
			"a result = everything an entry point returns or writes into the caller's private buffers; addresses (Var.Info's %p) are not results",
			"a panic on hostile input is a result like any other (it must be the same panic alone and concurrently); whether it may panic at all is C01's clause, not C20's",
			"exported package variables (js.NestedExprLimit, js.NestedStmtLimit, buffer.MinBuf, html.*Template, js.Keywords, encoding tables) are configuration the user may set before use; the check leaves them alone and reports only changes that happen during library calls",
			"M-seg reads the bytes of the library's symbols in .data/.noptrdata/.bss/.noptrbss (slice and map headers, arrays, backing arrays of []byte literals) and, typed by DWARF, exactly one level behind them (pointee, slice elements, map entry count); state further away is left to the race detector and the digest clauses. Compiler-made runtime caches (..typeAssert.N, ..interfaceSwitch.N), which the Go runtime updates itself, are not library variables and are skipped",
			"the statement's 'static list of assignments to package-level variables' is outside runtime monitoring and is replaced by M-seg + the exported-variable digest (DESIGN §4 C20 Limits)",
			"'all interleavings' is sampled: the race detector decides on happens-before, so every pair of conflicting accesses executed by two goroutines of one case is reported irrespective of timing; coverage is the entry x entry matrix in the evidence",
		},
		Required: []string{"probes", "race.cases", "race.ops.concurrent", "order.executions", "order.reference_tables", "segment.snapshots_compared", "segment.selftest.detected", "segment.deep_regions_compared", "exported.checks", "matrix.entry×entry", "segment.symbols", "independence.pairs"},
		Streams: []fw.Stream{
			// order first: its first case computes the reference digests before anything else of C20 ran in the process
			{Name: "order", Quick: 24000, Thorough: 1440000, Run: c20Order, NoRace: true},
			{Name: "segment", Quick: 96, Thorough: 6400, Run: c20Segment, NoRace: true},
			{Name: "probes", Quick: np, Thorough: np * 4, Run: c20Probe, NoRace: true},
			{Name: "race-probes", Quick: np, Thorough: np * 8, Run: c20Probe, Race: true},
			{Name: "independence", Quick: 25, Thorough: 100, Run: c20Independence, Race: true},
			{Name: "race", Quick: 1200, Thorough: 60000, Run: c20Race, Race: true},
		},
	})
}
