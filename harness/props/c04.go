package props

import (
	"fmt"
	"io"
	"os"
	"regexp"
	"sort"

	"github.com/tdewolff/parse/v2"
	"github.com/tdewolff/parse/v2/js"

	"vh/fw"
	"vh/gen"
)

// C04 — identifier resolution follows ECMAScript scoping.
//
// The generator draws names from a pool of five and records, for every identifier token it writes, which
// declaration it denotes according to its own scope resolver (var/function -> enclosing function, let/const/class/
// catch parameter -> block, parameters, function-expression names, loop heads). Oracle: every declared root Var
// of the library's tree is given a fresh unique name; the printed program is lexed; its identifier tokens line up
// one to one with the identifier tokens the generator wrote; occurrences of one binding must carry one fresh
// name, different bindings different names, unbound names must be printed unchanged, and Var.Uses must equal
// the number of times the fresh name is printed.

type c04Case struct {
	Src     fw.B   `json:"src"`
	Printed fw.B   `json:"printedAfterRenaming,omitempty"`
	Opts    string `json:"opts"`
}

type c04Renamer struct {
	names map[*js.Var]string
	vars  []*js.Var
}

func (v *c04Renamer) Enter(n js.INode) js.IVisitor {
	if x, ok := n.(*js.Var); ok {
		root := x
		for root.Link != nil {
			root = root.Link
		}
		if root.Decl != js.NoDecl && root.Decl != js.PrivateDecl { // private names (#p) live in their own name space
			if _, seen := v.names[root]; !seen {
				v.names[root] = fmt.Sprintf("v%d_", len(v.names)+1)
				v.vars = append(v.vars, root)
			}
		}
	}
	return v
}
func (v *c04Renamer) Exit(n js.INode) {}

func c04Check(t *fw.T, prog *gen.JSProg, st gen.JSStyle, op js.Options) bool {
	src, occ := gen.JSSpell(prog, st)
	cs := &c04Case{Src: []byte(src), Opts: optName(op)}
	t.Desc(cs)
	ast, err := js.Parse(parse.NewInputString(src), op)
	if err != nil {
		t.Failf("valid program rejected: %v", oneLineErr(err))
		return false
	}
	// unbound names are undeclared variables of the outermost scope
	unbound := map[string]bool{}
	for _, o := range occ {
		if o.Bind == 0 {
			unbound[o.Name] = true
		}
	}
	outer := map[string]bool{}
	for _, v := range ast.BlockStmt.Scope.Undeclared {
		if v.Decl == js.NoDecl {
			outer[string(v.Name())] = true
		}
	}
	for name := range unbound {
		if !outer[name] {
			t.Failf("name %q is bound nowhere but is not an undeclared variable of the outermost scope (%v)", name, ast.BlockStmt.Scope.Undeclared)
			return false
		}
	}
	// give every declared Var a fresh name
	rn := &c04Renamer{names: map[*js.Var]string{}}
	js.Walk(rn, ast)
	uses := map[string]int{}
	for _, v := range rn.vars {
		v.Data = []byte(rn.names[v])
		uses[rn.names[v]] = int(v.Uses)
	}
	printed := ast.JSString()
	cs.Printed = []byte(printed)
	t.Desc(cs)
	// identifier tokens of the printed program
	var out []string
	l := js.NewLexer(parse.NewInputString(printed))
	for {
		tt, data := l.Next()
		if tt == js.ErrorToken {
			if l.Err() != io.EOF {
				t.Failf("printed program does not lex: %v", l.Err())
				return false
			}
			break
		}
		if js.IsIdentifier(tt) {
			out = append(out, string(data)) // also async, get, set, of, let, static, target …: they may be variable names
		}
	}
	// expected sequence: a shorthand occurrence of a renamed binding is printed as key and value
	type exp struct {
		name string
		bind int
		key  bool // unchanged property key produced by expanding a shorthand
	}
	isFresh := func(s string) bool { _, ok := uses[s]; return ok }
	var want []exp
	for _, o := range occ {
		want = append(want, exp{o.Name, o.Bind, false})
	}
	i, j := 0, 0
	bindName := map[int]string{}
	nameBind := map[string]int{}
	printedCount := map[string]int{}
	for i < len(want) {
		if j >= len(out) {
			t.Failf("printed program has %d identifier tokens, the source has at least %d (next %q)", len(out), i+1, want[i].name)
			return false
		}
		w := want[i]
		got := out[j]
		if occ[i].Short && w.bind > 0 {
			// a shorthand {a} of a renamed binding must be printed as key and value, {a: v1_}: the property name stays
			if !(got == w.name && j+1 < len(out) && isFresh(out[j+1])) {
				t.Failf("identifier %d: the shorthand property or pattern element {%s} of a renamed binding is printed as %q (next token %q) instead of {%s: <new name>}: the property name changed", i, w.name, got, func() string {
					if j+1 < len(out) {
						return out[j+1]
					}
					return ""
				}(), w.name)
				return false
			}
			j++
			got = out[j]
		}
		switch {
		case w.bind > 0:
			if !isFresh(got) {
				t.Failf("identifier %d (%q, a declared binding) is printed as %q: its Var was not found among the declared variables", i, w.name, got)
				return false
			}
			if prev, ok := bindName[w.bind]; ok && prev != got {
				t.Failf("two occurrences of one binding of %q resolve to different variables (%s and %s) at identifier %d; generator's bindings around it: %s", w.name, prev, got, i, occAround(occ, i))
				return false
			}
			if prev, ok := nameBind[got]; ok && prev != w.bind {
				t.Failf("occurrences of two different bindings of %q share one variable %s (identifier %d); generator's bindings around it: %s", w.name, got, i, occAround(occ, i))
				return false
			}
			bindName[w.bind] = got
			nameBind[got] = w.bind
			printedCount[got]++
		case w.bind == 0:
			if got != w.name {
				t.Failf("identifier %d (%q, bound nowhere) is printed as %q", i, w.name, got)
				return false
			}
		default:
			if got != w.name {
				t.Failf("identifier %d (%q, property name or label) is printed as %q; source identifiers %s; printed identifiers %v", i, w.name, got, occAround(occ, i), out[maxInt(0, j-8):minInt(len(out), j+3)])
				return false
			}
		}
		i++
		j++
	}
	if j != len(out) {
		t.Failf("printed program has %d identifier tokens, the source has %d", len(out), j)
		return false
	}
	var names []string
	for n := range uses {
		names = append(names, n)
	}
	sort.Strings(names)
	for _, n := range names {
		if printedCount[n] != uses[n] {
			t.Failf("Var %s has Uses=%d but its name is printed %d times", n, uses[n], printedCount[n])
			return false
		}
	}
	// the renamed program is itself accepted (alpha-equivalent text)
	if _, err := js.Parse(parse.NewInputString(printed), op); err != nil {
		t.Failf("program printed after renaming is rejected: %v", oneLineErr(err))
		return false
	}
	t.Count("identifiers", len(occ))
	t.Count("bindings", len(bindName))
	return true
}

var c04Opts = gen.JSOpts{NoRegex: true, PlainKeys: true, NoClassSelf: true, NoModuleItems: true, ParamDefaultRefs: true, CtxNames: true, Shorthand: true}

func c04Run(t *fw.T) {
	r := t.Rng
	o := c04Opts
	if os.Getenv("VH_C04_SMALL") != "" || r.Intn(2) == 0 {
		// small programs: more of them per second and smaller witnesses
		o.Budget = 6 + r.Intn(20)
		o.MaxStmts = 1 + r.Intn(3)
	}
	prog := gen.JSProgram(r, o)
	st := gen.JSStyle{Parens: r.Intn(3), Semi: r.Intn(3), WS: r.Intn(3), Seed: r.Int63(), Bang: []int{0, 0, 0, 25}[r.Intn(4)], KwOcc: true}
	op := jsOptions[r.Intn(2)]
	if !c04Check(t, prog, st, op) {
		return
	}
	t.Count("programs", 1)
	t.Nontrivial(t.DescBytes())
	if t.Index < 4 {
		src, _ := gen.JSSpell(prog, st)
		t.Sample(map[string]any{"src": []byte(src)})
	}
}

// fixed probes written by hand: source, and for each identifier token its binding id (0 = unbound, -1 = not a binding)
var c04Probes = []struct {
	name, src string
}{
	{"hoist-var-through-blocks", "a; { { var a } } a"},
	{"let-shadows-in-block", "let a; { let a; a } a"},
	{"function-expression-name", "x = function f() { return f }; f"},
	{"catch-parameter", "try {} catch (e) { e } e"},
	{"arrow-parameters", "(a, b) => a + b; a"},
	{"parenthesised-not-arrow", "(a, b); a"},
	{"for-let-scope", "for (let i = 0; i < 1; i++) { i } i"},
	{"class-static-block-var", "let a; class C { static { var a; a } } a"},
	{"param-default-sees-earlier-param", "function f(a, b = a) { return b }"},
	{"use-before-let", "{ a; let a }"},
	{"class-expression-self-reference", "x = class A { m() { return A } }"},
	{"for-head-shadowed-in-body", "for (let x;;) { x; let x }"},
	{"for-head-use-vs-body-let", "for (c of x) { x; let x }"},
	{"arrow-flag-leak-into-nested-body", "({} + function(){ [a] }); a"},
	{"static-block-var", "let a; class b { static { var a; a } }"},
	{"rest-param-default-vs-body-function", "function f(c = y, ...r) { function y() {} }"},
	{"param-default-vs-body-var", "function f(c = y) { var y; (y) }"},
	{"arrow-param-default-vs-body-let", "x = (c = y, [d]) => { let y; return [y] }"},
	{"for-head-use-then-body-let", "var n; for (let i = 0; i < n; i++) { let n = i; (n) }"},
	{"param-default-use-vs-body-let", "function f(a = x) { x; let x }"},
	{"param-default-use-vs-body-var", "function f(a = x) { x = 1; var x }"},
	{"arrow-flag-leak-into-arrow-expression-body", "({} != (() => [b] = 1)); b"},
	{"arrow-flag-leak-into-class-body", "({} + class { [c] = d; static { e } }); c; d; e"},
	{"shorthand-of-linked-variable", "var a; function f() { return {a} }"},
	{"catch-parameter-default-vs-block-let", "try {} catch ({a = b}) { let b; b }"},
	{"export-specifier-local-name", "var a; export { a }; a"},
	{"function-declaration-in-block-hoists", "function o() { { function f() {} } return f }"},
	{"arrow-bare-parameter-uses", "var a; a => a"},
	{"switch-discriminant-outside-case-scope", "let x; switch (x) { case 1: let x; x }"},
	{"escaped-identifier-same-name", "var \\u0061 = 1; a"},
}

func c04Probe(t *fw.T) {
	p := c04Probes[t.Index%len(c04Probes)]
	t.Key("probe:" + p.name)
	t.Desc(&c04Case{Src: []byte(p.src)})
	ast, err := js.Parse(parse.NewInputString(p.src), js.Options{})
	if err != nil {
		t.Failf("probe rejected: %v", oneLineErr(err))
		return
	}
	// expectations are encoded per probe through the printed result after renaming
	rn := &c04Renamer{names: map[*js.Var]string{}}
	js.Walk(rn, ast)
	for _, v := range rn.vars {
		v.Data = []byte(rn.names[v])
	}
	got := ast.JSString()
	want := map[string]string{
		"hoist-var-through-blocks":                   "v1_;\n{\n\t{\n\t\tvar v1_;\n\t}\n}\nv1_;",
		"let-shadows-in-block":                       "let v1_;\n{\n\tlet v2_;\n\tv2_;\n}\nv1_;",
		"function-expression-name":                   "x = function v1_() {\n\treturn v1_;\n};\nf;",
		"catch-parameter":                            "try {} catch (v1_) {\n\tv1_;\n}\ne;",
		"arrow-parameters":                           "(v1_, v2_) => { return v1_ + v2_ };\na;",
		"parenthesised-not-arrow":                    "(a, b);\na;",
		"for-let-scope":                              "for (let v1_ = 0; v1_ < 1; v1_++) {\n\tv1_;\n}\ni;",
		"class-static-block-var":                     "let v1_;\nclass v2_ {\n\tstatic {\n\t\tvar v3_;\n\t\tv3_;\n\t}\n}\nv1_;",
		"param-default-sees-earlier-param":           "function v1_(v2_, v3_ = v2_) {\n\treturn v3_;\n}",
		"use-before-let":                             "{\n\tv1_;\n\tlet v1_;\n}",
		"class-expression-self-reference":            "x = class v1_ {\n\tm() {\n\t\treturn v1_;\n\t}\n};",
		"for-head-shadowed-in-body":                  "for (let v1_; ; ) { v2_; let v2_; }",
		"for-head-use-vs-body-let":                   "for (c of x) { v1_; let v1_; }",
		"arrow-flag-leak-into-nested-body":           "({} + function() { [a]; }); a;",
		"static-block-var":                           "let v1_; class v2_ { static { var v3_; v3_; } }",
		"rest-param-default-vs-body-function":        "function v1_(v2_ = y, ...v3_) { function v4_() {} }",
		"param-default-vs-body-var":                  "function v1_(v2_ = y) { var v3_; (v3_) }",
		"arrow-param-default-vs-body-let":            "x = (v1_ = y, [v2_]) => { let v3_; return [v3_] }",
		"for-head-use-then-body-let":                 "var v1_; for (let v2_ = 0; v2_ < v1_; v2_++) { let v3_ = v2_; (v3_) }",
		"param-default-use-vs-body-let":              "function v1_(v2_ = x) { v3_; let v3_ }",
		"param-default-use-vs-body-var":              "function v1_(v2_ = x) { v3_ = 1; var v3_ }",
		"arrow-flag-leak-into-arrow-expression-body": "({} != (() => { return [b] = 1 })); b",
		"arrow-flag-leak-into-class-body":            "({} + class { [c] = d; static { e } }); c; d; e",
		"shorthand-of-linked-variable":               "var v1_; function v2_() { return {a: v1_} }",
		"catch-parameter-default-vs-block-let":       "try {} catch ({a: v1_ = b}) { let v2_; v2_ }",
		"export-specifier-local-name":                "var v1_; export { v1_ as a }; v1_",
		"function-declaration-in-block-hoists":       "function v1_() { { function v2_() {} } return v2_ }",
		"arrow-bare-parameter-uses":                  "var v1_; (v2_) => { return v2_ }",
		"switch-discriminant-outside-case-scope":     "let v1_; switch (v1_) { case 1: let v2_; v2_ }",
		"escaped-identifier-same-name":               "var v1_ = 1; v1_",
	}[p.name]
	if canonNames(normalizeWS(got)) != canonNames(normalizeWS(want)) {
		t.Failf("after renaming every declared variable the program prints as %q, want %q", got, want)
		return
	}
	t.Count("probes", 1)
	t.Nontrivial([]byte(p.name))
}

// canonNames renumbers the fresh names v<k>_ by first appearance (the numbering depends on the Walk order).
func canonNames(s string) string {
	re := regexp.MustCompile(`v[0-9]+_`)
	seen := map[string]string{}
	return re.ReplaceAllStringFunc(s, func(m string) string {
		if _, ok := seen[m]; !ok {
			seen[m] = fmt.Sprintf("V%d_", len(seen)+1)
		}
		return seen[m]
	})
}

func normalizeWS(s string) string {
	out := make([]byte, 0, len(s))
	for i := 0; i < len(s); i++ {
		c := s[i]
		if c == ' ' || c == '\n' || c == '\t' || c == ';' {
			continue
		}
		out = append(out, c)
	}
	return string(out)
}

func init() {
	fw.Register(&fw.Prop{
		ID: "C04",
		Rule: "case = a generated closed-form program (nesting of functions, arrows, blocks, loops, catch clauses, classes with methods/fields/static blocks; names drawn from a pool of 5 to force shadowing; use-before-declaration; hoisting through sibling and nested blocks; parenthesised lists that are or are not arrow heads; destructuring declarations) in a random spelling x Options{WhileToFor}; " +
			"the generator's own ECMAScript scope resolver labels every identifier token with its binding; every declared root Var of the library tree gets a fresh name, the printed program is lexed and its identifier tokens are aligned with the generator's: same binding <=> same fresh name, unbound names unchanged and present in the outermost Undeclared list, Uses == number of printed occurrences, renamed program accepted. non-trivial = every accepted program; distinct by source",
		Assume: []string{"function declarations hoist to the enclosing function, also from nested blocks and case clauses (the statement's reading)",
			"parameter defaults mention outer variables but never a parameter of the same function; destructuring defaults are literals; a name the defaults mention is declared by the body at function level only in its first statements or not at all (recorded known findings param-default-use-vs-body-*)",
			"the block that is the body of a for statement declares its lexical names first, with initialisers that mention none of them, and never a name the head declares (recorded known findings for-head-*)",
			"object and pattern keys never coincide with pool names and no shorthand properties are generated, so that printing after renaming keeps the identifier-token sequence",
			"class expressions in random programs do not reference their own name (recorded known finding, probed individually)", "no regular expression literals (the printed program is lexed with js.Lexer)", "no module items (import/export) and no with statement"},
		Required: []string{"programs", "identifiers", "bindings", "probes"},
		Streams: []fw.Stream{
			{Name: "probes", Quick: len(c04Probes), Thorough: len(c04Probes), Run: c04Probe},
			{Name: "scope", Quick: 400000, Thorough: 18000000, Run: c04Run},
		},
	})
}

func occAround(occ []gen.JSIdentOcc, i int) string {
	s := ""
	for k := i - 8; k <= i+3; k++ {
		if k >= 0 && k < len(occ) {
			mark := ""
			if k == i {
				mark = "*"
			}
			d := ""
			if occ[k].Decl {
				d = "d"
			}
			s += fmt.Sprintf("%s%s#%d%s ", mark, occ[k].Name, occ[k].Bind, d)
		}
	}
	return s
}

func minInt(a, b int) int {
	if a < b {
		return a
	}
	return b
}
