package props

import (
	"bytes"
	"fmt"
	"io"
	"strings"

	"github.com/tdewolff/parse/v2"
	"github.com/tdewolff/parse/v2/css"

	"vh/fw"
	"vh/gen"
)

// C08 — CSS parser emits a well-nested, token-conserving grammar stream.

type c08Case struct {
	Kind   string `json:"kind"`
	Inline bool   `json:"inline"`
	Src    fw.B   `json:"src"`
}

func cssValuesString(vs []css.Token) string {
	var sb strings.Builder
	for _, v := range vs {
		fmt.Fprintf(&sb, "%s(%q) ", v.TokenType, v.Data)
	}
	return sb.String()
}

func wantValuesString(vs []gen.CSSTok) string {
	var sb strings.Builder
	for _, v := range vs {
		fmt.Fprintf(&sb, "%s(%q) ", v.Kind, v.Text)
	}
	return sb.String()
}

// c08Generated: exact unit sequence for well-formed sheets.
func c08Generated(t *fw.T) {
	r := t.Rng
	inline := r.Intn(4) == 0
	src, want := gen.CSSSheet(r, inline)
	ctor := gen.Pick(r, inputCtors)
	t.Desc(&c08Case{Kind: "generated", Inline: inline, Src: []byte(src)})
	in, _ := mkInput(r, []byte(src), ctor)
	p := css.NewParser(in, inline)
	for i := 0; ; i++ {
		gt, _, data := p.Next()
		if gt == css.ErrorGrammar {
			if p.HasParseError() {
				t.Failf("well-formed sheet rejected at unit %d: %v", i, oneLineErrAny(p.Err()))
				return
			}
			if p.Err() != io.EOF {
				t.Failf("stream ended with %v", p.Err())
				return
			}
			if i != len(want) {
				t.Failf("parser returned %d units, the sheet has %d; next expected %s %q [%s]", i, len(want), want[i].Grammar, want[i].Data, wantValuesString(want[i].Values))
			}
			break
		}
		if i >= len(want) {
			t.Failf("extra unit %v %s [%s] after the %d expected ones", gt, fw.Q(data), cssValuesString(p.Values()), len(want))
			return
		}
		w := want[i]
		if gt.String() != w.Grammar || string(data) != w.Data {
			t.Failf("unit %d: got %v %s [%s], want %s %q [%s]", i, gt, fw.Q(data), cssValuesString(p.Values()), w.Grammar, w.Data, wantValuesString(w.Values))
			return
		}
		switch gt {
		case css.AtRuleGrammar, css.BeginAtRuleGrammar, css.BeginRulesetGrammar, css.DeclarationGrammar, css.CustomPropertyGrammar:
			vals := p.Values()
			if w.StripLeadingWS && len(vals) > 0 && vals[0].TokenType == css.WhitespaceToken {
				vals = vals[1:]
			}
			ok := len(vals) == len(w.Values)
			for j := 0; ok && j < len(vals); j++ {
				ok = vals[j].TokenType.String() == w.Values[j].Kind && string(vals[j].Data) == w.Values[j].Text
			}
			if !ok {
				t.Failf("unit %d %v %s: Values() = [%s], the source has [%s]", i, gt, fw.Q(data), cssValuesString(vals), wantValuesString(w.Values))
				return
			}
			t.Count("values.checked", len(vals))
		}
		t.Seen("unit kinds", gt.String())
		t.Count("units", 1)
	}
	if t.Failed() {
		return
	}
	t.Count("sheets", 1)
	if len(want) >= 3 {
		t.Nontrivial(append([]byte(fmt.Sprint(inline)), src...))
	}
	t.Sample(map[string]any{"inline": inline, "src": []byte(src), "units": len(want)})
}

// c08Universal: nesting, depth hook, token conservation and termination on arbitrary bytes.
func c08Universal(t *fw.T) {
	r := t.Rng
	li := langs["css"]
	inline := r.Intn(3) == 0
	var data []byte
	if r.Intn(3) == 0 {
		s, _ := gen.CSSSheet(r, inline)
		data = gen.Mutate(r, []byte(s), li.dict, 1+r.Intn(3))
	} else {
		data = gen.Hostile(r, li.corpus, li.dict, 300)
	}
	t.Desc(&c08Case{Kind: "universal", Inline: inline, Src: data})
	c08CheckUniversal(t, data, inline, gen.Pick(r, inputCtors))
	if len(data) >= 3 {
		t.Nontrivial(append([]byte(fmt.Sprint(inline)), data...))
	}
}

func c08CheckUniversal(t *fw.T, data []byte, inline bool, ctor string) {
	// independent token list of the same input with byte spans
	tts, datas := cssLexAll(data)
	ends := make([]int, len(tts)) // end offset of each token
	off := 0
	for i := range datas {
		off += len(datas[i])
		ends[i] = off
	}
	in, _ := mkInput(t.Rng, data, ctor)
	p := css.NewParser(in, inline)
	var stack []css.GrammarType
	sawParseError := false
	maxCalls := 2*len(tts) + 8
	prevOff := 0
	for calls := 0; calls <= maxCalls; calls++ {
		gt, tt, d := p.Next()
		vals := p.Values()
		curOff := p.Offset()
		if curOff < prevOff || curOff > len(data) {
			t.Failf("Offset() went from %d to %d (input %d bytes)", prevOff, curOff, len(data))
			return
		}
		if gt == css.ErrorGrammar && !p.HasParseError() {
			// the end report
			if err := p.Err(); err != io.EOF {
				t.Failf("stream ended with Err()=%v, want io.EOF", err)
				return
			}
			if !sawParseError && len(stack) != 0 {
				t.Failf("end-of-input reported while %d blocks are open (%v) and no parse error was reported", len(stack), stack)
				return
			}
			for k := 0; k < 3; k++ {
				if g2, _, _ := p.Next(); g2 != css.ErrorGrammar || p.Err() != io.EOF {
					t.Failf("after the end report Next returned %v / %v", g2, p.Err())
					return
				}
			}
			t.Count("universal.ended", 1)
			return
		}
		if gt == css.ErrorGrammar {
			sawParseError = true
			_ = p.Err().Error()
			t.Count("universal.parse_errors", 1)
		}
		// nesting
		switch gt {
		case css.BeginAtRuleGrammar, css.BeginRulesetGrammar:
			stack = append(stack, gt)
		case css.EndAtRuleGrammar, css.EndRulesetGrammar:
			if !sawParseError {
				if len(stack) == 0 {
					t.Failf("%v with no open block", gt)
					return
				}
				top := stack[len(stack)-1]
				if (gt == css.EndAtRuleGrammar) != (top == css.BeginAtRuleGrammar) {
					t.Failf("%v closes a block opened by %v", gt, top)
					return
				}
			}
			if len(stack) > 0 {
				stack = stack[:len(stack)-1]
			}
		}
		if !sawParseError {
			if blocks, _ := p.VerifDepth(); blocks != len(stack) {
				t.Failf("after %v %s: parser state stack has %d open blocks, the unit stream has %d", gt, fw.Q(d), blocks, len(stack))
				return
			}
			t.Count("hook.depth.checks", 1)
		}
		// Token conservation. The tokens a unit reports were consumed by this call, i.e. their source spans lie in
		// (prevOff, curOff]; the '}' reported by an End unit may have been consumed by the declaration before it.
		lo := 0
		for lo < len(tts) && ends[lo]-len(datas[lo]) < prevOff {
			lo++
		}
		if gt == css.EndRulesetGrammar || gt == css.EndAtRuleGrammar || gt == css.ErrorGrammar {
			// the '}' that ended the previous declaration is handed to this call
			k := lo
			for k > 0 && (tts[k-1] == css.WhitespaceToken || tts[k-1] == css.CommentToken) {
				k--
			}
			if k > 0 && tts[k-1] == css.RightBraceToken {
				lo = k - 1
			}
		}
		hi := lo
		for hi < len(tts) && ends[hi] <= curOff {
			hi++
		}
		match := func(mt css.TokenType, md []byte, from int, fold bool) int {
			for k := from; k < hi; k++ {
				if tts[k] == mt && (bytes.Equal(datas[k], md) || fold && bytes.EqualFold(datas[k], md)) {
					return k
				}
			}
			if len(md) > 1 && md[0] == '*' {
				// IE hack: '*' and the following token are reported as one token of the following token's type
				for k1 := from; k1+1 < hi; k1++ {
					if tts[k1] == css.DelimToken && string(datas[k1]) == "*" {
						k2 := k1 + 1
						for k2 < hi && (tts[k2] == css.WhitespaceToken || tts[k2] == css.CommentToken) {
							k2++
						}
						if k2 < hi && tts[k2] == mt && bytes.EqualFold(datas[k2], md[1:]) {
							return k2
						}
					}
				}
			}
			return -1
		}
		window := func() string { return fw.Q(bytes.Join(datas[lo:hi], []byte("|"))) }
		vstart := lo
		if len(d) > 0 && !(gt == css.ErrorGrammar && tt == css.ErrorToken) {
			fold := gt == css.AtRuleGrammar || gt == css.BeginAtRuleGrammar || gt == css.DeclarationGrammar || gt == css.ErrorGrammar
			k := match(tt, d, lo, fold)
			if k < 0 {
				t.Failf("%v data %s(%s) is not among the tokens this call consumed: %s", gt, tt, fw.Q(d), window())
				return
			}
			if gt != css.ErrorGrammar {
				vstart = k + 1
			}
		}
		switch gt {
		case css.AtRuleGrammar, css.BeginAtRuleGrammar, css.BeginRulesetGrammar, css.DeclarationGrammar, css.CustomPropertyGrammar, css.ErrorGrammar:
		default:
			vals = nil // Values() is only defined for the units above (documentation of Parser.Values)
		}
		vcur := vstart
		for vi, v := range vals {
			switch {
			case v.TokenType == css.WhitespaceToken && string(v.Data) == " ":
				// a single-space value stands for >= 1 whitespace or comment token of the source at this place
				found := false
				for k := vcur; k < hi && (tts[k] == css.WhitespaceToken || tts[k] == css.CommentToken); k++ {
					found = true
				}
				if !found && !(gt == css.ErrorGrammar) {
					t.Failf("%v value %d is Whitespace but the source has neither whitespace nor a comment there (tokens consumed: %s)", gt, vi, window())
					return
				}
			case v.TokenType == css.CustomPropertyValueToken:
				k := match(css.ColonToken, []byte(":"), vcur, false)
				if k < 0 {
					t.Failf("custom property value without a colon token in %s", window())
					return
				}
				var cat []byte
				j := k + 1
				for j < hi && len(cat) < len(v.Data) {
					cat = append(cat, datas[j]...)
					j++
				}
				if !bytes.Equal(cat, v.Data) {
					t.Failf("custom property value %s is not the source text after the colon (%s)", fw.Q(v.Data), fw.Q(cat))
					return
				}
				vcur = j
			default:
				k := match(v.TokenType, v.Data, vcur, false)
				if k < 0 {
					t.Failf("%v value %d %s(%s) is not among the remaining tokens this call consumed (source order): %s", gt, vi, v.TokenType, fw.Q(v.Data), window())
					return
				}
				vcur = k + 1
			}
			t.Count("universal.values", 1)
		}
		prevOff = curOff
		t.Count("universal.units", 1)
	}
	t.Failf("no end report within %d calls for %d tokens", maxCalls, len(tts))
}

func maxInt(a, b int) int {
	if a > b {
		return a
	}
	return b
}

var c08Probes = []struct {
	name, src string
	inline    bool
}{
	{"ie-hack-eof-in-ruleset", "a{*", false},
	{"ie-hack-eof-in-fontface", "@font-face{*", false},
	{"ie-hack-eof-inline", "*", true},
	{"unclosed-blocks", "@media x{a{b:c", false},
	{"nested-ruleset", ".p{color:blue;&:hover{color:red} .c{top:0}}", false},
}

func c08Probe(t *fw.T) {
	p := c08Probes[t.Index%len(c08Probes)]
	t.Key("probe:" + p.name)
	t.Desc(&c08Case{Kind: "probe", Inline: p.inline, Src: []byte(p.src)})
	c08CheckUniversal(t, []byte(p.src), p.inline, "string")
	t.Count("probes", 1)
	t.Nontrivial([]byte(p.name))
}

func init() {
	fw.Register(&fw.Prop{
		ID: "C08",
		Rule: "streams: generated well-formed stylesheets and inline declaration lists (at-rules of every block kind incl. vendor prefixes and unknown ones, rulesets, nested rulesets, declarations with !important / functions / IE hacks, custom properties, top-level comments, CDO/CDC; whitespace and comments placed per the statement) " +
			"compared unit by unit (type, lower-cased name, Values()); hostile byte strings under the nesting monitor (shadow stack + state-stack hook), the token-conservation monitor (every reported token matched in source order against an independent css.Lexer run) and the end-report clause. non-trivial = >= 3 units / bytes; distinct by mode+bytes",
		Assume: []string{"whitespace is generated between two non-punctuation tokens (must survive as one token) or next to , : / ! = in values, , > + ~ in top-level selectors, , : and after ( in at-rule preludes, around { } ; (must vanish); positions on which the statement is silent get none",
			"a leading whitespace value between an at-keyword and its prelude is ignored on both sides", "in selectors and preludes comments are only generated together with whitespace or next to punctuation",
			"nested rulesets start with an identifier, '&' or '.'", "after a parse error only token conservation and termination are demanded",
			"an Error unit may report its offending token both as data and as first value"},
		Required: []string{"units", "sheets", "values.checked", "universal.units", "universal.values", "universal.parse_errors", "universal.ended", "hook.depth.checks", "probes"},
		Streams: []fw.Stream{
			{Name: "probes", Quick: len(c08Probes), Thorough: len(c08Probes), Run: c08Probe},
			{Name: "generated", Quick: 300000, Thorough: 48000000, Run: c08Generated},
			{Name: "universal", Quick: 400000, Thorough: 60000000, Run: c08Universal},
		},
	})
}

var _ = parse.NewInputBytes
