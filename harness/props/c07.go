package props

import (
	"bytes"
	"fmt"

	"github.com/tdewolff/parse/v2"
	"github.com/tdewolff/parse/v2/css"

	"vh/fw"
	"vh/gen"
)

// C07 — CSS tokens follow the CSS Syntax Level 3 token grammar; IsIdent / IsURLUnquoted agree with the lexer.

func c07Sequence(t *fw.T) {
	r := t.Rng
	src, want := gen.CSSSequence(r, 1+gen.SmallLen(r, 40))
	ctor := gen.Pick(r, inputCtors)
	t.Desc(map[string]any{"kind": "sequence", "src": []byte(src)})
	in, _ := mkInput(r, []byte(src), ctor)
	l := css.NewLexer(in)
	prev := "^"
	for i := 0; ; i++ {
		tt, data := l.Next()
		if tt == css.ErrorToken {
			if i != len(want) {
				t.Failf("lexer returned %d tokens, %d were written; next expected %s %q", i, len(want), want[i].Kind, want[i].Text)
			}
			break
		}
		if i >= len(want) {
			t.Failf("extra token %v %s after the %d written ones", tt, fw.Q(data), len(want))
			return
		}
		if tt.String() != want[i].Kind || string(data) != want[i].Text {
			ctx := ""
			if i > 0 {
				ctx = fmt.Sprintf(" (after %s %q)", want[i-1].Kind, want[i-1].Text)
			}
			t.Failf("token %d: got %v %s, want %s %q%s", i, tt, fw.Q(data), want[i].Kind, want[i].Text, ctx)
			return
		}
		t.Seen("kinds", want[i].Kind)
		t.Seen("adjacent kind pairs", prev+">"+want[i].Kind)
		prev = want[i].Kind
		t.Count("tokens", 1)
	}
	if t.Failed() {
		return
	}
	t.Count("sequences", 1)
	if len(want) >= 3 {
		t.Nontrivial([]byte(src))
	}
	t.Sample(map[string]any{"src": []byte(src), "tokens": len(want)})
}

// lexAll returns the css tokens of b.
func cssLexAll(b []byte) (tts []css.TokenType, datas [][]byte) {
	l := css.NewLexer(parse.NewInputBytes(append([]byte(nil), b...)))
	for i := 0; i < 4*len(b)+8; i++ {
		tt, d := l.Next()
		if tt == css.ErrorToken {
			break
		}
		tts = append(tts, tt)
		datas = append(datas, d)
	}
	return
}

var c07IdentAlphabet = gen.Words("-", "--", "\\", "\\\n", "0", "9", "a", "Z", "_", "u", "U+", "u+1", "?", "(", ")", "'", "\"", " ", "\t", "\n", "\x00", "\x01", "\x1f", "\x7f", "\x80", "\xc3\xa9", "\xff",
	"\\41 ", "\\000041", "\\g", "url", "/", "*", "%", ".", "+", "@", "#", "!", "e", "1e3", "é")

func c07Agree(t *fw.T) {
	r := t.Rng
	var b []byte
	switch r.Intn(4) {
	case 0:
		b = []byte(gen.CSSIdent(r))
		if r.Intn(2) == 0 {
			b = gen.Mutate(r, b, c07IdentAlphabet, 1)
		}
	case 1:
		b = gen.RawBytes(r, 1+gen.SmallLen(r, 8))
	default:
		for i := 1 + gen.SmallLen(r, 6); i > 0; i-- {
			b = append(b, gen.Pick(r, c07IdentAlphabet)...)
		}
	}
	t.Desc(map[string]any{"kind": "agree", "arg": b})
	if len(b) > 0 {
		got := css.IsIdent(append([]byte(nil), b...))
		tts, datas := cssLexAll(b)
		want := len(tts) == 1 && (tts[0] == css.IdentToken || tts[0] == css.CustomPropertyNameToken) && bytes.Equal(datas[0], b)
		if got != want {
			t.Failf("IsIdent(%s)=%v but lexing it gives %v %s", fw.Q(b), got, tts, fw.Q(bytes.Join(datas, []byte("|"))))
			return
		}
		if got {
			t.Count("isident.true", 1)
		} else {
			t.Count("isident.false", 1)
		}
	}
	// IsURLUnquoted true => url(arg) is one URL token
	u := b
	if r.Intn(2) == 0 {
		u = u[:0]
		for i := gen.SmallLen(r, 8); i > 0; i-- {
			u = append(u, gen.Pick(r, gen.Words("a", "/", ".", ":", "%", "\\)", "\\ ", "\\\n", "\\", " ", "(", ")", "'", "\"", "\t", "\x00", "\x7f", "\x1f", "é", "\xff", "\\41 ", "#", "?", "{", "<"))...)
		}
	}
	t.Desc(map[string]any{"kind": "agree", "arg": b, "urlarg": u})
	if css.IsURLUnquoted(append([]byte(nil), u...)) {
		full := append(append([]byte("url("), u...), ')')
		tts, datas := cssLexAll(full)
		if !(len(tts) == 1 && tts[0] == css.URLToken && bytes.Equal(datas[0], full)) {
			t.Failf("IsURLUnquoted(%s)=true but %s lexes as %v %s", fw.Q(u), fw.Q(full), tts, fw.Q(bytes.Join(datas, []byte("|"))))
			return
		}
		t.Count("isurlunquoted.true", 1)
	} else {
		t.Count("isurlunquoted.false", 1)
	}
	if len(b) >= 2 {
		t.Nontrivial(append(append([]byte{}, b...), u...))
	}
}

var c07Probes = []struct {
	name, src string
	want      []gen.CSSTok
}{
	{"badstring-newline", "\"a\nb", []gen.CSSTok{{"BadString", "\"a\n"}, {"Ident", "b"}}},
	{"badstring-crlf", "\"s\r\nb", []gen.CSSTok{{"BadString", "\"s\r"}, {"Whitespace", "\n"}, {"Ident", "b"}}},
	{"badurl-to-paren", "url(a b)c", []gen.CSSTok{{"BadURL", "url(a b)"}, {"Ident", "c"}}},
	{"url-case", "URL( 'x' )", []gen.CSSTok{{"URL", "URL( 'x' )"}}},
	{"delim-backslash-newline", "\\\na", []gen.CSSTok{{"Delim", "\\"}, {"Whitespace", "\n"}, {"Ident", "a"}}},
	{"unicode-range", "U+4??,u+0-7F", []gen.CSSTok{{"UnicodeRange", "U+4??"}, {"Comma", ","}, {"UnicodeRange", "u+0-7F"}}},
}

func c07Probe(t *fw.T) {
	p := c07Probes[t.Index%len(c07Probes)]
	t.Key("probe:" + p.name)
	t.Desc(map[string]any{"kind": "probe", "src": []byte(p.src)})
	tts, datas := cssLexAll([]byte(p.src))
	if len(tts) != len(p.want) {
		t.Failf("%q: %d tokens, want %d", p.src, len(tts), len(p.want))
		return
	}
	for i := range tts {
		if tts[i].String() != p.want[i].Kind || string(datas[i]) != p.want[i].Text {
			t.Failf("%q token %d: got %v %s want %s %q", p.src, i, tts[i], fw.Q(datas[i]), p.want[i].Kind, p.want[i].Text)
			return
		}
	}
	t.Count("probes", 1)
	t.Nontrivial([]byte(p.name))
}

func init() {
	fw.Register(&fw.Prop{
		ID: "C07",
		Rule: "streams: token sequences of 1-40 tokens drawn from the CSS Syntax token grammar (identifiers with escapes, custom properties, functions, at-keywords, hashes, strings, quoted/unquoted/malformed url(), numbers, percentages, dimensions, unicode ranges, match operators, column, CDO/CDC, punctuation, delimiters, whitespace, comments), " +
			"separated by whitespace or an empty comment wherever two neighbours could merge (conservative predicate), compared with the lexer output; IsIdent/IsURLUnquoted compared with the lexer on byte strings around the syntax boundaries. non-trivial = >= 3 tokens / >= 2 bytes; distinct by bytes",
		Assume: []string{"a BadString token includes the newline that ends it (pinned by the unit tests)", "the identifier url is written with plain letters (any case); escaped spellings of url are not generated",
			"a separator is inserted whenever merging cannot be excluded by the token kinds alone; the statement always allows a separator"},
		Required: []string{"tokens", "sequences", "isident.true", "isident.false", "isurlunquoted.true", "isurlunquoted.false", "probes"},
		Streams: []fw.Stream{
			{Name: "probes", Quick: len(c07Probes), Thorough: len(c07Probes), Run: c07Probe},
			{Name: "sequence", Quick: 400000, Thorough: 60000000, Run: c07Sequence},
			{Name: "agree", Quick: 600000, Thorough: 90000000, Run: c07Agree},
		},
	})
}
