package props

import (
	"bytes"
	"fmt"
	"strings"

	"github.com/tdewolff/parse/v2"
	"github.com/tdewolff/parse/v2/js"

	"vh/fw"
	"vh/gen"
)

// C05 — printing a JS tree and parsing the text again gives the same tree.

type c05Case struct {
	Kind string `json:"kind"`
	Src  fw.B   `json:"src"`
	Opts string `json:"opts"`
	Out  fw.B   `json:"printed,omitempty"`
}

// c05RoundTrip performs the three-step check of the statement for one accepted input.
func c05RoundTrip(t *fw.T, src []byte, o js.Options, indent int) (accepted bool) {
	ast1, err := js.Parse(parse.NewInputBytes(append([]byte(nil), src...)), o)
	if err != nil {
		return false
	}
	var buf bytes.Buffer
	how := "JSString()"
	if indent < 0 {
		buf.WriteString(ast1.JSString())
	} else {
		how = fmt.Sprintf("JS(Indenter %d)", indent)
		ast1.JS(parse.NewIndenter(&buf, indent))
	}
	out1 := append([]byte(nil), buf.Bytes()...)
	jsUngroup(ast1)
	s1 := ast1.String()
	cs := &c05Case{Kind: "roundtrip via " + how, Src: src, Opts: optName(o), Out: out1}
	t.Desc(cs)
	ast2, err := js.Parse(parse.NewInputBytes(append([]byte(nil), out1...)), o)
	if err != nil {
		t.Failf("printed text is rejected (%s, %s): %v", how, optName(o), oneLineErr(err))
		return true
	}
	buf.Reset()
	if indent < 0 {
		buf.WriteString(ast2.JSString())
	} else {
		ast2.JS(parse.NewIndenter(&buf, indent))
	}
	out2 := buf.Bytes()
	jsUngroup(ast2)
	if s2 := ast2.String(); s2 != s1 {
		t.Failf("re-parsed tree differs from the original (%s, %s): %s", how, optName(o), firstDiff(s2, s1))
		return true
	}
	if d := jsTreeDiff(ast2, ast1); d != "" {
		t.Failf("re-parsed tree differs from the original in a field String() does not show (%s, %s): %s (re-parsed versus original)", how, optName(o), d)
		return true
	}
	if !bytes.Equal(out2, out1) {
		t.Failf("printing the re-parsed tree does not reproduce the text (%s, %s): %s", how, optName(o), firstDiff(string(out2), string(out1)))
		return true
	}
	t.Count("roundtrips", 1)
	return true
}

func c05Generated(t *fw.T) {
	r := t.Rng
	o := gen.JSOpts{CtxNames: r.Intn(2) == 0}
	if r.Intn(2) == 0 {
		o.NoModuleItems = true
		o.YieldName = o.CtxNames
	}
	prog := gen.JSProgram(r, o)
	st := gen.JSStyle{Parens: r.Intn(3), Semi: r.Intn(3), WS: r.Intn(3), Seed: r.Int63(), Bang: []int{0, 0, 10, 40}[r.Intn(4)]}
	src, _ := gen.JSSpell(prog, st)
	opts := jsOptions[:2]
	if o.NoModuleItems && !hasKind(prog.Root, "directive") {
		opts = jsOptions
	}
	op := opts[r.Intn(len(opts))]
	indent := -1
	if r.Intn(2) == 0 {
		indent = r.Intn(9)
	}
	if !op.Inline && r.Intn(10) == 0 {
		src = "#!/usr/bin/env node\n" + src
	}
	if st.Bang > 0 {
		t.Count("with.bang.comments", 1)
	}
	t.Desc(&c05Case{Kind: "generated", Src: []byte(src), Opts: optName(op)})
	if !c05RoundTrip(t, []byte(src), op, indent) {
		t.Count("generated.rejected", 1) // a C03 matter, not counted here
		return
	}
	if hasKind(prog.Root, "template", "str", "regex") {
		t.Count("with.literals", 1)
	}
	t.Nontrivial([]byte(src))
	t.Sample(map[string]any{"src": []byte(src), "opts": optName(op), "indent": indent})
}

var c05LiteralSnippets = []string{
	"x = `line1\nline2 ${a}\n  indented`", "x = 'a\\\nb'", "x = 'a\\\r\nb'", "x = \"a\\\rb\"", "x = 'a\\\u2028b'", "class A { f = 'a\\\r\nb' }", "switch (x) { case 'a\\\r\nb': }", "x = \"c\\\n  d\"", "/*! bang\n   comment */", "x = /ab+c[/\\]]/gi", "x = 1..toString()", "x = 1?.k", "x = 1.5?.z", "x = 1e3?.toFixed(2)", "x = 1n?.k", "y = .5?.p", "x = 1.5.toFixed()", "x = 1e3.valueOf()",
	"x = 0x1F.toString()", "x = 1_0 .y", "x = 1n", "x = .5 .z", "x = 5 .w", "x = `a${`b${c}\n`}\n`", "x = a\n/*! second\n\tbang */\ny = b", "x = tag`raw\\n${y}\n`", "x = 10 .toString(2)", "x = 1. + 2", "x = 2 ** -1",
	"x = 'it\\'s' + \"q\\\"\"", "x = a ? `\n` : '\\\n'", "class A { m() { return `x\n${1}\ny` } }", "{ { { x = `deep\nnested` } } }", "if (a) { while (b) { x = 'a\\\nb' } }",
}

func c05Fuzz(t *fw.T) {
	r := t.Rng
	li := langs["js"]
	var src []byte
	switch r.Intn(4) {
	case 0:
		// literal stress at a random block depth
		s := gen.Pick(r, c05LiteralSnippets)
		for d := r.Intn(7); d > 0; d-- {
			s = fmt.Sprintf(gen.Pick(r, []string{"{ %s }", "function f() { %s }", "if (q) { %s }", "for (;;) { %s }", "x = () => { %s }", "class C { m() { %s } }", "try { %s } finally {}"}), s)
		}
		src = []byte(s)
	case 1:
		src = gen.Pick(r, li.corpus)
	default:
		src = gen.ToValidUTF8(hostileInput(r, "js", 400))
	}
	op := jsOptions[r.Intn(4)]
	indent := -1
	if r.Intn(2) == 0 {
		indent = r.Intn(9)
	}
	t.Desc(&c05Case{Kind: "fuzz", Src: src, Opts: optName(op)})
	if !c05RoundTrip(t, src, op, indent) {
		t.Count("fuzz.rejected", 1)
		return
	}
	t.Count("fuzz.accepted", 1)
	if len(src) >= 3 {
		t.Nontrivial(src)
	}
}

var c05Probes = []string{
	"a\n;b", "if(x)a\n;else b", "x=([c]=[0])=>c", "class A{static async\n(a){}}", "class b{static{var b=0;b}}", "x = `a\n  b`", "{ { x = 'a\\\n   b' } }", "for(var [a=b in c]=d;;);", "x=~y", "({[{m(){}}]:c})=>c",
	"x={\"12\":1,'1.5':2,\"0\":3}", "x=()=>({m(){\"use strict\";a}})", "x=()=>{return{m(){\"use strict\"}}}", "for(async in c);",
}

// an expression-bodied arrow function at statement depth 999: the printer writes it with a block body, one statement
// level deeper, which is the parser's limit (recorded known finding)
var c05LimitProbe = strings.Repeat("{", 999) + "x=>y" + strings.Repeat("}", 999)

func init() { c05Probes = append(c05Probes, c05LimitProbe) }

func c05Probe(t *fw.T) {
	src := c05Probes[t.Index%len(c05Probes)]
	t.Key(fmt.Sprintf("probe:%d", t.Index%len(c05Probes)))
	if src == c05LimitProbe {
		t.Key("probe:arrow-at-statement-nesting-limit")
	}
	t.Desc(&c05Case{Kind: "probe", Src: []byte(src)})
	for _, op := range jsOptions[:2] {
		for _, indent := range []int{-1, 0, 4} {
			if !c05RoundTrip(t, []byte(src), op, indent) {
				t.Failf("probe %q is rejected", src)
				return
			}
		}
	}
	t.Count("probes", 1)
	t.Nontrivial([]byte(src))
}

func init() {
	fw.Register(&fw.Prop{
		ID: "C05",
		Rule: "case = one valid-UTF-8 input (a random spelling of a generated ES2022 program; a literal-stress snippet with line continuations, multi-line templates, numeric literals before '.', bang comments wrapped in 0-6 blocks; a corpus entry; a mutated corpus entry) x Options x printing path (JSString or JS through an outer parse.Indenter of width 0-8); " +
			"for every accepted input the printed text must be accepted, its tree must equal the original after removing GroupExpr (compared through String()), and printing it again must reproduce the text byte for byte. non-trivial = accepted input; distinct by bytes",
		Assume:   []string{"tree identity is observed through AST.String() after removing GroupExpr nodes by reflection"},
		Required: []string{"roundtrips", "with.literals", "with.bang.comments", "fuzz.accepted", "probes"},
		Streams: []fw.Stream{
			{Name: "probes", Quick: len(c05Probes), Thorough: len(c05Probes), Run: c05Probe},
			{Name: "generated", Quick: 150000, Thorough: 8000000, Run: c05Generated},
			{Name: "fuzz", Quick: 200000, Thorough: 10000000, Run: c05Fuzz},
		},
	})
}
