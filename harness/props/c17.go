package props

import (
	"bytes"
	"fmt"
	stdhtml "html"
	"regexp"
	"sort"
	"strconv"
	"strings"
	"unicode/utf8"

	"github.com/tdewolff/parse/v2"
	phtml "github.com/tdewolff/parse/v2/html"
	pxml "github.com/tdewolff/parse/v2/xml"

	"vh/fw"
	"vh/gen"
)

// C17 — whitespace, entity and attribute normalisation preserves meaning.
//
// Monitors (all observe the real functions; every reference is independent code):
//   ws    ReplaceMultipleWhitespace(x)            == regexp reference, byte for byte
//   ent   y = ReplaceEntities(x, maps):  len(y) <= len(x);  ReplaceEntities(y) == y;
//         decode(y) == decode(x)  with decode = html.UnescapeString (see c17Decode)
//   comb  ReplaceMultipleWhitespaceAndEntities(x) == ReplaceEntities(ReplaceMultipleWhitespace(x))
//   html  EscapeAttrVal result inside `<a x=` … `>` is lexed by html.Lexer as exactly one attribute whose
//         value is the result; unquoted, it decodes like the original; quoting decision as documented
//   xml   same with xml.EscapeAttrVal / xml.Lexer; EscapeCDATAVal: declined, or un-escapes to the input
//
// The in-place functions get a private copy of the input, half of the time with cap == len so that a
// write past the end is a panic (observable), never a silent overwrite.

// ---- references --------------------------------------------------------------------------------

var c17WSRun = regexp.MustCompile("[ \t\n\f\r]+")

// c17RefWhitespace: every maximal run of space, \t, \n, \f, \r becomes one '\n' if it contains \n or
// \r, else one ' '; nothing else changes.
func c17RefWhitespace(b []byte) []byte {
	return c17WSRun.ReplaceAllFunc(append([]byte(nil), b...), func(m []byte) []byte {
		if bytes.ContainsAny(m, "\n\r") {
			return []byte{'\n'}
		}
		return []byte{' '}
	})
}

// c17Decode is the reference for "the HTML-decoded text": html.UnescapeString, with adjustments
// that only ever make the comparison weaker or repair the reference itself:
//   - numeric references above 0x10FFFF are rewritten to &#xFFFD first. HTML prescribes U+FFFD for
//     them; the standard library accumulates the value in an int32 that wraps for >= 9 hex digits
//     ("&#x100000041;" decodes to "A" there), so without this the reference would be wrong outside
//     the range where it is a faithful HTML decoder;
//   - "&#x;" / "&#X;" (no digits) is literal text in HTML; the standard library takes it for a reference
//     to 0 (its "no characters matched" test misses the hexadecimal form), so it is spelled
//     "&amp;#x;" for the reference;
//   - NUL and U+FFFD are identified afterwards: the statement excepts references to NUL (the library
//     emits the byte 0 for "&#0;", HTML prescribes U+FFFD).
func c17Decode(b []byte) string {
	s := stdhtml.UnescapeString(c17ClampNumeric(b))
	if strings.IndexByte(s, 0) >= 0 {
		s = strings.ReplaceAll(s, "\x00", "\uFFFD")
	}
	return s
}

func c17ClampNumeric(b []byte) string {
	if !bytes.Contains(b, []byte("&#")) {
		return string(b)
	}
	var sb strings.Builder
	for i := 0; i < len(b); {
		if b[i] != '&' || i+2 >= len(b) || b[i+1] != '#' {
			sb.WriteByte(b[i])
			i++
			continue
		}
		j, base := i+2, 10
		if b[j] == 'x' || b[j] == 'X' {
			j, base = j+1, 16
		}
		v, k := 0, j
		for ; k < len(b); k++ {
			d := -1
			switch c := b[k]; {
			case c >= '0' && c <= '9':
				d = int(c - '0')
			case base == 16 && c >= 'a' && c <= 'f':
				d = int(c-'a') + 10
			case base == 16 && c >= 'A' && c <= 'F':
				d = int(c-'A') + 10
			}
			if d < 0 {
				break
			}
			if v <= 0x10FFFF {
				v = v*base + d
			}
		}
		switch {
		case k > j && v > 0x10FFFF:
			sb.WriteString("&#xFFFD")
		case k == j && base == 16 && k < len(b) && b[k] == ';': // "&#x;" has no digits: literal text in HTML
			sb.WriteString("&amp;")
			sb.Write(b[i+1 : k])
		default:
			sb.Write(b[i:k])
		}
		i = k
	}
	return sb.String()
}

// c17DecodeXML is a strict XML un-escaper: the five predefined entities and numeric references, each
// with its ';'. Used next to c17Decode for the xml package (both must agree on input and output).
func c17DecodeXML(b []byte) string {
	var sb strings.Builder
	for i := 0; i < len(b); {
		if b[i] == '&' {
			if e := bytes.IndexByte(b[i:], ';'); e > 1 && e <= 12 {
				name := string(b[i+1 : i+e])
				rep := ""
				switch name {
				case "lt":
					rep = "<"
				case "gt":
					rep = ">"
				case "amp":
					rep = "&"
				case "apos":
					rep = "'"
				case "quot":
					rep = "\""
				default:
					if name[0] == '#' && len(name) > 1 {
						var v uint64
						var err error
						if name[1] == 'x' {
							v, err = strconv.ParseUint(name[2:], 16, 32)
						} else {
							v, err = strconv.ParseUint(name[1:], 10, 32)
						}
						if err == nil && v > 0 && v <= 0x10FFFF && !(v >= 0xD800 && v < 0xE000) {
							rep = string(rune(v))
						}
					}
				}
				if rep != "" {
					sb.WriteString(rep)
					i += e + 1
					continue
				}
			}
		}
		sb.WriteByte(b[i])
		i++
	}
	return sb.String()
}

// ---- case plumbing -----------------------------------------------------------------------------

type c17Case struct {
	Fn     string `json:"fn"`
	In     fw.B   `json:"in"`
	Maps   string `json:"maps,omitempty"`
	Ent    c17Ent `json:"entitiesMap,omitempty"`
	Rev    c17Rev `json:"revEntitiesMap,omitempty"`
	Quote  string `json:"origQuote,omitempty"`
	Must   bool   `json:"mustQuote,omitempty"`
	BufCap int    `json:"bufCap,omitempty"`
	Tight  bool   `json:"tightCap"`
}

// c17Buf returns a private copy of data for an in-place call.
func c17Buf(data []byte, tight bool) []byte {
	if tight {
		b := make([]byte, len(data))
		copy(b, data)
		return b[:len(data):len(data)]
	}
	b := make([]byte, len(data), len(data)+16)
	copy(b, data)
	return b
}

func c17Copy(b []byte) []byte { return append([]byte(nil), b...) }

// ---- monitors ----------------------------------------------------------------------------------

func c17CheckWhitespace(t *fw.T, in []byte, tight bool) {
	t.Desc(&c17Case{Fn: "ReplaceMultipleWhitespace", In: in, Tight: tight})
	want := c17RefWhitespace(in)
	var got []byte
	if p := fw.Guard(func() { got = parse.ReplaceMultipleWhitespace(c17Buf(in, tight)) }); p != "" {
		t.Failf("ReplaceMultipleWhitespace(%s): %s", fw.Q(in), p)
		return
	}
	if !bytes.Equal(got, want) {
		t.Failf("ReplaceMultipleWhitespace(%s) = %s, reference %s", fw.Q(in), fw.Q(got), fw.Q(want))
		return
	}
	t.Count("ws.checked", 1)
	if len(want) < len(in) {
		t.Count("ws.collapsed", 1)
	}
	nl, multi := false, false
	for _, m := range c17WSRun.FindAll(in, -1) {
		nl = nl || bytes.ContainsAny(m, "\n\r")
		multi = multi || len(m) > 1
	}
	if nl {
		t.Count("ws.newline-run", 1)
	}
	if multi && len(want) > 1 { // non-trivial: a run of >= 2 whitespace bytes next to something else
		t.Nontrivial(append([]byte("ws\x00"), in...))
	}
}

var c17BehindShape = regexp.MustCompile(`&[#0-9A-Za-z]*&[#A-Za-z]`)

// c17CheckEntities runs the three clauses of ReplaceEntities and the combined-function clause on one
// input and one pair of maps.
func c17CheckEntities(t *fw.T, in []byte, ent c17Ent, rev c17Rev, maps string, tight bool) {
	cs := &c17Case{Fn: "ReplaceEntities", In: in, Maps: maps, Ent: ent, Rev: rev, Tight: tight}
	if maps == "full" || maps == "full+lt" {
		cs.Ent = nil // the fixed table c17FullEnt, named by Maps
	}
	t.Desc(cs)
	var out []byte
	if p := fw.Guard(func() { out = c17Copy(parse.ReplaceEntities(c17Buf(in, tight), ent, rev)) }); p != "" {
		t.Failf("ReplaceEntities(%s): %s", fw.Q(in), p)
		return
	}
	if len(out) > len(in) {
		t.Failf("ReplaceEntities(%s) = %s: %d bytes, longer than the input (%d)", fw.Q(in), fw.Q(out), len(out), len(in))
		return
	}
	if di, do := c17Decode(in), c17Decode(out); di != do {
		t.Failf("ReplaceEntities(%s) = %s changes the decoded text: %q -> %q", fw.Q(in), fw.Q(out), di, do)
		return
	}
	var again []byte
	if p := fw.Guard(func() { again = parse.ReplaceEntities(c17Buf(out, tight), ent, rev) }); p != "" {
		t.Failf("ReplaceEntities(%s) (second pass over the output of %s): %s", fw.Q(out), fw.Q(in), p)
		return
	}
	if !bytes.Equal(again, out) {
		t.Failf("ReplaceEntities not idempotent: %s -> %s -> %s", fw.Q(in), fw.Q(out), fw.Q(again))
		return
	}
	t.Count("ent.checked", 1)
	rewritten := !bytes.Equal(out, in)
	if rewritten {
		t.Count("ent.rewritten", 1)
		t.Nontrivial(append(append([]byte("ent\x00"+maps+"\x00"), in...), fmt.Sprint(len(ent), len(rev))...))
	}
	if bytes.IndexByte(out, '&') >= 0 {
		t.Count("ent.ampersand-left", 1)
	}
	if c17BehindShape.Match(in) {
		t.Count("ent.fragment-before-reference", 1)
	}

	// combined function == the two in sequence
	cs.Fn = "ReplaceMultipleWhitespaceAndEntities"
	var seq, comb []byte
	if p := fw.Guard(func() {
		seq = c17Copy(parse.ReplaceEntities(parse.ReplaceMultipleWhitespace(c17Buf(in, tight)), ent, rev))
	}); p != "" {
		t.Failf("ReplaceEntities(ReplaceMultipleWhitespace(%s)): %s", fw.Q(in), p)
		return
	}
	if p := fw.Guard(func() { comb = parse.ReplaceMultipleWhitespaceAndEntities(c17Buf(in, tight), ent, rev) }); p != "" {
		t.Failf("ReplaceMultipleWhitespaceAndEntities(%s): %s", fw.Q(in), p)
		return
	}
	if !bytes.Equal(seq, comb) {
		t.Failf("ReplaceMultipleWhitespaceAndEntities(%s) = %s, but ReplaceEntities(ReplaceMultipleWhitespace(x)) = %s", fw.Q(in), fw.Q(comb), fw.Q(seq))
		return
	}
	t.Count("comb.checked", 1)
	if rewritten && len(c17RefWhitespace(in)) < len(in) {
		t.Count("comb.both-kinds", 1)
	}
}

// the bytes that force quoting according to html.EscapeAttrVal's documentation/table: whitespace,
// both quotes, < = > and the backtick.
const c17MustQuoteBytes = "\t\n\f\r \"'<=>`"

// c17LexOneAttr lexes doc with next() and demands: start tag, ONE attribute x whose value is val, close, end.
func c17LexOneAttr(next func() (kind string, data, text, attrVal []byte)) (val []byte, problem string) {
	k, data, _, _ := next()
	if k != "StartTag" || string(data) != "<a" {
		return nil, fmt.Sprintf("first token %s %s, want StartTag <a", k, fw.Q(data))
	}
	k, data, text, av := next()
	if k != "Attribute" || string(text) != "x" {
		return nil, fmt.Sprintf("second token %s %s (name %s), want Attribute x", k, fw.Q(data), fw.Q(text))
	}
	val = c17Copy(av)
	if k, data, _, _ = next(); k != "StartTagClose" || string(data) != ">" {
		return val, fmt.Sprintf("token after the attribute is %s %s, want StartTagClose: the value %s was not read as one attribute", k, fw.Q(data), fw.Q(val))
	}
	if k, data, _, _ = next(); k != "Error" {
		return val, fmt.Sprintf("token after '>' is %s %s, want the end", k, fw.Q(data))
	}
	return val, ""
}

func c17Unquote(v []byte) []byte {
	if len(v) >= 2 && (v[0] == '"' || v[0] == '\'') && v[len(v)-1] == v[0] {
		return v[1 : len(v)-1]
	}
	return v
}

func c17MkBuf(capacity int) []byte {
	if capacity <= 0 {
		return nil
	}
	if capacity%3 == 1 {
		// a scratch buffer that still has a length (the caller keeps an earlier result in it): its content is scratch
		n := 3
		if n > capacity {
			n = capacity
		}
		return append(make([]byte, 0, capacity), "###"[:n]...)
	}
	return make([]byte, 0, capacity)
}

func c17CheckHTMLAttr(t *fw.T, val []byte, origQuote byte, mustQuote bool, bufCap int) {
	oq := ""
	if origQuote != 0 {
		oq = string(rune(origQuote))
	}
	t.Desc(&c17Case{Fn: "html.EscapeAttrVal", In: val, Quote: oq, Must: mustQuote, BufCap: bufCap})
	arg := c17Buf(val, true)
	buf := c17MkBuf(bufCap)
	var out []byte
	if p := fw.Guard(func() { out = c17Copy(phtml.EscapeAttrVal(&buf, arg, origQuote, mustQuote)) }); p != "" {
		t.Failf("html.EscapeAttrVal(%s, %q, %v): %s", fw.Q(val), oq, mustQuote, p)
		return
	}
	fail := func(f string, a ...any) {
		t.Failf("html.EscapeAttrVal(%s, origQuote=%q, mustQuote=%v) = %s: %s", fw.Q(val), oq, mustQuote, fw.Q(out), fmt.Sprintf(f, a...))
	}
	singles, doubles := bytes.Count(val, []byte{'\''}), bytes.Count(val, []byte{'"'})
	needs := bytes.ContainsAny(val, c17MustQuoteBytes)
	// documented decision (doc comment + TestEscapeAttrVal/TestEscapeAttrValXML): unquoted iff nothing
	// in the value needs quotes and quoting is not forced; forcing needs mustQuote AND an original quote.
	wantUnquoted := !needs && (!mustQuote || origQuote == 0)
	if wantUnquoted {
		if !bytes.Equal(out, val) {
			fail("want the value unchanged and unquoted")
			return
		}
		t.Count("html.unquoted", 1)
	} else {
		if len(out) < 2 || (out[0] != '"' && out[0] != '\'') || out[len(out)-1] != out[0] {
			fail("want a quoted value")
			return
		}
		q := out[0]
		nq, nother := singles, doubles
		if q == '"' {
			nq, nother = doubles, singles
		}
		if nq > nother { // "Either single or double quotes are used, whichever is shorter"
			fail("quote %q occurs %d times in the value, the other only %d times: not the shorter choice", q, nq, nother)
			return
		}
		if origQuote != 0 && q != origQuote && bytes.IndexByte(val, origQuote) < 0 {
			fail("the original quote %q needs no escaping but was not kept", origQuote)
			return
		}
		if q == origQuote {
			t.Count("html.quoted.orig-kept", 1)
		} else {
			t.Count("html.quoted.other", 1)
		}
		if nq > 0 {
			t.Count("html.quoted.escaped", 1)
		}
	}
	// read back with the HTML lexer
	doc := append(append([]byte("<a x="), out...), '>')
	var got []byte
	var problem string
	if p := fw.Guard(func() {
		l := phtml.NewLexer(parse.NewInputBytes(doc))
		got, problem = c17LexOneAttr(func() (string, []byte, []byte, []byte) {
			tt, data := l.Next()
			return tt.String(), data, l.Text(), l.AttrVal()
		})
	}); p != "" {
		fail("html.Lexer on %s: %s", fw.Q(doc), p)
		return
	}
	if problem != "" {
		fail("html.Lexer on %s: %s", fw.Q(doc), problem)
		return
	}
	if !bytes.Equal(got, out) {
		fail("html.Lexer reads the attribute value back as %s", fw.Q(got))
		return
	}
	if dv, dg := c17Decode(val), c17Decode(c17Unquote(got)); dv != dg {
		fail("decoded value changed: %q -> %q", dv, dg)
		return
	}
	t.Count("html.checked", 1)
	t.Seen("html.config", fmt.Sprint(oq, mustQuote, needs, singles > doubles, singles == doubles))
	if needs {
		t.Nontrivial(append([]byte("html\x00"+oq+fmt.Sprint(mustQuote)+"\x00"), val...))
	}
}

func c17NormXMLSpace(s string) string {
	return strings.NewReplacer("\t", " ", "\n", " ", "\r", " ").Replace(s)
}

func c17CheckXMLAttr(t *fw.T, val []byte, bufCap int) {
	t.Desc(&c17Case{Fn: "xml.EscapeAttrVal", In: val, BufCap: bufCap})
	buf := c17MkBuf(bufCap)
	var out []byte
	if p := fw.Guard(func() { out = c17Copy(pxml.EscapeAttrVal(&buf, c17Buf(val, true))) }); p != "" {
		t.Failf("xml.EscapeAttrVal(%s): %s", fw.Q(val), p)
		return
	}
	fail := func(f string, a ...any) {
		t.Failf("xml.EscapeAttrVal(%s) = %s: %s", fw.Q(val), fw.Q(out), fmt.Sprintf(f, a...))
	}
	doc := append(append([]byte("<a x="), out...), '>')
	var got []byte
	var problem string
	if p := fw.Guard(func() {
		l := pxml.NewLexer(parse.NewInputBytes(doc))
		got, problem = c17LexOneAttr(func() (string, []byte, []byte, []byte) {
			tt, data := l.Next()
			return tt.String(), data, l.Text(), l.AttrVal()
		})
	}); p != "" {
		fail("xml.Lexer on %s: %s", fw.Q(doc), p)
		return
	}
	if problem != "" {
		fail("xml.Lexer on %s: %s", fw.Q(doc), problem)
		return
	}
	if len(got) != len(out) || len(got) < 2 || (got[0] != '"' && got[0] != '\'') || got[len(got)-1] != got[0] {
		fail("xml.Lexer reads the attribute value back as %s (want one quoted value of the same length)", fw.Q(got))
		return
	}
	// The XML lexer normalises raw \t \n \r inside the value to spaces (XML attribute-value
	// normalisation), so texts are compared modulo that, on both sides, after decoding.
	inner := c17Unquote(got)
	if a, b := c17NormXMLSpace(c17Decode(val)), c17NormXMLSpace(c17Decode(inner)); a != b {
		fail("decoded value changed (HTML decoder): %q -> %q", a, b)
		return
	}
	if a, b := c17NormXMLSpace(c17DecodeXML(val)), c17NormXMLSpace(c17DecodeXML(inner)); a != b {
		fail("decoded value changed (XML decoder): %q -> %q", a, b)
		return
	}
	t.Count("xml.checked", 1)
	if len(out) > len(val)+2 {
		t.Count("xml.escaped", 1)
	}
	if bytes.ContainsAny(val, "'\"") {
		t.Nontrivial(append([]byte("xml\x00"), val...))
	}
}

func c17CheckCDATA(t *fw.T, val []byte, bufCap int) {
	t.Desc(&c17Case{Fn: "xml.EscapeCDATAVal", In: val, BufCap: bufCap})
	buf := c17MkBuf(bufCap)
	var out []byte
	var ok bool
	if p := fw.Guard(func() {
		out, ok = pxml.EscapeCDATAVal(&buf, c17Buf(val, true))
		out = c17Copy(out)
	}); p != "" {
		t.Failf("xml.EscapeCDATAVal(%s): %s", fw.Q(val), p)
		return
	}
	if !ok {
		t.Count("cdata.declined", 1)
		return
	}
	if d := c17DecodeXML(out); d != string(val) {
		t.Failf("xml.EscapeCDATAVal(%s) = %s, true: un-escapes (XML) to %q", fw.Q(val), fw.Q(out), d)
		return
	}
	if d := stdhtml.UnescapeString(string(out)); d != string(val) {
		t.Failf("xml.EscapeCDATAVal(%s) = %s, true: un-escapes (html.UnescapeString) to %q", fw.Q(val), fw.Q(out), d)
		return
	}
	t.Count("cdata.checked", 1)
	if len(out) > len(val) {
		t.Count("cdata.escaped", 1)
		t.Nontrivial(append([]byte("cdata\x00"), val...))
	}
}

// ---- streams -----------------------------------------------------------------------------------

func c17SortedKeys(ent c17Ent, maps string) []string {
	if maps == "full" || maps == "full+lt" {
		return c17FullKeys
	}
	keys := make([]string, 0, len(ent))
	for k := range ent {
		keys = append(keys, k)
	}
	sort.Strings(keys)
	return keys
}

func c17RunWhitespace(t *fw.T) {
	in := c17WhitespaceString(t.Rng)
	tight := t.Rng.Intn(2) == 0
	c17CheckWhitespace(t, in, tight)
	if !t.Failed() && t.Index < 48 {
		t.Sample(map[string]any{"fn": "ReplaceMultipleWhitespace", "in": in})
	}
}

// c17LookBehindShapes: the random entity workload includes an unterminated entity fragment glued in
// front of a replaceable reference (the shape of the repaired defect, DESIGN §5).
const c17LookBehindShapes = true

func c17RunEntities(t *fw.T) {
	r := t.Rng
	ent, rev, maps := c17GenMaps(r)
	in := c17EntityString(r, ent, c17SortedKeys(ent, maps), c17LookBehindShapes)
	tight := r.Intn(2) == 0
	c17CheckEntities(t, in, ent, rev, maps, tight)
	if !t.Failed() {
		c17CheckWhitespace(t, in, tight) // entity strings are whitespace inputs too
	}
	if !t.Failed() && t.Index < 48 {
		t.Sample(map[string]any{"fn": "ReplaceEntities", "in": in, "maps": maps})
	}
}

func c17RunAttr(t *fw.T) {
	r := t.Rng
	val := c17AttrValue(r)
	if !utf8.Valid(val) {
		t.Count("attr.invalid-utf8", 1)
	}
	// scratch buffer capacities around the needed size exercise the reallocation branch
	need := len(val) + 2 + 4*(bytes.Count(val, []byte{'"'})+bytes.Count(val, []byte{'\''}))
	caps := []int{0, 1, len(val), len(val) + 1, len(val) + 2, need - 1, need, need + 64}
	for _, oq := range []byte{0, '\'', '"'} {
		for _, must := range []bool{false, true} {
			c17CheckHTMLAttr(t, val, oq, must, gen.Pick(r, caps))
			if t.Failed() {
				return
			}
		}
	}
	c17CheckXMLAttr(t, val, gen.Pick(r, caps))
	if t.Failed() {
		return
	}
	// CDATA text: the attribute value generator plus a dose of '<' and '&'
	cd := val
	if r.Intn(2) == 0 {
		cd = bytes.ReplaceAll(cd, []byte("a"), []byte(gen.Pick(r, []string{"<", "&", "]]", "a"})))
	}
	c17CheckCDATA(t, cd, gen.Pick(r, []int{0, 1, len(cd), len(cd) + 3, len(cd) + 12, len(cd) + 64}))
	if !t.Failed() && t.Index < 48 {
		t.Sample(map[string]any{"fn": "EscapeAttrVal", "in": val})
	}
}

// Fixed regression probes: the defects of the pinned tree (DESIGN §5 and the overflow found by this
// check) and the documented behaviour the unit tests pin.
var c17Probes = []struct {
	name, kind, in string
}{
	// a replacement byte completes the unterminated reference in front of it
	{"lookbehind-hex-prefix", "ent", "&#x&#x41;"},
	{"lookbehind-named-prefix", "ent", "&am&#112;;"},
	{"lookbehind-amp-then-hash", "ent", "&amp;&#35;65"},
	{"lookbehind-semicolon-not-idempotent", "ent", "&nbsp&#59;&#59;"},
	{"lookbehind-legacy-without-semicolon", "ent", "&am&#112; x"},
	{"lookbehind-decimal-digit", "ent", "&#6&#53; x"},
	{"lookbehind-named-hash", "ent", "&&num;65;"},
	{"lookbehind-hex-x", "ent", "&#&#120;41;"},
	{"lookbehind-long-zero-run", "ent", "&#" + strings.Repeat("0", 45) + "&#54;5;"},
	{"lookbehind-after-whitespace-run", "ent", "a  &am&#112;;  b"},
	// the hexadecimal accumulator wraps
	{"hex-overflow-64bit-minus-one", "ent", "&#xFFFFFFFFFFFFFFFF;"},
	{"hex-overflow-64bit-wraps-to-A", "ent", "&#x10000000000000041;"},
	{"hex-overflow-wraps-to-amp", "ent", "&#x10000000000000026;lt;"},
	{"hex-without-digits-is-text", "ent", "a&#x; &#X; &#; &#x;lt; b"},
	// documented behaviour (unit tests)
	{"doc-amp-lookahead", "ent", "&amp;amp; &amp;#34; &amp;parameterize &amp; x"},
	{"doc-numeric", "ent", "&#34;&#039;&#x0022;&#x27;&#160;&#x23e7;&#x270F;&#x2710;&#34&#x22&apos"},
	{"doc-named", "ent", "&varphi;&varpi;&varnone;&apos;&quot;"},
	{"doc-combined", "ent", "  &varphi;  &#34; \n "},
	{"ws-leading", "ws", "   a"},
	{"ws-newline-in-run", "ws", "a \r b\t\f c \n"},
	{"ws-only", "ws", " \t\n"},
	{"ws-single-cr", "ws", "a\rb\tc\fd"},
	{"attr-both-quotes", "attr", `a'b=""`},
	{"attr-tie", "attr", `'x"`},
	{"attr-plain", "attr", `xyz`},
	{"attr-empty", "attr", ``},
	{"attr-slash", "attr", `x/`},
	{"attr-entity-fragment-before-quote", "attr", `&#3"4;'`},
	{"cdata-threshold", "cdata", "<<<&"},
	{"cdata-over-threshold", "cdata", "<<<<<"},
	{"cdata-escaped-entity", "cdata", " a ]]&gt; b "},
}

func c17RunProbes(t *fw.T) {
	p := c17Probes[t.Index%len(c17Probes)]
	t.Key("probe:" + p.name)
	in := []byte(p.in)
	switch p.kind {
	case "ent":
		ent, rev := c17TestMaps()
		for _, tight := range []bool{true, false} {
			c17CheckEntities(t, in, ent, rev, "unittest", tight)
			c17CheckEntities(t, in, c17FullEnt, c17Rev{'<': []byte("&lt;")}, "full+lt", tight)
			c17CheckEntities(t, in, c17Ent{"amp": []byte("&"), "num": []byte("#"), "semi": []byte(";")}, nil, "amp-num-semi", tight)
		}
	case "ws":
		c17CheckWhitespace(t, in, true)
		c17CheckWhitespace(t, in, false)
	case "attr":
		for _, oq := range []byte{0, '\'', '"'} {
			for _, must := range []bool{false, true} {
				c17CheckHTMLAttr(t, in, oq, must, 0)
				c17CheckHTMLAttr(t, in, oq, must, 64)
			}
		}
		c17CheckXMLAttr(t, in, 0)
	case "cdata":
		c17CheckCDATA(t, in, 0)
		c17CheckCDATA(t, in, 64)
	}
	if !t.Failed() {
		t.Count("probes", 1)
		t.Nontrivial([]byte(p.name))
	}
}

func init() {
	fw.Register(&fw.Prop{
		ID: "C17",
		Rule: "ws: byte strings of whitespace runs (space, \\t, \\n, \\f, \\r; lengths 1-40) between text, compared byte for byte with a regexp reference; " +
			"ent: byte strings assembled from entity fragments (&, &#, &#x, digits, names of an embedded table of HTML entities with/without ';', numeric references " +
			"incl. out-of-range and overflowing ones, escaped ampersands followed by entity-looking text, unterminated fragments glued in front of replaceable references), " +
			"whitespace and text x a pair of entity maps (nil, the unit-test maps, a full shortest-form table, random consistent maps): output not longer, idempotent, " +
			"html.UnescapeString(output) == html.UnescapeString(input), combined function == the two in sequence; " +
			"attr: attribute values without NUL x origQuote in {0,',\"} x mustQuote x scratch capacity: result read back by the html/xml lexer inside <a x=…>; " +
			"non-trivial = ws: a run of >= 2 whitespace bytes next to other bytes; ent: the output differs from the input; attr: the value contains a byte that forces quoting (html) / a quote (xml) / an escaped byte (cdata)",
		Assume: []string{
			"entity maps are consistent with HTML and in normal form: entitiesMap[name] decodes like &name;, is at most len(name)+2 bytes and is not rewritten again by the same maps (raw text, decimal reference >= 128, or a named reference that is not a key); revEntitiesMap[c] is a reference to c that is no longer than any reference the library resolves to c and is itself a fixed point — as the unit tests and the HTML minifier build them; without normal form idempotence is unachievable",
			"decoded text = html.UnescapeString, after rewriting numeric references above 0x10FFFF to U+FFFD (HTML; the standard library's int32 accumulator wraps there) and with NUL identified with U+FFFD (statement: references to NUL excepted)",
			"html.EscapeAttrVal, documented decision: unquoted iff the value has no byte of {\\t \\n \\f \\r space \" ' < = > `} and not (mustQuote and origQuote != 0) (TestEscapeAttrValXML pins mustQuote with origQuote 0 -> unquoted); quoted: the chosen quote occurs no more often in the value than the other one; the original quote is kept whenever it does not occur in the value; ties otherwise unconstrained",
			"xml: decoded texts are compared modulo the XML lexer's attribute-value normalisation (raw \\t \\n \\r -> space), applied to both sides after decoding; both html.UnescapeString and a strict XML un-escaper must agree",
			"xml.EscapeCDATAVal: nothing is demanded when it declines (returns false)",
		},
		Required: []string{"probes", "ws.checked", "ws.collapsed", "ws.newline-run", "ent.checked", "ent.rewritten", "ent.ampersand-left",
			"ent.fragment-before-reference", "comb.checked", "comb.both-kinds", "html.checked", "html.unquoted", "html.quoted.orig-kept",
			"html.quoted.other", "html.quoted.escaped", "xml.checked", "xml.escaped", "cdata.checked", "cdata.escaped", "cdata.declined"},
		Streams: []fw.Stream{
			{Name: "probes", Quick: len(c17Probes), Thorough: len(c17Probes), Run: c17RunProbes},
			{Name: "whitespace", Quick: 300000, Thorough: 30000000, Run: c17RunWhitespace, MinNontrivial: 1000},
			{Name: "entities", Quick: 600000, Thorough: 75000000, Run: c17RunEntities, MinNontrivial: 1000},
			{Name: "attr", Quick: 150000, Thorough: 15000000, Run: c17RunAttr, MinNontrivial: 1000},
		},
	})
}
