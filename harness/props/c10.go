package props

import (
	"bytes"
	stdjson "encoding/json"
	"fmt"
	"io"
	"strings"

	"github.com/tdewolff/parse/v2"
	"github.com/tdewolff/parse/v2/json"

	"vh/fw"
	"vh/gen"
)

// C10 — JSON parser: accepts every valid document and reproduces it; nesting/State() on every input;
// listed structural errors are reported as parse errors instead of units.

type c10Case struct {
	Kind     string `json:"kind"`
	Doc      fw.B   `json:"doc"`
	Mutation string `json:"mutation,omitempty"`
	Offender int    `json:"offendingOffset,omitempty"`
}

type jsonUnit struct {
	gt   json.GrammarType
	data []byte
	end  int // cursor offset after the call
}

// c10Drive runs the parser to its terminal report under the nesting/State monitor. It returns the units
// before the first error report, the error of that report and the re-joined document.
func c10Drive(t *fw.T, doc []byte, ctor string) (units []jsonUnit, firstErr error, joined []byte, ok bool) {
	in, _ := mkInput(t.Rng, doc, ctor)
	p := json.NewParser(in)
	type frame struct {
		obj      bool
		elems    int
		afterKey bool
	}
	var stack []frame
	expectState := func() json.State {
		if len(stack) == 0 {
			return json.ValueState
		}
		top := stack[len(stack)-1]
		if !top.obj {
			return json.ArrayState
		}
		if top.afterKey {
			return json.ObjectValueState
		}
		return json.ObjectKeyState
	}
	sawError := false
	maxCalls := 4*len(doc) + 64
	sticky := 0
	if st := p.State(); st != json.ValueState {
		t.Failf("initial State()=%v", st)
		return nil, nil, nil, false
	}
	for calls := 0; calls < maxCalls; calls++ {
		before := in.Offset()
		stBefore := p.State()
		gt, data := p.Next()
		t.Count("units", 1)
		if gt == json.ErrorGrammar {
			if !sawError {
				firstErr = p.Err()
				sawError = true
				// State() describes the innermost open container also right after the error report
				if st := p.State(); len(stack) > 0 && in.Offset() == before {
					top := stack[len(stack)-1]
					if top.obj != (st == json.ObjectKeyState || st == json.ObjectValueState) || !top.obj && st != json.ArrayState {
						t.Failf("after the error report State()=%v while the innermost open container is %s", st, map[bool]string{true: "an object", false: "an array"}[top.obj])
						return nil, nil, nil, false
					}
				} else if len(stack) == 0 && in.Offset() == before && st != json.ValueState {
					t.Failf("after the error report State()=%v with no container open", st)
					return nil, nil, nil, false
				}
			}
			if in.Offset() == before {
				sticky++
				if sticky >= 3 {
					break
				}
			}
			continue
		}
		sticky = 0
		t.Seen("unit kinds", gt.String())
		// value bookkeeping on the shadow stack
		val := func() {
			if len(stack) > 0 {
				top := &stack[len(stack)-1]
				top.elems++
				top.afterKey = false
			}
		}
		sep := func() {
			if sawError {
				return
			}
			if len(stack) > 0 {
				top := &stack[len(stack)-1]
				if top.obj && top.afterKey {
					return // value after "key":
				}
				if top.elems > 0 {
					joined = append(joined, ',')
				}
			}
		}
		switch gt {
		case json.StartObjectGrammar, json.StartArrayGrammar:
			sep()
			stack = append(stack, frame{obj: gt == json.StartObjectGrammar})
		case json.EndObjectGrammar, json.EndArrayGrammar:
			if len(stack) == 0 {
				t.Failf("%v produced with no open container (offset %d)", gt, in.Offset())
				return nil, nil, nil, false
			}
			if top := stack[len(stack)-1]; top.obj != (gt == json.EndObjectGrammar) {
				t.Failf("%v closes a container of the other type (offset %d)", gt, in.Offset())
				return nil, nil, nil, false
			}
			stack = stack[:len(stack)-1]
			val()
		case json.StringGrammar, json.NumberGrammar, json.LiteralGrammar:
			if stBefore == json.ObjectKeyState && !sawError {
				if gt != json.StringGrammar {
					t.Failf("%v %s returned in object-key position", gt, fw.Q(data))
					return nil, nil, nil, false
				}
			}
			if len(stack) > 0 && stack[len(stack)-1].obj && !stack[len(stack)-1].afterKey {
				// a key
				sep()
				stack[len(stack)-1].afterKey = true
				stack[len(stack)-1].elems++
				if !sawError {
					joined = append(append(joined, data...), ':')
					units = append(units, jsonUnit{gt, data, in.Offset()})
				}
				goto stateCheck
			}
			sep()
			val()
		default:
			t.Failf("unexpected grammar type %v", gt)
			return nil, nil, nil, false
		}
		if !sawError {
			joined = append(joined, data...)
			units = append(units, jsonUnit{gt, data, in.Offset()})
		}
	stateCheck:
		// State() and the hooked depth describe the innermost open container. After an error report the
		// parser's own bookkeeping may legitimately be mid-member (e.g. a key whose colon is missing), so the
		// exact state is only demanded while no error was reported; matching of Start/End is always demanded.
		if !sawError {
			if got, want := p.State(), expectState(); got != want {
				t.Failf("after %v %s: State()=%v, innermost open container implies %v", gt, fw.Q(data), got, want)
				return nil, nil, nil, false
			}
			if d := p.VerifDepth(); d != len(stack) {
				t.Failf("after %v: parser tracks %d open containers, the unit stream has %d", gt, d, len(stack))
				return nil, nil, nil, false
			}
			t.Count("hook.depth.checks", 1)
		}
	}
	if sticky < 3 {
		t.Failf("no terminal report within %d calls", maxCalls)
		return nil, nil, nil, false
	}
	return units, firstErr, joined, true
}

func c10Valid(t *fw.T) {
	r := t.Rng
	toks := gen.JSONDoc(r, 12)
	doc, _ := gen.JSONSpell(toks, gen.Pick(r, []string{"", "", " ", "\n"}))
	ctor := gen.Pick(r, inputCtors)
	t.Desc(&c10Case{Kind: "generated-valid", Doc: doc})
	if !stdjson.Valid(doc) {
		t.Count("generator.invalid", 1) // generator bug guard: never counted as a library violation
		return
	}
	c10CheckValid(t, doc, ctor)
	if len(toks) >= 3 {
		t.Nontrivial(doc)
	}
	t.Sample(map[string]any{"doc": doc})
}

func c10CheckValid(t *fw.T, doc []byte, ctor string) {
	_, err, joined, ok := c10Drive(t, doc, ctor)
	if !ok {
		return
	}
	if err != io.EOF {
		t.Failf("valid document rejected: %v", oneLineErrAny(err))
		return
	}
	var want bytes.Buffer
	if e := stdjson.Compact(&want, doc); e != nil {
		return
	}
	if !bytes.Equal(joined, want.Bytes()) {
		t.Failf("re-joined units %s differ from the compacted document %s", fw.Q(joined), fw.Q(want.Bytes()))
		return
	}
	t.Count("valid.docs", 1)
}

func oneLineErrAny(err error) string {
	if err == nil {
		return "<nil>"
	}
	return oneLineErr(err)
}

func c10Fuzz(t *fw.T) {
	r := t.Rng
	li := langs["json"]
	var doc []byte
	if r.Intn(2) == 0 {
		toks := gen.JSONDoc(r, 6)
		d, _ := gen.JSONSpell(toks, "")
		doc = gen.Mutate(r, d, li.dict, 1+r.Intn(3))
	} else {
		doc = gen.Hostile(r, li.corpus, li.dict, 300)
	}
	ctor := gen.Pick(r, inputCtors)
	t.Desc(&c10Case{Kind: "fuzz", Doc: doc})
	if stdjson.Valid(doc) {
		c10CheckValid(t, doc, ctor)
		t.Count("fuzz.valid", 1)
	} else {
		c10Drive(t, doc, ctor)
		t.Count("fuzz.invalid", 1)
	}
	if len(doc) >= 3 {
		t.Nontrivial(doc)
	}
}

// c10Mutant: one listed structural error injected into a valid document.
func c10Mutant(t *fw.T) {
	r := t.Rng
	toks := gen.JSONDoc(r, 8)
	var cand []int
	names := []string{"mismatched-closer", "extra-closer", "missing-comma", "missing-colon", "non-string-key"}
	// choose among the mutation kinds this document offers a site for
	has := map[byte]bool{}
	for _, tk := range toks {
		has[tk.Kind] = true
	}
	kinds := []int{1}
	if has['}'] || has[']'] {
		kinds = append(kinds, 0)
	}
	if has[','] {
		kinds = append(kinds, 2, 2)
	}
	if has[':'] {
		kinds = append(kinds, 3, 3, 4, 4)
	}
	kind := kinds[r.Intn(len(kinds))]
	switch kind {
	case 0:
		for i, tk := range toks {
			if tk.Kind == '}' || tk.Kind == ']' {
				cand = append(cand, i)
			}
		}
	case 1:
		for i := 0; i <= len(toks); i++ {
			// not between a key and its colon / colon and value start is fine too: any position
			cand = append(cand, i)
		}
	case 2:
		for i, tk := range toks {
			if tk.Kind == ',' {
				cand = append(cand, i)
			}
		}
	case 3:
		for i, tk := range toks {
			if tk.Kind == ':' {
				cand = append(cand, i)
			}
		}
	case 4:
		for i, tk := range toks {
			if tk.Kind == 'k' {
				cand = append(cand, i)
			}
		}
	}
	if len(cand) == 0 {
		t.Count("mutant.skipped", 1)
		return
	}
	i := cand[r.Intn(len(cand))]
	mut := append([]gen.JSONTok(nil), toks...)
	offIdx := i // index (in mut) of the offending token
	switch kind {
	case 0:
		if mut[i].Kind == '}' {
			mut[i].Kind, mut[i].Text = ']', "]"
		} else {
			mut[i].Kind, mut[i].Text = '}', "}"
		}
	case 1:
		// innermost open container at position i
		var open []byte
		for _, tk := range toks[:i] {
			switch tk.Kind {
			case '{', '[':
				open = append(open, tk.Kind)
			case '}', ']':
				open = open[:len(open)-1]
			}
		}
		closer := gen.Pick(r, []string{"]", "}"})
		if len(open) > 0 {
			if open[len(open)-1] == '[' {
				closer = "}"
			} else {
				closer = "]"
			}
		}
		ins := gen.JSONTok{Kind: closer[0], Text: closer, Pre: gen.Pick(r, []string{"", " "})}
		mut = append(mut[:i:i], append([]gen.JSONTok{ins}, mut[i:]...)...)
	case 2:
		mut = append(mut[:i:i], mut[i+1:]...)
		if mut[i].Pre == "" {
			mut[i].Pre = " " // keep the two values apart
		}
	case 3:
		if r.Intn(3) == 0 {
			// the document stops behind the key (optionally followed by whitespace): the colon is missing all the same
			mut = mut[:i:i]
			if r.Intn(2) == 0 {
				mut = append(mut, gen.JSONTok{Kind: ' ', Text: "", Pre: gen.Pick(r, []string{" ", "\n", " \t"})})
			}
			t.Count("mutant.missing-colon.at-end", 1)
		} else {
			mut = append(mut[:i:i], mut[i+1:]...)
			if mut[i].Pre == "" {
				mut[i].Pre = " "
			}
		}
		offIdx = i - 1 // the key itself must not be delivered
	case 4:
		rep := gen.Pick(r, []string{"1", "-2.5", "true", "null", "[]", "{}", "[1]"})
		mut[i].Text = rep
	}
	doc, offs := gen.JSONSpell(mut, "")
	offender := offs[offIdx]
	t.Desc(&c10Case{Kind: "mutant", Doc: doc, Mutation: names[kind], Offender: offender})
	if stdjson.Valid(doc) {
		t.Count("mutant.still_valid", 1)
		return
	}
	units, err, _, ok := c10Drive(t, doc, gen.Pick(r, inputCtors))
	if !ok {
		return
	}
	if _, isParseErr := err.(*parse.Error); !isParseErr {
		t.Failf("%s at offset %d: parser ended with %v instead of a parse error", names[kind], offender, oneLineErrAny(err))
		return
	}
	for _, u := range units {
		if u.end > offender {
			t.Failf("%s at offset %d: unit %v %s (ending at %d) was delivered before the error", names[kind], offender, u.gt, fw.Q(u.data), u.end)
			return
		}
	}
	t.Count("mutant."+names[kind], 1)
	t.Nontrivial(append([]byte(names[kind]), doc...))
	t.Sample(map[string]any{"mutation": names[kind], "doc": doc, "offendingOffset": offender})
}

var c10Probes = []struct{ name, doc string }{
	{"array-as-key", "{[]}"},
	{"object-as-key", "{{}:1}"},
	{"array-as-second-key", `{"a":1,[2]:3}`},
	{"number-as-key", "{1:2}"},
}

// deeply nested valid documents (encoding/json accepts up to 10000 levels): nesting depth is not part of validity
var c10DeepProbes = func() []struct{ name, doc string } {
	var out []struct{ name, doc string }
	for _, d := range []int{1025, 3000, 9999} {
		out = append(out,
			struct{ name, doc string }{fmt.Sprintf("deep-arrays-%d", d), strings.Repeat("[", d) + "1" + strings.Repeat("]", d)},
			struct{ name, doc string }{fmt.Sprintf("deep-objects-%d", d), strings.Repeat(`{"a":`, d) + "null" + strings.Repeat("}", d)},
			struct{ name, doc string }{fmt.Sprintf("deep-mixed-%d", d), strings.Repeat(`[{"k":[`, d/3) + `"v"` + strings.Repeat(`]}]`, d/3)})
	}
	return out
}()

func c10Probe(t *fw.T) {
	if i := t.Index % (len(c10Probes) + len(c10DeepProbes)); i >= len(c10Probes) {
		p := c10DeepProbes[i-len(c10Probes)]
		t.Key("probe:" + p.name)
		t.Desc(&c10Case{Kind: "probe", Doc: []byte(p.name)})
		if !stdjson.Valid([]byte(p.doc)) {
			return
		}
		c10CheckValid(t, []byte(p.doc), "tight")
		t.Count("probes", 1)
		t.Nontrivial([]byte(p.name))
		return
	}
	p := c10Probes[t.Index%(len(c10Probes)+len(c10DeepProbes))]
	t.Key("probe:" + p.name)
	t.Desc(&c10Case{Kind: "probe", Doc: []byte(p.doc)})
	units, err, _, ok := c10Drive(t, []byte(p.doc), "string")
	if !ok {
		return
	}
	if _, isParseErr := err.(*parse.Error); !isParseErr {
		t.Failf("%s: parser ended with %v instead of a parse error", p.doc, oneLineErrAny(err))
		return
	}
	for _, u := range units {
		if u.gt != json.StartObjectGrammar && !(p.name == "array-as-second-key" && u.end <= 6) {
			t.Failf("%s: unit %v %s delivered before the error", p.doc, u.gt, fw.Q(u.data))
			return
		}
	}
	t.Count("probes", 1)
	t.Nontrivial([]byte(p.name))
}

func init() {
	fw.Register(&fw.Prop{
		ID: "C10",
		Rule: "streams: generated valid documents (nesting <= 12, all escape and number forms, whitespace at every structural position) checked against encoding/json.Valid/Compact; " +
			"mutational fuzz with json.Valid as the filter for the differential clause and the nesting/State()/depth-hook monitor on everything; five kinds of structural mutants of valid documents. " +
			"non-trivial = document of >= 3 tokens / bytes; distinct by bytes",
		Assume: []string{"encoding/json.Valid is the definition of a valid document", "after an error report only matching of Start/End units is demanded, not the exact State()",
			"a structural mutant is 'reported instead of delivered' when the first error report is a *parse.Error and no unit ending beyond the offending token precedes it"},
		Required: []string{"units", "valid.docs", "fuzz.valid", "fuzz.invalid", "hook.depth.checks", "mutant.mismatched-closer", "mutant.extra-closer", "mutant.missing-comma", "mutant.missing-colon", "mutant.non-string-key", "probes"},
		Streams: []fw.Stream{
			{Name: "probes", Quick: len(c10Probes) + len(c10DeepProbes), Thorough: len(c10Probes) + len(c10DeepProbes), Run: c10Probe},
			{Name: "valid", Quick: 300000, Thorough: 48000000, Run: c10Valid},
			{Name: "fuzz", Quick: 300000, Thorough: 48000000, Run: c10Fuzz},
			{Name: "mutant", Quick: 300000, Thorough: 48000000, Run: c10Mutant},
		},
	})
}

var _ = fmt.Sprint
