package props

import (
	"math"
	"strings"

	"vh/fw"
)

// Fixed regression probes of C14: one per defect seen on the pinned tree (DESIGN §5 and those the
// random streams found), evaluated by the same oracles as the random cases.

type c14Probe struct {
	name string
	run  func(m *c14Mon) bool
}

var c14Probes = []c14Probe{
	// AppendDecimal lost the sign when the number has fewer digits than decimals
	{"appenddecimal-sign-neg-fraction", func(m *c14Mon) bool { return m.evalAppendDecimal(-0.096, 6, "") }},
	{"appenddecimal-sign-neg-small", func(m *c14Mon) bool { return m.evalAppendDecimal(-0.001, 3, "") }},
	{"appenddecimal-neg-half", func(m *c14Mon) bool { return m.evalAppendDecimal(-0.5, 1, "") }},
	{"appenddecimal-tie-0.125", func(m *c14Mon) bool { f, w := c14Tie(1, 2, false); return m.evalAppendDecimal(f, 2, w) }},
	{"appenddecimal-tie-neg-2.5", func(m *c14Mon) bool { f, w := c14Tie(5, 0, true); return m.evalAppendDecimal(f, 0, w) }},
	// AppendNumber size computation with multi-byte symbols
	{"appendnumber-2byte-group", func(m *c14Mon) bool { return m.evalNumber(1234567, 0, 3, 0xa0, ',') }},
	{"appendnumber-3byte-group-dec", func(m *c14Mon) bool { return m.evalNumber(-1234567890, 2, 3, 0x202f, 0x66b) }},
	{"appendnumber-4byte-group-size1", func(m *c14Mon) bool { return m.evalNumber(math.MinInt64, 0, 1, 0x1f600, '.') }},
	{"appendnumber-2byte-group-size2", func(m *c14Mon) bool { return m.evalNumber(12345, 0, 2, 0xb7, ',') }},
	// AppendFloat below 1e-291: math.Pow10 argument beyond 308
	{"appendfloat-1e-292", func(m *c14Mon) bool { return m.evalAppendFloat(1e-292, -1) }},
	{"appendfloat-neg-1e-302", func(m *c14Mon) bool { return m.evalAppendFloat(-1.5e-302, 17) }},
	{"appendfloat-subnormal", func(m *c14Mon) bool { return m.evalAppendFloat(4.9406564584124654e-321, 6) }},
	{"appendfloat-smallest", func(m *c14Mon) bool { return m.evalAppendFloat(math.SmallestNonzeroFloat64, -1) }},
	{"appendfloat-subnormal-6-digits", func(m *c14Mon) bool { return m.evalAppendFloat(-4.94e-321, 6) }},
	// AppendFloat wrote "00" for e2 behind a fraction: "1.200"
	{"appendfloat-zeros-behind-fraction", func(m *c14Mon) bool { return m.evalAppendFloat(123.456, 1) && m.evalAppendFloat(-999, 2) }},
	{"appendfloat-maxfloat", func(m *c14Mon) bool { return m.evalAppendFloat(math.MaxFloat64, -1) }},
	// ParseFloat: subnormal / zero / infinite math.Pow10 factors
	{"parsefloat-pow10-subnormal-factor", func(m *c14Mon) bool { return m.evalParse([]byte("1234567890123456789e-310")) }},
	{"parsefloat-e-322", func(m *c14Mon) bool {
		return m.evalParse([]byte("4410.98E-322")) && m.evalParse([]byte("-9223372036854775804e-322"))
	}},
	{"parsefloat-window-1e-297", func(m *c14Mon) bool { return m.evalParse([]byte("+555417684739476092.691951087545357531567e-314")) }},
	{"parsefloat-nan", func(m *c14Mon) bool {
		return m.evalParse([]byte("." + strings.Repeat("0", 330) + "13193345767930481628E632"))
	}},
	// ParseFloat: exponent beyond int64
	{"parsefloat-exponent-overflow", func(m *c14Mon) bool {
		return m.evalParse([]byte("1e99999999999999999999")) && m.evalParse([]byte("0.1e-9223372036854775808")) && m.evalParse([]byte("-5e-99999999999999999999x"))
	}},
	{"parsedecimal-subnormal", func(m *c14Mon) bool {
		return m.evalParse([]byte("0." + strings.Repeat("0", 320) + "123456789012345678"))
	}},
	{"parsedecimal-long-fraction", func(m *c14Mon) bool {
		return m.evalParse([]byte("0." + strings.Repeat("0", 300) + "123456789012345678"))
	}},
	{"parseint-limits", func(m *c14Mon) bool {
		return m.evalParse([]byte("-9223372036854775808")) && m.evalParse([]byte("9223372036854775808")) && m.evalParse([]byte("18446744073709551616"))
	}},
	{"appendint-limits", func(m *c14Mon) bool { return m.evalInt(math.MinInt64) && m.evalInt(math.MaxInt64) && m.evalInt(-10) }},
}

func c14RunProbe(t *fw.T) {
	p := c14Probes[t.Index%len(c14Probes)]
	t.Key("probe:" + p.name)
	m := newC14Mon(t)
	defer m.flush()
	if p.run(m) {
		t.Count("probes", 1)
		t.Nontrivial([]byte(p.name))
	}
}
