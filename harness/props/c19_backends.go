package props

import (
	"bufio"
	"bytes"
	"errors"
	"fmt"
	"io"
	"os"
	"path/filepath"
	"sync/atomic"
	"testing/iotest"

	"github.com/tdewolff/parse/v2"
)

// Sources and constructors for the eight reader backends of C19.

// c19Src is a plain io.Reader over data. It delivers chunks of >= 1 byte following a cyclic schedule (a
// (0, nil) read is outside the domain, see Assume) and, when eofWithLast is set, reports io.EOF together
// with the last bytes, which io.Reader allows.
type c19Src struct {
	data        []byte
	pos         int64
	chunks      []int
	ci          int
	eofWithLast bool
}

func (s *c19Src) Read(p []byte) (int, error) {
	if s.pos >= int64(len(s.data)) {
		return 0, io.EOF
	}
	if len(p) == 0 {
		return 0, nil
	}
	n := len(p)
	if len(s.chunks) > 0 {
		if c := s.chunks[s.ci%len(s.chunks)]; c < n {
			n = c
		}
		s.ci++
	}
	n = copy(p[:n], s.data[s.pos:])
	s.pos += int64(n)
	if s.eofWithLast && s.pos == int64(len(s.data)) {
		return n, io.EOF
	}
	return n, nil
}

// c19Seeker adds Seek (and nothing else): the library picks its ReadSeeker backend.
type c19Seeker struct{ c19Src }

func (s *c19Seeker) Seek(off int64, whence int) (int64, error) {
	switch whence {
	case io.SeekStart:
	case io.SeekCurrent:
		off += s.pos
	case io.SeekEnd:
		off += int64(len(s.data))
	default:
		return 0, errors.New("c19Seeker: invalid whence")
	}
	if off < 0 {
		return 0, errors.New("c19Seeker: negative position")
	}
	s.pos = off
	return off, nil
}

// c19ReaderAt adds a stateless ReadAt (and no Seek): the library picks its ReaderAt backend.
type c19ReaderAt struct{ c19Src }

func (s *c19ReaderAt) ReadAt(p []byte, off int64) (int, error) {
	if off < 0 {
		return 0, errors.New("c19ReaderAt: negative offset")
	}
	if off >= int64(len(s.data)) {
		return 0, io.EOF
	}
	n := copy(p, s.data[off:])
	if n < len(p) {
		return n, io.EOF
	}
	if s.eofWithLast && off+int64(n) == int64(len(s.data)) {
		return n, io.EOF // allowed by io.ReaderAt for a full read that ends at the end of the source
	}
	return n, nil
}

// c19BytesSrc is a reader that exposes Bytes(): the library then works on that slice.
type c19BytesSrc struct {
	b   []byte
	pos int
}

func (r *c19BytesSrc) Bytes() []byte { return r.b }
func (r *c19BytesSrc) Read(p []byte) (int, error) {
	if r.pos >= len(r.b) {
		return 0, io.EOF
	}
	n := copy(p, r.b[r.pos:])
	r.pos += n
	return n, nil
}

var c19Backends = []string{"bytes", "bytesrd", "seeker", "readerat", "plain-all", "plain-seq", "file", "mmap"}

type c19Opened struct {
	r *parse.BinaryReader
	// seekable: Seek/ReadAt/Clone to other positions are usable. False only for the plain sequential reader
	// backend, of which the property covers the sequential part.
	seekable bool
	ctor     string
	cleanup  func() // closes what the harness opened; the reader itself is closed by the monitor
}

var c19FileSeq int64

// c19Files is the scratch file of one case: created under $VH_SCRATCH (else os.TempDir()) when a file or mmap
// backend is first opened in the case, rewritten in place for the following backends / truncations of the
// same case (readers of the previous contents are closed by then) and removed when the case ends.
type c19Files struct{ name string }

func (fs *c19Files) put(data []byte) (string, error) {
	if fs.name == "" {
		dir := os.Getenv("VH_SCRATCH")
		if dir == "" {
			dir = os.TempDir()
		}
		fs.name = filepath.Join(dir, fmt.Sprintf("c19-%d-%d.bin", os.Getpid(), atomic.AddInt64(&c19FileSeq, 1)))
	}
	// rewritten in place without O_TRUNC (ext4 flushes a file to disk when it is replaced through truncation
	// to zero, which would turn every case into disk I/O)
	f, err := os.OpenFile(fs.name, os.O_WRONLY|os.O_CREATE, 0o600)
	if err != nil {
		return "", err
	}
	_, err = f.WriteAt(data, 0)
	if err == nil {
		err = f.Truncate(int64(len(data)))
	}
	if cerr := f.Close(); err == nil {
		err = cerr
	}
	if err != nil {
		return "", err
	}
	return fs.name, nil
}

func (fs *c19Files) remove() {
	if fs.name != "" {
		os.Remove(fs.name)
		fs.name = ""
	}
}

// c19Open builds a reader of the given backend over a private copy of data. envErr != nil means the
// scratch file could not be written (an environment problem, not a library result).
func c19Open(fs *c19Files, backend string, variant int, data []byte, chunks []int, eofWithLast bool) (o c19Opened, libErr, envErr error) {
	d := append(make([]byte, 0, len(data)), data...)
	n := int64(len(d))
	src := c19Src{data: d, chunks: chunks, eofWithLast: eofWithLast}
	o.seekable = true
	o.cleanup = func() {}
	switch backend {
	case "bytes":
		if variant%2 == 0 {
			o.ctor = "NewBinaryReaderBytes(data)"
			o.r = parse.NewBinaryReaderBytes(d)
		} else {
			o.ctor = "NewBinaryReaderReader(NewBinaryReaderBytes(data), 0)"
			o.r, libErr = parse.NewBinaryReaderReader(parse.NewBinaryReaderBytes(d), 0)
		}
	case "bytesrd":
		if variant%2 == 0 {
			o.ctor = "NewBinaryReaderReader(reader with Bytes(), 12345)"
			o.r, libErr = parse.NewBinaryReaderReader(&c19BytesSrc{b: d}, 12345)
		} else {
			o.ctor = "NewBinaryReaderReader(*bytes.Buffer, -1)"
			o.r, libErr = parse.NewBinaryReaderReader(bytes.NewBuffer(d), -1)
		}
	case "seeker":
		switch variant % 4 {
		case 0:
			o.ctor = "NewBinaryReaderReader(chunked io.ReadSeeker, len)"
			o.r, libErr = parse.NewBinaryReaderReader(&c19Seeker{src}, n)
		case 1:
			o.ctor = "NewBinaryReaderReader(chunked io.ReadSeeker, -1)"
			o.r, libErr = parse.NewBinaryReaderReader(&c19Seeker{src}, -1)
		case 2:
			o.ctor = "NewBinaryReaderReader(*bytes.Reader, len)"
			o.r, libErr = parse.NewBinaryReaderReader(bytes.NewReader(d), n)
		default:
			o.ctor = "NewBinaryReaderReader(*io.SectionReader, -1)"
			o.r, libErr = parse.NewBinaryReaderReader(io.NewSectionReader(bytes.NewReader(d), 0, n), -1)
		}
	case "readerat":
		// the constructor takes the ReaderAt path only for n > 0; an empty source becomes the plain
		// sequential reader of size 0
		o.ctor = "NewBinaryReaderReader(io.Reader+io.ReaderAt, len)"
		o.seekable = n > 0
		o.r, libErr = parse.NewBinaryReaderReader(&c19ReaderAt{src}, n)
	case "plain-all":
		switch variant % 3 {
		case 0:
			o.ctor = "NewBinaryReaderReader(chunked io.Reader, -1)"
			o.r, libErr = parse.NewBinaryReaderReader(&src, -1)
		case 1:
			o.ctor = "NewBinaryReaderReader(*bufio.Reader, -7)"
			o.r, libErr = parse.NewBinaryReaderReader(bufio.NewReaderSize(bytes.NewReader(d), 16), -7)
		default:
			o.ctor = "NewBinaryReaderReader(iotest.OneByteReader, -1)"
			o.r, libErr = parse.NewBinaryReaderReader(iotest.OneByteReader(bytes.NewReader(d)), -1)
		}
	case "plain-seq":
		o.seekable = false
		switch variant % 3 {
		case 0:
			o.ctor = "NewBinaryReaderReader(chunked io.Reader, len)"
			o.r, libErr = parse.NewBinaryReaderReader(&src, n)
		case 1:
			o.ctor = "NewBinaryReaderReader(iotest.DataErrReader, len)"
			o.r, libErr = parse.NewBinaryReaderReader(iotest.DataErrReader(bytes.NewReader(d)), n)
		default:
			o.ctor = "NewBinaryReaderReader(*bufio.Reader, len)"
			o.r, libErr = parse.NewBinaryReaderReader(bufio.NewReaderSize(bytes.NewReader(d), 16), n)
		}
	case "file", "mmap":
		var name string
		if name, envErr = fs.put(d); envErr != nil {
			return
		}
		v := variant % 4
		if backend == "mmap" {
			v = 4 + variant%2
		}
		if v == 1 {
			o.ctor = "NewBinaryReaderPath(file)"
			o.r, libErr = parse.NewBinaryReaderPath(name)
			return
		} else if v == 4 {
			o.ctor = "NewBinaryReaderMmapPath(file)"
			o.r, libErr = parse.NewBinaryReaderMmapPath(name)
			return
		}
		var f *os.File
		if f, envErr = os.Open(name); envErr != nil {
			return
		}
		o.cleanup = func() { f.Close() } // a second Close of *os.File only returns an error
		switch v {
		case 0:
			o.ctor = "NewBinaryReaderFile(*os.File)"
			o.r, libErr = parse.NewBinaryReaderFile(f)
		case 2:
			o.ctor = "NewBinaryReaderReader(*os.File, len)"
			o.r, libErr = parse.NewBinaryReaderReader(f, n)
		case 3:
			o.ctor = "NewBinaryReaderReader(*os.File, -1)"
			o.r, libErr = parse.NewBinaryReaderReader(f, -1)
		default:
			o.ctor = "NewBinaryReaderMmapFile(*os.File)"
			o.r, libErr = parse.NewBinaryReaderMmapFile(f)
		}
	default:
		panic("c19: unknown backend " + backend)
	}
	return
}
