//go:build !race

package props

func c20RaceCount() int { return 0 }

func c20CaptureStderr() func() string { return func() string { return "" } }
