//go:build !race

package props

import (
	"bytes"
	"debug/dwarf"
	"debug/elf"
	"encoding/binary"
	"fmt"
	"sort"
	"strings"
	"sync"
	"unsafe"

	"github.com/tdewolff/parse/v2"
)

// M-seg, the data-segment monitor of DESIGN §3 (plain build only: under -race the implied checkptr refuses
// the address -> pointer conversion).
//
// The process's own ELF image names every package-level variable of the library: all OBJECT symbols that
// live in a writable, allocated section (.data, .noptrdata, .bss, .noptrbss) and whose name starts with the
// module path. This includes the compiler-made backing arrays of `[]byte("…")` literals (..gobytes.N /
// ..stmp_N), i.e. the bytes of endBytes, nullBuffer, _Hash_text …, not only their slice headers. The bytes of
// those symbols are copied (shallow) at the first C20 activity of the process — after package initialisation,
// before any library call made by C20 — and compared at quiescent points (no goroutine of the case alive).
//
// Not library variables and therefore skipped: `..typeAssert.N` / `..interfaceSwitch.N`. They are descriptors
// (internal/abi.TypeAssert, InterfaceSwitch) the compiler emits for `x.(I)` / type switches; their Cache word
// is updated by the Go runtime itself (runtime.typeAssert, atomic store) the first times the assertion runs.
// No library source line can address them.
//
// One level deep (typed): package-level state is often reached THROUGH a variable whose own bytes never change —
// `var scratch = make([]byte, 64)`, `var cache = map[string]Hash{}`, `var prefs = &struct{…}{}` (the pointee may
// even be an anonymous static without a symbol). The DWARF description of every library variable gives its
// type; pointers, slices and maps found in the variable's own bytes are followed exactly one level: the
// pointee (its static size), the slice's elements (cap x element size: spare capacity is where a scratch
// buffer is written), a map's entry count (the other words
// of a map header are runtime bookkeeping: ranging over a map sets an iterator flag). Strings (immutable),
// interfaces and funcs are not followed. These regions are snapshotted and compared like the symbols.

type c20Sym struct {
	name string
	addr uintptr
	size int
	own  bool // harness-owned canary, used by the self-test only
}

type c20Seg struct {
	syms  []c20Sym
	base  [][]byte
	slide uintptr
	bytes int
	err   string

	vars     []c20Var      // DWARF-typed library variables (and the harness canaries)
	deepBase [][]c20Region // regions reachable one level deep from vars[i] at baseline
	deepErr  string
	regions  int
}

type c20Var struct {
	name string
	addr uintptr
	typ  dwarf.Type
	own  bool
}

type c20Region struct {
	via  string
	addr uintptr
	data []byte
}

const c20ModPrefix = "github.com/tdewolff/parse/v2"

// Harness-owned package-level state for the self-test: an array (shallow), a heap slice and a pointer to an
// anonymous static (deep).
var (
	c20Canary      [64]byte
	c20CanarySlice = make([]byte, 32)
	c20CanaryPtr   = &struct{ b byte }{}
)

var (
	c20SegOnce sync.Once
	c20SegInst *c20Seg
)

func c20SegAvailable() bool { return true }

func c20LibSymbol(name string) bool {
	if !strings.HasPrefix(name, c20ModPrefix) {
		return false
	}
	rest := name[len(c20ModPrefix):]
	if rest == "" || (rest[0] != '.' && rest[0] != '/') {
		return false
	}
	return !strings.Contains(rest, "..typeAssert.") && !strings.Contains(rest, "..interfaceSwitch.")
}

func c20Mem(addr uintptr, n int) []byte {
	return unsafe.Slice((*byte)(unsafe.Pointer(addr)), n) //nolint:govet // address of a symbol of this very process
}

// c20SegBaseline loads the symbol table and takes the reference snapshot (once per process).
func c20SegBaseline() *c20Seg {
	c20SegOnce.Do(func() {
		s := &c20Seg{}
		c20SegInst = s
		f, err := elf.Open("/proc/self/exe")
		if err != nil {
			s.err = err.Error()
			return
		}
		defer f.Close()
		all, err := f.Symbols()
		if err != nil {
			s.err = err.Error()
			return
		}
		var anchor uintptr
		for _, y := range all {
			if y.Size == 0 || elf.ST_TYPE(y.Info) != elf.STT_OBJECT || int(y.Section) >= len(f.Sections) || y.Section == elf.SHN_UNDEF {
				continue
			}
			sec := f.Sections[y.Section]
			if sec.Flags&elf.SHF_WRITE == 0 || sec.Flags&elf.SHF_ALLOC == 0 {
				continue
			}
			own := y.Name == "vh/props.c20Canary"
			if !own && !c20LibSymbol(y.Name) {
				continue
			}
			if y.Name == c20ModPrefix+".URLEncodingTable" {
				anchor = uintptr(y.Value)
			}
			s.syms = append(s.syms, c20Sym{y.Name, uintptr(y.Value), int(y.Size), own})
		}
		if anchor == 0 {
			s.err = "symbol " + c20ModPrefix + ".URLEncodingTable not found"
			return
		}
		// load bias: runtime address of a known exported variable minus its link-time address (0 for non-PIE)
		s.slide = uintptr(unsafe.Pointer(&parse.URLEncodingTable)) - anchor
		if !bytes.Equal(c20Mem(anchor+s.slide, 256), c20BoolBytes(parse.URLEncodingTable[:])) {
			s.err = "address computation is wrong: the bytes at the symbol address are not URLEncodingTable"
			return
		}
		sort.Slice(s.syms, func(i, j int) bool { return s.syms[i].name < s.syms[j].name })
		for i := range s.syms {
			s.syms[i].addr += s.slide
			s.base = append(s.base, append([]byte(nil), c20Mem(s.syms[i].addr, s.syms[i].size)...))
			s.bytes += s.syms[i].size
		}
		s.loadDWARF(f)
	})
	return c20SegInst
}

// loadDWARF finds the typed description of every library variable and takes the deep baseline.
func (s *c20Seg) loadDWARF(f *elf.File) {
	dw, err := f.DWARF()
	if err != nil {
		s.deepErr = "no DWARF: " + err.Error()
		return
	}
	rd := dw.Reader()
	for {
		e, err := rd.Next()
		if err != nil || e == nil {
			break
		}
		if e.Tag == dwarf.TagCompileUnit {
			continue // descend into the unit
		}
		if e.Tag == dwarf.TagVariable {
			name, _ := e.Val(dwarf.AttrName).(string)
			own := strings.HasPrefix(name, "vh/props.c20Canary")
			loc, _ := e.Val(dwarf.AttrLocation).([]byte)
			off, ok := e.Val(dwarf.AttrType).(dwarf.Offset)
			if (own || c20LibSymbol(name)) && ok && len(loc) == 9 && loc[0] == 0x03 { // DW_OP_addr
				if typ, err := dw.Type(off); err == nil {
					s.vars = append(s.vars, c20Var{name, uintptr(binary.LittleEndian.Uint64(loc[1:])) + s.slide, typ, own})
				}
			}
		}
		rd.SkipChildren()
	}
	sort.Slice(s.vars, func(i, j int) bool { return s.vars[i].name < s.vars[j].name })
	for _, v := range s.vars {
		r := c20Walk(v)
		s.deepBase = append(s.deepBase, r)
		s.regions += len(r)
	}
}

func c20Under(t dwarf.Type) dwarf.Type {
	for {
		switch x := t.(type) {
		case *dwarf.TypedefType:
			t = x.Type
		case *dwarf.QualType:
			t = x.Type
		default:
			return t
		}
	}
}

const c20MaxRegion = 1 << 20

// c20Walk returns the memory reachable one level deep from the variable's own bytes.
func c20Walk(v c20Var) []c20Region {
	var out []c20Region
	word := func(a uintptr) uintptr { return uintptr(binary.LittleEndian.Uint64(c20Mem(a, 8))) }
	region := func(via string, p uintptr, n int64) {
		if p == 0 || n <= 0 {
			out = append(out, c20Region{via: via}) // nil/empty: only the fact is recorded
			return
		}
		if n > c20MaxRegion {
			n = c20MaxRegion
		}
		out = append(out, c20Region{via, p, append([]byte(nil), c20Mem(p, int(n))...)})
	}
	var walk func(via string, a uintptr, t dwarf.Type)
	walk = func(via string, a uintptr, t dwarf.Type) {
		switch x := c20Under(t).(type) {
		case *dwarf.PtrType:
			p := word(a)
			if st, ok := c20Under(x.Type).(*dwarf.StructType); ok && (strings.HasPrefix(st.StructName, "hash<") || strings.HasPrefix(st.StructName, "map<") || strings.HasPrefix(st.StructName, "table<")) {
				for _, fl := range st.Field { // map header: the entry count only
					if fl.Name == "count" || fl.Name == "used" {
						if p != 0 {
							p += uintptr(fl.ByteOffset)
						}
						region(via+" (map entry count)", p, fl.Type.Size())
						return
					}
				}
				return
			} else if ok && strings.HasPrefix(st.StructName, "hchan<") {
				return
			}
			region(via+" (pointee)", p, x.Type.Size())
		case *dwarf.StructType:
			switch {
			case strings.HasPrefix(x.StructName, "[]") && len(x.Field) == 3:
				if pt, ok := c20Under(x.Field[0].Type).(*dwarf.PtrType); ok {
					region(via+" (slice elements up to cap)", word(a), int64(word(a+16))*pt.Type.Size())
				}
			case x.StructName == "string", x.StructName == "runtime.iface", x.StructName == "runtime.eface":
			default:
				for _, fl := range x.Field {
					walk(via+"."+fl.Name, a+uintptr(fl.ByteOffset), fl.Type)
				}
			}
		case *dwarf.ArrayType:
			es := x.Type.Size()
			switch c20Under(x.Type).(type) {
			case *dwarf.PtrType, *dwarf.StructType, *dwarf.ArrayType:
				for i := int64(0); i < x.Count && i < 1024 && es > 0; i++ {
					walk(fmt.Sprintf("%s[%d]", via, i), a+uintptr(i*es), x.Type)
				}
			}
		}
	}
	walk(v.name, v.addr, v.typ)
	return out
}

// diff compares the current bytes of every monitored symbol with the baseline.
func (s *c20Seg) diff(includeOwn bool) []string {
	var out []string
	for i, y := range s.syms {
		if y.own && !includeOwn {
			continue
		}
		cur := c20Mem(y.addr, y.size)
		if bytes.Equal(cur, s.base[i]) {
			continue
		}
		k := 0
		for cur[k] == s.base[i][k] {
			k++
		}
		out = append(out, fmt.Sprintf("%s (%d bytes at %#x): byte %d changed from %#02x to %#02x", y.name, y.size, y.addr, k, s.base[i][k], cur[k]))
	}
	for i, v := range s.vars {
		if v.own && !includeOwn {
			continue
		}
		cur, base := c20Walk(v), s.deepBase[i]
		if len(cur) != len(base) {
			out = append(out, fmt.Sprintf("%s: reaches %d memory regions, %d at baseline", v.name, len(cur), len(base)))
			continue
		}
		for j := range cur {
			switch {
			case cur[j].addr != base[j].addr || len(cur[j].data) != len(base[j].data):
				out = append(out, fmt.Sprintf("%s now refers to %d bytes at %#x, at baseline %d bytes at %#x", cur[j].via, len(cur[j].data), cur[j].addr, len(base[j].data), base[j].addr))
			case !bytes.Equal(cur[j].data, base[j].data):
				k := 0
				for cur[j].data[k] == base[j].data[k] {
					k++
				}
				out = append(out, fmt.Sprintf("%s, %d bytes at %#x: byte %d changed from %#02x to %#02x", cur[j].via, len(cur[j].data), cur[j].addr, k, base[j].data[k], cur[j].data[k]))
			}
		}
	}
	return out
}

// selfTest validates the monitor: one byte of the harness-owned array is flipped through the symbol's
// computed address, the Go variable must show the flip (address computation), diff must name exactly that
// symbol (detection), and after restoring the byte the diff must be empty again.
func (s *c20Seg) selfTest(k int) (ok bool, why string) {
	var y *c20Sym
	for i := range s.syms {
		if s.syms[i].own {
			y = &s.syms[i]
		}
	}
	if y == nil || y.size != len(c20Canary) {
		return false, "canary symbol vh/props.c20Canary not found in the ELF symbol table"
	}
	k %= y.size
	before := c20Canary[k]
	c20Mem(y.addr, y.size)[k] ^= 0x5A
	seen := c20Canary[k] == before^0x5A
	d := s.diff(true)
	c20Canary[k] = before
	if !seen {
		return false, "write through the symbol address did not reach the Go variable"
	}
	if len(d) != 1 || !strings.HasPrefix(d[0], "vh/props.c20Canary ") {
		return false, fmt.Sprintf("diff after the deliberate write: %v", d)
	}
	if d := s.diff(true); len(d) != 0 {
		return false, fmt.Sprintf("diff after restoring: %v", d)
	}
	if s.deepErr != "" {
		return false, s.deepErr
	}
	// deep: a heap byte behind an unchanged slice header, a byte of an anonymous static behind a pointer
	c20CanarySlice[k%len(c20CanarySlice)] ^= 0x5A
	d = s.diff(true)
	c20CanarySlice[k%len(c20CanarySlice)] ^= 0x5A
	if len(d) != 1 || !strings.HasPrefix(d[0], "vh/props.c20CanarySlice (slice elements up to cap)") {
		return false, fmt.Sprintf("deep diff after writing a slice element: %v", d)
	}
	c20CanaryPtr.b ^= 0x5A
	d = s.diff(true)
	c20CanaryPtr.b ^= 0x5A
	if len(d) != 1 || !strings.HasPrefix(d[0], "vh/props.c20CanaryPtr (pointee)") {
		return false, fmt.Sprintf("deep diff after writing through a pointer: %v", d)
	}
	if d := s.diff(true); len(d) != 0 {
		return false, fmt.Sprintf("diff after restoring: %v", d)
	}
	return true, ""
}
