package props

import (
	"bytes"
	"fmt"
	"io"
	"unicode"
	"unicode/utf8"

	"github.com/tdewolff/parse/v2"
	"github.com/tdewolff/parse/v2/js"

	"vh/fw"
	"vh/gen"
)

// C06 — JS tokens follow the ECMAScript lexical grammar.
//
// Oracle: construction-time ground truth (gen/c06_js.go writes the token sequence and knows every (kind, text));
// the lexer output is compared token by token, RegExp() is called exactly where a regular expression literal was
// written, hook H4 is compared with the generator's own bracket/template bookkeeping after every token. The
// "canonical spelling" clause is additionally checked on every token of hostile byte streams.

var c06Kinds = map[string]js.TokenType{
	"Whitespace": js.WhitespaceToken, "LineTerminator": js.LineTerminatorToken, "Comment": js.CommentToken,
	"CommentLineTerminator": js.CommentLineTerminatorToken, "String": js.StringToken, "Template": js.TemplateToken,
	"TemplateStart": js.TemplateStartToken, "TemplateMiddle": js.TemplateMiddleToken, "TemplateEnd": js.TemplateEndToken,
	"RegExp": js.RegExpToken, "PrivateIdentifier": js.PrivateIdentifierToken, "Identifier": js.IdentifierToken,
	"Integer": js.IntegerToken, "Decimal": js.DecimalToken, "Hexadecimal": js.HexadecimalToken, "Binary": js.BinaryToken, "Octal": js.OctalToken,
}

// c06TypeOK: is tt the token type the statement prescribes for a generated token of this kind and text?
// Punctuators/operators and keywords: a type of the right class whose canonical spelling is the text (the
// statement's own criterion; the unused aliases PosToken.. share a spelling with AddToken.. and are accepted).
func c06TypeOK(kind, text string, tt js.TokenType) bool {
	switch kind {
	case "Punct":
		return js.IsPunctuator(tt) && tt != js.PunctuatorToken && tt != js.OperatorToken && string(tt.Bytes()) == text
	case "Reserved":
		return js.IsReservedWord(tt) && tt != js.ReservedToken && string(tt.Bytes()) == text
	case "Contextual":
		return js.IsIdentifier(tt) && !js.IsReservedWord(tt) && tt != js.IdentifierToken && string(tt.Bytes()) == text
	}
	want, ok := c06Kinds[kind]
	return ok && tt == want
}

// c06Spelled reports whether tt is one of the types that have a canonical spelling (punctuator, operator,
// reserved word, contextual keyword).
func c06Spelled(tt js.TokenType) bool {
	if tt == js.PunctuatorToken || tt == js.OperatorToken || tt == js.ReservedToken || tt == js.IdentifierToken {
		return false
	}
	return js.IsPunctuator(tt) || js.IsOperator(tt) || js.IsReservedWord(tt) || js.IsIdentifier(tt)
}

// pairKey: the vocabulary entry of a token for the adjacent-pair matrix (punctuators by spelling).
func c06PairKey(k gen.JSTok) string {
	if k.Kind == "Punct" {
		return k.Text
	}
	return k.Kind
}

func c06Expect(kind, text string) string {
	if kind == "Punct" || kind == "Reserved" || kind == "Contextual" {
		return fmt.Sprintf("%s(%s)", kind, text)
	}
	return fmt.Sprintf("%s %q", kind, text)
}

// c06Compare lexes the input and compares with want; evidence=true records the evidence sets.
func c06Compare(t *fw.T, in *parse.Input, want []gen.JSTok, evidence bool) {
	l := js.NewLexer(in)
	ctx := func(i int) string {
		if i == 0 {
			return " (first token)"
		}
		return " (after " + c06Expect(want[i-1].Kind, want[i-1].Text) + ")"
	}
	hook := func(i int, level, templates int, what string) bool {
		gl, gt := l.VerifState()
		t.Count("hook H4 comparisons", 1)
		if gl != level || gt != templates {
			t.Failf("token %d %s%s: lexer state level=%d templates=%d, written so far: level=%d open templates=%d", i, what, ctx(i), gl, gt, level, templates)
			return false
		}
		return true
	}
	prevKey, maxOpen := "^", 0
	for i, w := range want {
		tt, data := l.Next()
		if w.Kind == "RegExp" {
			// the literal starts with the token '/' (or '/=' when its body starts with '='); RegExp() re-reads it
			div := "/"
			if w.Text[1] == '=' {
				div = "/="
			}
			if !c06TypeOK("Punct", div, tt) || string(data) != div {
				t.Failf("token %d: got %v %s, want the %q token that starts the regular expression literal %q%s", i, tt, fw.Q(data), div, w.Text, ctx(i))
				return
			}
			pl, pt := 0, 0
			if i > 0 {
				pl, pt = want[i-1].Level, want[i-1].Templates
			}
			if !hook(i, pl, pt, "'"+div+"'") {
				return
			}
			tt, data = l.RegExp()
			if tt != js.RegExpToken || string(data) != w.Text {
				t.Failf("token %d: RegExp() after %q returned %v %s (err %v), want one RegExp token %q%s", i, div, tt, fw.Q(data), l.Err(), w.Text, ctx(i))
				return
			}
			t.Count("regexps re-read", 1)
			if bytes.Contains(data[1:len(data)-1], []byte("/")) {
				t.Count("regexps with '/' in a class or escaped", 1)
			}
		} else if !c06TypeOK(w.Kind, w.Text, tt) || string(data) != w.Text {
			msg := ""
			if tt == js.ErrorToken {
				msg = fmt.Sprintf(" (err: %v)", l.Err())
			}
			t.Failf("token %d: got %v %s%s, want %s%s", i, tt, fw.Q(data), msg, c06Expect(w.Kind, w.Text), ctx(i))
			return
		}
		if !hook(i, w.Level, w.Templates, c06Expect(w.Kind, w.Text)) {
			return
		}
		t.Count("tokens", 1)
		if evidence {
			key := c06PairKey(w)
			t.Seen("vocabulary", key)
			if w.Kind == "Reserved" || w.Kind == "Contextual" {
				t.Seen("keywords", w.Text)
			}
			t.Seen("adjacent pairs (any)", prevKey+" "+key)
			if w.Glued {
				t.Seen("adjacent pairs written without separator", prevKey+" "+key)
				t.Count("juxtaposed pairs", 1)
				// the neighbourhoods the predicate keeps on purpose
				switch p := want[i-1]; {
				case p.Text == "?" && p.Kind == "Punct" && w.Kind == "Decimal":
					t.Count("juxtaposed '?' '.5'", 1)
				case p.Text == "--" && p.Kind == "Punct" && w.Text[0] == '>':
					t.Count("juxtaposed '--' '>' (mid-line)", 1)
				case p.Text == "!" && p.Glued && i >= 2 && want[i-2].Text == "<" && w.Text[0] == '-':
					t.Count("juxtaposed '<' '!' '-'", 1)
				case w.Kind == "PrivateIdentifier" && (p.Kind == "Integer" || p.Kind == "Decimal" || p.Kind == "Hexadecimal"):
					t.Count("juxtaposed number '#name'", 1)
				}
			}
			prevKey = key
			switch w.Kind {
			case "Comment":
				if w.Text[1] == '*' {
					t.Count("multi-line comments without line terminator", 1)
				}
			case "CommentLineTerminator":
				t.Count("multi-line comments with line terminator", 1)
			case "TemplateMiddle", "TemplateEnd":
				t.Count("'}' resuming a template", 1)
			case "Punct":
				if w.Text == "}" && w.Templates > 0 {
					t.Count("'}' closing a block inside a substitution", 1)
				}
			}
			if w.Templates > maxOpen {
				maxOpen = w.Templates
			}
		}
	}
	tt, data := l.Next()
	if tt != js.ErrorToken || l.Err() != io.EOF {
		t.Failf("after the %d written tokens: got %v %s (err %v), want the end of the input", len(want), tt, fw.Q(data), l.Err())
		return
	}
	if evidence {
		t.Seen("template nesting depth", fmt.Sprint(maxOpen))
		if maxOpen == gen.JSMaxTemplateDepth {
			t.Count("sequences reaching template depth 5", 1)
		}
	}
}

func c06Sequence(t *fw.T) {
	r := t.Rng
	src, want := gen.JSSequence(r, 1+gen.SmallLen(r, 60))
	ctor := gen.Pick(r, inputCtors)
	t.Desc(map[string]any{"kind": "sequence", "ctor": ctor, "src": []byte(src)})
	in, _ := mkInput(r, []byte(src), ctor)
	c06Compare(t, in, want, true)
	if t.Failed() {
		return
	}
	t.Count("sequences", 1)
	if len(want) >= 3 {
		t.Nontrivial([]byte(src))
	}
	t.Sample(map[string]any{"src": []byte(src), "tokens": len(want)})
}

// c06Pair: very short sequences (2-4 generated tokens): every adjacent pair sits at the start or the end of the input
// as well, where the lexer's look-ahead meets the end-of-input sentinel.
func c06Pair(t *fw.T) {
	r := t.Rng
	src, want := gen.JSSequence(r, 2+r.Intn(3))
	t.Desc(map[string]any{"kind": "pair", "src": []byte(src)})
	c06Compare(t, parse.NewInputString(src), want, true)
	if t.Failed() {
		return
	}
	t.Count("sequences", 1)
	if len(want) >= 2 {
		t.Nontrivial([]byte(src))
	}
}

// ---------------------------------------------------------------------------------------------------------------
// hostile streams: the spelling clause on every token; RegExp() against a reference scanner

func c06IsLT(r rune) bool { return r == '\n' || r == '\r' || r == 0x2028 || r == 0x2029 }

var c06IDContinue = []*unicode.RangeTable{unicode.L, unicode.Nl, unicode.Other_ID_Start, unicode.Mn, unicode.Mc, unicode.Nd, unicode.Pc, unicode.Other_ID_Continue}

// c06RefRegExp: length of the well-formed RegularExpressionLiteral at the start of b (valid UTF-8), or 0.
//
//	/ FirstChar Chars / Flags ; a char is any non-line-terminator except that '\' takes the next
//	non-line-terminator with it, '[' opens a class that only an unescaped ']' closes, and an unescaped '/' outside a
//	class ends the body; FirstChar is not '*' (nor '/'); Flags are IdentifierPart characters (no escapes).
func c06RefRegExp(b []byte) int {
	if len(b) < 3 || b[0] != '/' || b[1] == '*' || b[1] == '/' {
		return 0
	}
	i, inClass := 1, false
	for {
		if i >= len(b) {
			return 0
		}
		r, n := utf8.DecodeRune(b[i:])
		if c06IsLT(r) {
			return 0
		}
		i += n
		if r == '\\' {
			if i >= len(b) {
				return 0
			}
			r, n = utf8.DecodeRune(b[i:])
			if c06IsLT(r) {
				return 0
			}
			i += n
		} else if r == '[' {
			inClass = true
		} else if r == ']' {
			inClass = false
		} else if r == '/' && !inClass {
			break
		}
	}
	for i < len(b) {
		r, n := utf8.DecodeRune(b[i:])
		if !(r == '$' || r == 0x200C || r == 0x200D || r < 0x80 && (r == '_' || '0' <= r && r <= '9' || 'a' <= r && r <= 'z' || 'A' <= r && r <= 'Z') || r >= 0x80 && unicode.IsOneOf(c06IDContinue, r)) {
			break
		}
		i += n
	}
	return i
}

func c06Hostile(t *fw.T) {
	r := t.Rng
	li := langs["js"]
	_ = li
	src := gen.ToValidUTF8(hostileInput(r, "js", 2048))
	regexpMode := r.Intn(3) // 0: never call RegExp(); 1: after every '/' '/='; 2: after some
	t.Desc(map[string]any{"kind": "hostile", "src": src, "regexp": regexpMode})
	in := parse.NewInputBytes(append([]byte(nil), src...))
	l := js.NewLexer(in)
	ntok := 0
	for steps := 0; steps < 4*len(src)+16; steps++ {
		tt, data := l.Next()
		if tt == js.ErrorToken {
			if l.Err() == io.EOF || in.Offset() >= len(src) {
				break
			}
			t.Count("hostile: lexical errors stepped over", 1)
			continue
		}
		ntok++
		if c06Spelled(tt) {
			t.Count("hostile: spelled tokens checked", 1)
			if !bytes.Equal(tt.Bytes(), data) {
				t.Failf("token %v (canonical spelling %q) has text %s at offset %d", tt, tt.Bytes(), fw.Q(data), in.Offset()-len(data))
				return
			}
		} else if tt == js.IdentifierToken {
			t.Count("hostile: identifiers checked", 1)
			if kw, ok := js.Keywords[string(data)]; ok || c06KeywordSet[string(data)] {
				t.Failf("IdentifierToken with the keyword text %s (Keywords has %v)", fw.Q(data), kw)
				return
			}
		}
		if (tt == js.DivToken || tt == js.DivEqToken) && (regexpMode == 1 || regexpMode == 2 && r.Intn(2) == 0) {
			pos := in.Offset() - len(data)
			n := c06RefRegExp(src[pos:])
			tt2, d2 := l.RegExp()
			if n > 0 {
				t.Count("hostile: well-formed regexps re-read", 1)
				if tt2 != js.RegExpToken || !bytes.Equal(d2, src[pos:pos+n]) {
					t.Failf("RegExp() after %v at offset %d returned %v %s (err %v); the well-formed literal there is %s", tt, pos, tt2, fw.Q(d2), l.Err(), fw.Q(src[pos:pos+n]))
					return
				}
			} else {
				t.Count("hostile: RegExp() on malformed literals (not judged)", 1)
			}
		}
	}
	if ntok >= 3 {
		t.Nontrivial(src)
	}
}

var c06KeywordSet = func() map[string]bool {
	m := map[string]bool{}
	for _, w := range gen.JSReserved {
		m[w] = true
	}
	for _, w := range gen.JSContextual {
		m[w] = true
	}
	return m
}()

// ---------------------------------------------------------------------------------------------------------------
// vocabulary table stream: every punctuator and keyword alone and between separators; Bytes()/String() tables

func c06Vocabulary(t *fw.T) {
	var items []gen.JSTok
	for _, p := range gen.JSPunctuators {
		items = append(items, gen.JSTok{Kind: "Punct", Text: p})
	}
	for _, w := range gen.JSReserved {
		items = append(items, gen.JSTok{Kind: "Reserved", Text: w})
	}
	for _, w := range gen.JSContextual {
		items = append(items, gen.JSTok{Kind: "Contextual", Text: w})
	}
	it := items[t.Index%len(items)]
	t.Key("vocabulary:" + it.Text)
	level := map[string]int{"{": 1, "(": 1, "}": -1, ")": -1}[it.Text]
	it.Level = level
	seps := []gen.JSTok{{Kind: "Whitespace", Text: " "}, {Kind: "LineTerminator", Text: "\n"}, {Kind: "Comment", Text: "/**/"}}
	for v := 0; v < 1+len(seps); v++ {
		want := []gen.JSTok{it}
		if v > 0 {
			s := seps[v-1]
			if gen.JSNeedSep(it.Kind, it.Text, s.Kind, s.Text) || gen.JSNeedSep(s.Kind, s.Text, it.Kind, it.Text) {
				continue // '/' directly in front of a comment
			}
			s2 := s
			s2.Level = level
			want = []gen.JSTok{s, it, s2}
		}
		src := ""
		for _, w := range want {
			src += w.Text
		}
		t.Desc(map[string]any{"kind": "vocabulary", "src": []byte(src)})
		c06Compare(t, parse.NewInputString(src), want, false)
		if t.Failed() {
			return
		}
	}
	// the spelling tables: String() is Bytes(); a keyword's type is what Keywords maps its spelling to
	if it.Kind != "Punct" {
		tt, ok := js.Keywords[it.Text]
		if !ok || !c06TypeOK(it.Kind, it.Text, tt) || tt.String() != it.Text {
			t.Failf("Keywords[%q] = %v (present %v): not the %s type spelled %q", it.Text, tt, ok, it.Kind, it.Text)
			return
		}
	}
	t.Count("vocabulary entries", 1)
	t.Nontrivial([]byte(it.Text))
}

// ---------------------------------------------------------------------------------------------------------------
// probes

type c06ProbeCase struct {
	name, src string
	want      []gen.JSTok
}

func c06P(kv ...string) []gen.JSTok {
	var out []gen.JSTok
	for i := 0; i+1 < len(kv); i += 2 {
		out = append(out, gen.JSTok{Kind: kv[i], Text: kv[i+1]})
	}
	return out
}

// c06Levels fills in the H4 expectations of a hand-written sequence.
func c06Levels(toks []gen.JSTok) []gen.JSTok {
	level, open := 0, 0
	for i := range toks {
		switch k := toks[i]; {
		case k.Kind == "Punct" && (k.Text == "{" || k.Text == "("):
			level++
		case k.Kind == "Punct" && (k.Text == "}" || k.Text == ")"):
			level--
		case k.Kind == "TemplateStart":
			level++
			open++
		case k.Kind == "TemplateEnd":
			level--
			open--
		}
		toks[i].Level, toks[i].Templates = level, open
	}
	return toks
}

var c06Probes = []c06ProbeCase{
	// fixed in the pinned tree: '~' and '?' have no compound assignment
	{"tilde-eq", "~=", c06P("Punct", "~", "Punct", "=")},
	{"question-eq", "?=x", c06P("Punct", "?", "Punct", "=", "Identifier", "x")},
	{"tilde-eqeq", "a~==b", c06P("Identifier", "a", "Punct", "~", "Punct", "==", "Identifier", "b")},
	{"question-eq-arrow", "?=>", c06P("Punct", "?", "Punct", "=>")},
	// maximal munch neighbourhoods named by the property
	{"optchain-digit", "a?.5:b?.c", c06P("Identifier", "a", "Punct", "?", "Decimal", ".5", "Punct", ":", "Identifier", "b", "Punct", "?.", "Identifier", "c")},
	{"gtgtgteq", ">>>=>>>>=>>=>", c06P("Punct", ">>>=", "Punct", ">>>", "Punct", ">=", "Punct", ">>=", "Punct", ">")},
	{"nullish-chain", "??=?.x???.y", c06P("Punct", "??=", "Punct", "?.", "Identifier", "x", "Punct", "??", "Punct", "?.", "Identifier", "y")},
	{"ellipsis-dots", "....5...5", c06P("Punct", "...", "Decimal", ".5", "Punct", "...", "Integer", "5")},
	{"number-dot-dot", "1..a 1.e3.b", c06P("Decimal", "1.", "Punct", ".", "Identifier", "a", "Whitespace", " ", "Decimal", "1.e3", "Punct", ".", "Identifier", "b")},
	{"number-private", "1#x 0x1n#y", c06P("Integer", "1", "PrivateIdentifier", "#x", "Whitespace", " ", "Hexadecimal", "0x1n", "PrivateIdentifier", "#y")},
	{"numbers", "0 0n 1_0n 0.5 0e1 .5e-1_0 0XaF_0n 0O7_7 0B1_0n 9_9.9_9E+9_9", c06P("Integer", "0", "Whitespace", " ", "Integer", "0n", "Whitespace", " ", "Integer", "1_0n", "Whitespace", " ",
		"Decimal", "0.5", "Whitespace", " ", "Decimal", "0e1", "Whitespace", " ", "Decimal", ".5e-1_0", "Whitespace", " ", "Hexadecimal", "0XaF_0n", "Whitespace", " ", "Octal", "0O7_7", "Whitespace", " ",
		"Binary", "0B1_0n", "Whitespace", " ", "Decimal", "9_9.9_9E+9_9")},
	{"decr-gt-midline", "a-->b", c06P("Identifier", "a", "Punct", "--", "Punct", ">", "Identifier", "b")},
	{"lt-not-decr-spaced", "a<! --b", c06P("Identifier", "a", "Punct", "<", "Punct", "!", "Whitespace", " ", "Punct", "--", "Identifier", "b")},
	// templates: '}' closing a block vs resuming the template
	{"template-braces", "`a${{b:{}}}c${`d${({})}e`}f`}", c06P("TemplateStart", "`a${", "Punct", "{", "Identifier", "b", "Punct", ":", "Punct", "{", "Punct", "}", "Punct", "}", "TemplateMiddle", "}c${",
		"TemplateStart", "`d${", "Punct", "(", "Punct", "{", "Punct", "}", "Punct", ")", "TemplateEnd", "}e`", "TemplateEnd", "}f`", "Punct", "}")},
	{"template-depth5", "`${`${`${`${`${1}`}`}`}`}`", c06P("TemplateStart", "`${", "TemplateStart", "`${", "TemplateStart", "`${", "TemplateStart", "`${", "TemplateStart", "`${", "Integer", "1",
		"TemplateEnd", "}`", "TemplateEnd", "}`", "TemplateEnd", "}`", "TemplateEnd", "}`", "TemplateEnd", "}`")},
	{"template-escapes", "`\\`\\${$\\{$$`}`}`", c06P("Template", "`\\`\\${$\\{$$`", "Punct", "}", "Template", "`}`")},
	{"negative-level-template", ")}`a${b}c`", c06P("Punct", ")", "Punct", "}", "TemplateStart", "`a${", "Identifier", "b", "TemplateEnd", "}c`")},
	// comments
	{"comment-lt-kinds", "/*\u2028*//*\u2029*//*\r*//* * / */", c06P("CommentLineTerminator", "/*\u2028*/", "CommentLineTerminator", "/*\u2029*/", "CommentLineTerminator", "/*\r*/", "Comment", "/* * / */")},
	{"comment-nel-not-lt", "/*\u00a0\u0085\v\f*/", c06P("Comment", "/*\u00a0\u0085\v\f*/")},
	{"line-comment-ends", "//a\u2028//b\u2029//c\r//d", c06P("Comment", "//a", "LineTerminator", "\u2028", "Comment", "//b", "LineTerminator", "\u2029", "Comment", "//c", "LineTerminator", "\r", "Comment", "//d")},
	// whitespace / line terminator runs
	{"whitespace-runs", " \t\v\f\u00a0\ufeff\u1680\u2000\u200a\u202f\u205f\u3000\n\r\r\n\u2028\u2029\ufeff", c06P("Whitespace", " \t\v\f\u00a0\ufeff\u1680\u2000\u200a\u202f\u205f\u3000", "LineTerminator", "\n\r\r\n\u2028\u2029", "Whitespace", "\ufeff")},
	// identifiers
	{"identifiers", "\\u0069f i\\u{66} $\u200c_\u200d ℘· \U0001D4B3\U000E0100 #if", c06P("Identifier", "\\u0069f", "Whitespace", " ", "Identifier", "i\\u{66}", "Whitespace", " ", "Identifier", "$\u200c_\u200d", "Whitespace", " ",
		"Identifier", "℘·", "Whitespace", " ", "Identifier", "\U0001D4B3\U000E0100", "Whitespace", " ", "PrivateIdentifier", "#if")},
	// strings
	{"strings", "'\\\r\n\\\u2028\u2029\\'\"'\"\\\\\"", c06P("String", "'\\\r\n\\\u2028\u2029\\'\"'", "String", "\"\\\\\"")},
	// regular expressions
	{"regexp-class-slash", "a=/[/\\]/]\\//g;", c06P("Identifier", "a", "Punct", "=", "RegExp", "/[/\\]/]\\//g", "Punct", ";")},
	{"regexp-diveq", "x/=/=[=/]/y/2", c06P("Identifier", "x", "Punct", "/=", "RegExp", "/=[=/]/y", "Punct", "/", "Integer", "2")},
	{"regexp-in-substitution", "`${/}`{/}`", c06P("TemplateStart", "`${", "RegExp", "/}`{/", "TemplateEnd", "}`")},
}

// error probes: inputs the lexer must reject without leaking bytes into the next token
var c06ErrorProbes = []struct {
	name, src string
	nerr      int         // number of non-EOF error tokens
	rest      []gen.JSTok // the non-error tokens
}{
	// fixed in the pinned tree: '#' at the end of the input is one error, then the end
	{"hash-at-end", "#", 1, nil},
	{"hash-at-end-after-tokens", "a;#", 1, c06P("Identifier", "a", "Punct", ";")},
	// defect found by the hostile stream: the identifier after a number stayed in the buffer and became part of the
	// next token (a ';' token with the text "abc;")
	{"ident-after-number", "1abc;if", 1, c06P("Integer", "1", "Punct", ";", "Reserved", "if")},
	{"ident-after-number-kw", "0x1in+", 1, c06P("Hexadecimal", "0x1", "Punct", "+")},
}

func c06Probe(t *fw.T) {
	if t.Index < len(c06Probes) {
		p := c06Probes[t.Index]
		t.Key("probe:" + p.name)
		t.Desc(map[string]any{"kind": "probe", "src": []byte(p.src)})
		joined := ""
		for _, w := range p.want {
			joined += w.Text
		}
		if joined != p.src {
			t.Failf("harness: probe %s expectation does not spell its source", p.name)
			return
		}
		c06Compare(t, parse.NewInputString(p.src), c06Levels(append([]gen.JSTok(nil), p.want...)), false)
		if !t.Failed() {
			t.Count("probes", 1)
			t.Nontrivial([]byte(p.name))
		}
		return
	}
	p := c06ErrorProbes[t.Index-len(c06Probes)]
	t.Key("probe:" + p.name)
	t.Desc(map[string]any{"kind": "error-probe", "src": []byte(p.src)})
	in := parse.NewInputString(p.src)
	l := js.NewLexer(in)
	nerr, i := 0, 0
	for steps := 0; ; steps++ {
		tt, data := l.Next()
		if tt == js.ErrorToken {
			if l.Err() == io.EOF {
				break
			}
			if nerr++; steps > 4*len(p.src)+8 {
				t.Failf("%q: no end of input after %d calls", p.src, steps)
				return
			}
			continue
		}
		if i >= len(p.rest) || !c06TypeOK(p.rest[i].Kind, p.rest[i].Text, tt) || string(data) != p.rest[i].Text {
			t.Failf("%q: non-error token %d is %v %s, want %v", p.src, i, tt, fw.Q(data), p.rest[min(i, len(p.rest)):])
			return
		}
		i++
	}
	if nerr != p.nerr || i != len(p.rest) {
		t.Failf("%q: %d errors and %d tokens, want %d and %d", p.src, nerr, i, p.nerr, len(p.rest))
		return
	}
	t.Count("probes", 1)
	t.Nontrivial([]byte(p.name))
}

func init() {
	nvocab := len(gen.JSPunctuators) + len(gen.JSReserved) + len(gen.JSContextual)
	fw.Register(&fw.Prop{
		ID: "C06",
		Rule: "sequence/pair: token sequences (about 1-60 / 2-4 generated tokens plus separators and template parts) over the whole ECMAScript 2023 token vocabulary - all 57 punctuators, 38 reserved words, 16 contextual keywords, " +
			"identifiers (ASCII, BMP and astral letters, ZWNJ/ZWJ, combining marks, \\uXXXX and \\u{...} escapes, keyword look-alikes), private names, numeric literals of all radixes with separators and BigInt suffix, strings with every escape " +
			"kind, line continuations and raw U+2028/9, template literals nested up to 5 deep with '{' '}' inside substitutions, regular expression literals (only where the harness calls RegExp()), single- and multi-line comments, " +
			"13 whitespace and 5 line-terminator spellings - written with a separator token (whitespace, line terminator or comment; itself part of the expected sequence) exactly where the conservative would-merge predicate gen.JSNeedSep asks for one; " +
			"the lexer output must be the written (type, text) sequence, RegExp() must return the written literal, and hook H4 (level, open templates) must equal the generator's bookkeeping after every token. " +
			"vocabulary: every punctuator/keyword alone and between separators, Keywords vs Bytes() tables. hostile: mutated JS corpus (valid UTF-8): every punctuator/operator/keyword token's Bytes() equals its text, no IdentifierToken spells a keyword, " +
			"RegExp() agrees with a reference scanner wherever that finds a well-formed literal. non-trivial = at least 3 tokens (2 for pair); distinct by source bytes",
		Assume: []string{
			"token types of numeric literals are the library's: Integer = decimal integer incl. BigInt, Decimal = fraction and/or exponent, Hexadecimal/Octal/Binary by prefix (pinned by TestTokens)",
			"a punctuator/keyword token type is accepted when it is of the right class and its canonical spelling Bytes() equals the text (the unused aliases PosToken, NegToken, ... share spellings)",
			"an identifier containing an escape is an IdentifierToken even when its decoded value spells a keyword (its text is not the canonical spelling)",
			"adjacent whitespace tokens and adjacent line-terminator tokens (incl. CR LF) are one token each, as the lexer documents; the expected sequence is merged the same way",
			"not generated (outside the statement or Annex B): legacy octal and 08-style literals, 0_1, a digit/identifier/'.' directly after a number, HTML-like comments '<!--' and a line-initial '-->' (a separator breaks them up; mid-line 'a-->b' is generated), hashbang, '#' other than a private name, regular expression literals where RegExp() is not called",
			"inside a template substitution '{' '(' ')' '}' are generated properly nested (the lexical goal symbol for '}' is only defined through the syntactic grammar); at the top level brackets are unconstrained",
			"a separator is inserted whenever gen.JSNeedSep cannot exclude merging; the only juxtaposition kept on the strength of the grammar's own lookahead rule is '?' followed by '.' digit ('?.5' is '?' '.5')",
			"hostile stream: tokens after a lexical error are still checked (the lexer documents that it continues after an error); RegExp() results on malformed literals are not judged",
		},
		Required: []string{"tokens", "sequences", "probes", "vocabulary entries", "hook H4 comparisons", "regexps re-read", "regexps with '/' in a class or escaped",
			"multi-line comments with line terminator", "multi-line comments without line terminator", "'}' resuming a template", "'}' closing a block inside a substitution",
			"sequences reaching template depth 5", "juxtaposed pairs", "juxtaposed '?' '.5'", "juxtaposed '--' '>' (mid-line)", "juxtaposed '<' '!' '-'", "hostile: spelled tokens checked", "hostile: identifiers checked", "hostile: well-formed regexps re-read"},
		Streams: []fw.Stream{
			{Name: "probes", Quick: len(c06Probes) + len(c06ErrorProbes), Thorough: len(c06Probes) + len(c06ErrorProbes), Run: c06Probe},
			{Name: "vocabulary", Quick: nvocab, Thorough: nvocab, Run: c06Vocabulary},
			{Name: "sequence", Quick: 600000, Thorough: 40000000, Run: c06Sequence},
			{Name: "pair", Quick: 900000, Thorough: 60000000, Run: c06Pair},
			{Name: "hostile", Quick: 400000, Thorough: 24000000, Run: c06Hostile},
		},
	})
}
