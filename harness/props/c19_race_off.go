//go:build !race

package props

func c19RaceCount() int { return 0 }

func c19CaptureStderr() func() string { return func() string { return "" } }
