package props

import (
	"bytes"
	"fmt"
	"io"
	"strings"
	"unicode/utf8"

	"github.com/tdewolff/parse/v2"
	"github.com/tdewolff/parse/v2/js"
	"github.com/tdewolff/parse/v2/json"

	"vh/fw"
	"vh/gen"
)

// C15 — reported line, column and context locate the offending byte.
//
// Three monitors:
//  (1) parse.Position on generated valid-UTF-8 texts x ALL offsets in [-1, len+1] against the reference
//      c15RefPos and the context oracle c15CheckContext (c15_ref.go);
//  (2) hook H1 (parse.VerifOnNewError) on hostile inputs over every streaming entry point and js.Parse: the
//      offset every Error is built from lies in [0, len(input)] and the Error's (Line, Column, Context) are
//      what parse.Position returns for the caller's (pristine) input at that offset;
//  (3) valid generated JSON / JavaScript documents with ONE illegal character inserted at a token boundary:
//      the reported (Line, Column) is the reference position of that character.

type c15PosCase struct {
	Text   fw.B   `json:"text"`
	Reader string `json:"reader"`
	Offset *int   `json:"failingOffset,omitempty"`
}

var c15Readers = []string{"buffer", "buffer-tight", "strings.Reader", "sched"}

// c15Position calls the real Position through one of the reader kinds (the library takes a shortcut for
// readers with a Bytes() method and io.ReadAll otherwise).
func c15Position(kind string, text []byte, spare []byte, off int) (line, col int, ctx string, panicked string) {
	var rd io.Reader
	switch kind {
	case "buffer": // Bytes() shortcut, room for the terminator: no allocation
		rd = bytes.NewBuffer(spare[:len(text)])
	case "buffer-tight":
		rd = bytes.NewBuffer(text[:len(text):len(text)])
	case "strings.Reader":
		rd = strings.NewReader(string(text))
	default:
		rd = &gen.SchedReader{Data: text, Chunks: []int{1, 0, 3, 7, 64}}
	}
	panicked = fw.Guard(func() { line, col, ctx = parse.Position(rd, off) })
	return
}

// c15CheckAt runs Position(text, off) and checks line, column and context. It returns false after a violation.
func c15CheckAt(t *fw.T, kind string, text, spare []byte, off int) bool {
	line, col, ctx, p := c15Position(kind, text, spare, off)
	t.Count("position.calls", 1)
	if p != "" {
		t.Failf("Position(text, %d): %s", off, p)
		return false
	}
	wl, wc, ls := c15RefPos(text, off)
	if line != wl || col != wc {
		t.Failf("Position(text, %d) = line %d column %d, reference line %d column %d (len %d)", off, line, col, wl, wc, len(text))
		return false
	}
	if why := c15CheckContext(text, line, col, ls, ctx); why != "" {
		t.Failf("Position(text, %d) = line %d column %d, context %q: %s", off, line, col, ctx, why)
		return false
	}
	// evidence: which regime of the context the call exercised
	nl := strings.IndexByte(ctx, '\n')
	first := ctx[:nl]
	body := first[strings.Index(first, ": ")+2:]
	switch f, r := strings.HasPrefix(body, "..."), strings.HasSuffix(body, "..."); {
	case f && r:
		t.Count("context.elided_both", 1)
	case f:
		t.Count("context.elided_front", 1)
	case r:
		t.Count("context.elided_rear", 1)
	default:
		t.Count("context.whole_line", 1)
	}
	if strings.ContainsRune(body, '·') {
		t.Count("context.with_middle_dot", 1)
	}
	if off >= 0 && off < len(text) && !utf8.RuneStart(text[off]) {
		t.Count("offset.inside_multibyte", 1)
	}
	if off > 0 && off < len(text) && text[off-1] == '\r' && text[off] == '\n' {
		t.Count("offset.inside_crlf", 1)
	}
	return true
}

func c15Spare(text []byte) []byte {
	spare := make([]byte, len(text)+1)
	copy(spare, text)
	return spare
}

func c15Texts(t *fw.T) {
	r := t.Rng
	var text []byte
	long := 0
	if r.Intn(10) == 0 {
		// arbitrary valid UTF-8 with arbitrary break placement (\r\n pairs, breaks back to back)
		text = gen.UTF8(r, gen.SmallLen(r, 150))
	} else {
		text, long = c15Text(r, 6, 420)
	}
	kind := gen.Pick(r, c15Readers)
	cs := &c15PosCase{Text: text, Reader: kind}
	t.Desc(cs)
	pristine := append([]byte(nil), text...)
	spare := c15Spare(text)
	for off := -1; off <= len(text)+1; off++ {
		if !c15CheckAt(t, kind, text, spare, off) {
			o := off
			cs.Offset = &o
			return
		}
	}
	if !bytes.Equal(text, pristine) || !bytes.Equal(spare[:len(text)], pristine) {
		// not a clause of C15 (library and reference saw the same bytes at every call); recorded only
		t.Count("position.modified_its_input", 1)
	}
	t.Seen("reader", kind)
	if long > 0 {
		t.Count("texts.with_long_line", 1)
	}
	if long > 0 && bytes.ContainsAny(text, "\n\r") && !c15IsASCII(text) {
		// non-trivial: a line beyond the elision limit, more than one line, multi-byte characters
		t.Nontrivial(text)
	}
	t.Sample(map[string]any{"text": text, "reader": kind, "offsets": len(text) + 3})
}

func c15IsASCII(b []byte) bool {
	for _, c := range b {
		if c >= 0x80 {
			return false
		}
	}
	return true
}

// c15Many: line numbers around 10^4, 10^5 (and 10^6 in the thorough tier): the width of the printed line number.
func c15Many(t *fw.T) {
	r := t.Rng
	around := []int{10000, 100000, 100000, 100000}[t.Index%4]
	if t.Thorough() && t.Index%8 == 7 {
		around = 1000000
	}
	text, tail := c15ManyLines(r, around)
	nl, _, _ := c15RefPos(text, len(text))
	kind := gen.Pick(r, c15Readers[:3])
	t.Desc(map[string]any{"generator": "c15ManyLines", "around": around, "lines": nl, "reader": kind,
		"tail": append([]byte(nil), text[tail:]...), "len": len(text)})
	spare := c15Spare(text)
	offs := []int{-1, 0, len(text), len(text) + 1}
	for i := 0; i < 60; i++ {
		offs = append(offs, tail+r.Intn(len(text)-tail+1))
	}
	for i := 0; i < 6; i++ {
		offs = append(offs, r.Intn(len(text)+1))
	}
	for _, off := range offs {
		if !c15CheckAt(t, kind, text, spare, off) {
			return
		}
		if l, _, _ := c15RefPos(text, off); l >= 100000 {
			t.Count("position.line_ge_100000", 1)
		}
	}
	t.Nontrivial([]byte(fmt.Sprint(around, nl, len(text), t.Index)))
}

// ---------------------------------------------------------------------------------------------
// (2) every Error built while lexing / parsing hostile inputs
// ---------------------------------------------------------------------------------------------

type c15HookCase struct {
	Entry string `json:"entry"`
	Ctor  string `json:"ctor"`
	Data  fw.B   `json:"data"`
}

type c15Rec struct {
	off int
	msg string
}

// c15OnlyLowered reports whether cur is the original with nothing but A-Z -> a-z rewrites (what the HTML lexer
// does in place to tag and attribute names).
func c15OnlyLowered(pristine, cur []byte) bool {
	if len(cur) != len(pristine) {
		return false
	}
	for i, c := range pristine {
		if cur[i] != c && !(c >= 'A' && c <= 'Z' && cur[i] == c+('a'-'A')) {
			return false
		}
	}
	return true
}

// c15CheckError compares an Error handed to the caller with the hook record it was built from. pristine is the
// caller's original input, cur the lexer's buffer when the Error was obtained.
//
// Reading: line and column must locate the byte in the ORIGINAL input. The context must be the one Position
// computes on the original input; for the HTML lexer, which by design lower-cases tag and attribute names in
// place, the context of the lower-cased buffer is accepted as well (same line, same column, same caret; only the
// case of ASCII letters in the shown line differs).
func c15CheckError(t *fw.T, entry string, e *parse.Error, recs []c15Rec, pristine, cur []byte, cursor int) bool {
	t.Count("errors.checked", 1)
	t.Seen("error entry", entry)
	if len(recs) == 0 {
		t.Failf("%s: returned a *parse.Error (%q) that was not built by NewError", entry, e.Message)
		return false
	}
	rc := recs[len(recs)-1]
	if !strings.Contains(rc.msg, "%") && rc.msg != e.Message {
		t.Failf("%s: returned Error %q, the last Error built was %q", entry, e.Message, rc.msg)
		return false
	}
	t.Seen("error message", rc.msg)
	if rc.off < 0 || rc.off > len(pristine) {
		t.Failf("%s: Error %q built from offset %d outside the input [0,%d]", entry, e.Message, rc.off, len(pristine))
		return false
	}
	// "the byte at which that parser stopped": a parser cannot have stopped beyond the byte its cursor has reached
	if rc.off > cursor {
		t.Failf("%s: Error %q built from offset %d, but the cursor has only reached offset %d", entry, e.Message, rc.off, cursor)
		return false
	}
	wl, wc, wctx := parse.Position(bytes.NewReader(pristine), rc.off)
	ctxText := pristine
	if e.Context != wctx && strings.HasPrefix(entry, "html.") && c15OnlyLowered(pristine, cur) {
		ctxText = append([]byte(nil), cur...)
		_, _, wctx = parse.Position(bytes.NewReader(ctxText), rc.off)
		t.Count("errors.context_of_lowercased_html", 1)
	}
	if e.Line != wl || e.Column != wc || e.Context != wctx {
		t.Failf("%s: Error %q built from offset %d carries (line %d, column %d, context %q); Position(input, %d) = (line %d, column %d, context %q)",
			entry, e.Message, rc.off, e.Line, e.Column, e.Context, rc.off, wl, wc, wctx)
		return false
	}
	if gl, gc, gctx := e.Position(); gl != e.Line || gc != e.Column || gctx != e.Context {
		t.Failf("%s: Error.Position() differs from the Error's fields", entry)
		return false
	}
	if utf8.Valid(pristine) { // the statement's domain for the reference
		rl, rcol, ls := c15RefPos(pristine, rc.off)
		if e.Line != rl || e.Column != rcol {
			t.Failf("%s: Error %q at offset %d: line %d column %d, reference line %d column %d", entry, e.Message, rc.off, e.Line, e.Column, rl, rcol)
			return false
		}
		if why := c15CheckContext(ctxText, e.Line, e.Column, ls, e.Context); why != "" {
			t.Failf("%s: Error %q at offset %d, context %q: %s", entry, e.Message, rc.off, e.Context, why)
			return false
		}
		t.Count("errors.checked_against_reference", 1)
	}
	if e.Line > 1 {
		t.Count("errors.beyond_first_line", 1)
	}
	return true
}

func c15Hook(t *fw.T) {
	r := t.Rng
	k := r.Intn(len(entryPoints) + 4) // js.Parse gets 4 shares
	name, lang := "js.Parse", "js"
	if k < len(entryPoints) {
		name, lang = entryPoints[k].name, entryPoints[k].lang
	}
	li := langs[lang]
	maxLen := 256
	if r.Intn(30) == 0 {
		maxLen = 16384
	}
	_ = li
	data := hostileInput(r, lang, maxLen)
	if r.Intn(4) == 0 { // errors beyond the first line, after multi-byte characters
		pre := gen.Pick(r, []string{"\n", "\r\n\n", " \n \r ", "/* é */\n", "\t \n"})
		data = append([]byte(pre), data...)
	}
	if r.Intn(3) == 0 {
		data = gen.ToValidUTF8(data)
	}
	ctor := gen.Pick(r, inputCtors)
	c15HookRun(t, k, name, ctor, data)
}

// staleErrorMatters: entry points that build a new Error for every error they report (the css parser's Err()); the
// lexers and the JSON parser keep reporting their first error, which is their documented behaviour.
func staleErrorMatters(entry string) bool { return strings.HasPrefix(entry, "css.parser") }

// c15HookRun drives entry point k (len(entryPoints) = js.Parse) over data with H1 installed.
func c15HookRun(t *fw.T, k int, name, ctor string, data []byte) (checked int) {
	r := t.Rng
	t.Desc(&c15HookCase{Entry: name, Ctor: ctor, Data: data})
	pristine := append([]byte(nil), data...)
	in, _ := mkInput(r, data, ctor)

	var recs []c15Rec
	parse.VerifOnNewError = func(off int, msg string) { recs = append(recs, c15Rec{off, msg}) }
	defer func() { parse.VerifOnNewError = nil }()

	if k >= len(entryPoints) {
		var err error
		o := jsOptions[r.Intn(len(jsOptions))]
		if p := fw.Guard(func() { _, err = js.Parse(in, o) }); p != "" {
			t.Failf("js.Parse: %s", p)
			return -1
		}
		if e, ok := err.(*parse.Error); ok {
			if !c15CheckError(t, name, e, recs, pristine, in.Bytes(), in.Offset()) {
				return -1
			}
			checked++
		}
	} else {
		step := entryPoints[k].mk(in, r)
		var last *parse.Error
		sticky := 0
		for calls := 0; calls < 4*len(data)+64 && sticky < 3; calls++ {
			before := in.Offset()
			nrecs := len(recs)
			var isErr bool
			var err error
			if p := fw.Guard(func() {
				var errFn func() error
				isErr, _, _, errFn = step()
				if isErr {
					err = errFn()
				}
			}); p != "" {
				t.Failf("%s: %s", name, p)
				return -1
			}
			if !isErr {
				sticky = 0
				continue
			}
			if in.Offset() == before {
				sticky++
			}
			if e, ok := err.(*parse.Error); ok && e == last && in.Offset() > before && len(recs) == nrecs && staleErrorMatters(name) {
				// the parser moved on and reports an error again, but no Error was built for it: the one it hands out
				// still carries the position of the earlier error
				t.Failf("%s: after advancing from offset %d to %d the call reports the *parse.Error of an earlier position again (%q, line %d column %d) instead of building one for the new position", name, before, in.Offset(), e.Message, e.Line, e.Column)
				return -1
			}
			if e, ok := err.(*parse.Error); ok && e != last {
				last = e
				if !c15CheckError(t, name, e, recs, pristine, in.Bytes(), in.Offset()) {
					return -1
				}
				checked++
			}
		}
	}
	// every Error built, also those that never reached the caller
	for _, rc := range recs {
		t.Count("hook.newerror", 1)
		if rc.off < 0 || rc.off > len(pristine) {
			t.Failf("%s: an Error (%q) was built from offset %d outside the input [0,%d]", name, rc.msg, rc.off, len(pristine))
			return -1
		}
	}
	t.Seen("entry", name)
	if checked > 0 && len(data) >= 3 {
		t.Nontrivial(append([]byte(name), data...))
		t.Sample(map[string]any{"entry": name, "ctor": ctor, "data": data, "errors": checked})
	}
	return checked
}

// ---------------------------------------------------------------------------------------------
// (3) one illegal character at a token boundary of a valid JSON / JavaScript document
// ---------------------------------------------------------------------------------------------

var c15Illegal = []string{"@", "\x01", "‰", "\x7f"}

// in JavaScript a backslash outside a string, template, regular expression or well-formed \u escape is illegal too
var c15IllegalJS = append(append([]string{}, c15Illegal...), "\\")

func c15EscapeFollows(rest []byte) bool {
	if len(rest) < 2 || rest[0] != 'u' {
		return false
	}
	if rest[1] == '{' {
		return true
	}
	n := 0
	for n < 4 && 1+n < len(rest) && (rest[1+n] >= '0' && rest[1+n] <= '9' || rest[1+n]|0x20 >= 'a' && rest[1+n]|0x20 <= 'f') {
		n++
	}
	return n == 4
}

type c15InsCase struct {
	Lang   string `json:"lang"`
	Doc    fw.B   `json:"doc"`
	At     *int   `json:"insertAt,omitempty"`
	Insert string `json:"insert,omitempty"`
}

func c15Insert(doc []byte, at int, ins string) []byte {
	out := make([]byte, 0, len(doc)+len(ins))
	out = append(out, doc[:at]...)
	out = append(out, ins...)
	return append(out, doc[at:]...)
}

// c15JSONErr drives the JSON parser to its first error report.
func c15JSONErr(doc []byte) (error, string) {
	var err error
	p := fw.Guard(func() {
		ps := json.NewParser(parse.NewInputBytes(append([]byte(nil), doc...)))
		for i := 0; i < 4*len(doc)+64; i++ {
			if gt, _ := ps.Next(); gt == json.ErrorGrammar {
				err = ps.Err()
				return
			}
		}
	})
	return err, p
}

func c15Points(starts, ends []int, n int) []int {
	seen := map[int]bool{}
	var pts []int
	add := func(p int) {
		if !seen[p] {
			seen[p] = true
			pts = append(pts, p)
		}
	}
	add(0)
	for i := range starts {
		add(starts[i])
		add(ends[i])
	}
	add(n)
	return pts
}

func c15InsJSON(t *fw.T) {
	r := t.Rng
	toks := gen.JSONDoc(r, 1+r.Intn(5))
	// more line structure than JSONDoc's own white space: mixed \n, \r, \r\n in front of some tokens
	for i := range toks {
		if r.Intn(5) == 0 {
			toks[i].Pre += gen.Pick(r, []string{"\n", "\r", "\r\n", "\n\t", "\r\n  ", "\n\n"})
		}
	}
	doc, starts := gen.JSONSpell(toks, gen.Pick(r, []string{"", "", " ", "\n", "\r\n"}))
	cs := &c15InsCase{Lang: "json", Doc: doc}
	t.Desc(cs)
	if err, p := c15JSONErr(doc); p != "" || err != io.EOF {
		t.Count("json.base_rejected", 1) // not this property's business (C10)
		return
	}
	t.Count("json.docs", 1)
	ends := make([]int, len(starts))
	for i := range starts {
		ends[i] = starts[i] + len(toks[i].Text)
	}
	for _, at := range c15Points(starts, ends, len(doc)) {
		chars := c15Illegal
		if at < len(doc) && strings.IndexByte("\"[{tfn", doc[at]) >= 0 {
			// a minus sign that no digit follows is an illegal character too (in front of a string, a container or a literal name)
			chars = append(append([]string{}, c15Illegal...), "-")
			t.Count("json.insertions.minus", 1)
		}
		for _, ins := range chars {
			mod := c15Insert(doc, at, ins)
			a := at
			cs.At, cs.Insert = &a, ins
			err, p := c15JSONErr(mod)
			if p != "" {
				t.Failf("json parser on %s: %s", fw.Q(mod), p)
				return
			}
			t.Count("json.insertions", 1)
			e, ok := err.(*parse.Error)
			if !ok {
				t.Failf("json parser reports no position for the illegal character %q inserted at offset %d (Err() = %v) in %s", ins, at, err, fw.Q(mod))
				return
			}
			wl, wc, _ := c15RefPos(mod, at)
			if e.Line != wl || e.Column != wc {
				t.Failf("json: illegal character %q inserted at offset %d (line %d column %d); reported %q at line %d column %d; document %s",
					ins, at, wl, wc, e.Message, e.Line, e.Column, fw.Q(mod))
				return
			}
			t.Seen("json error message", e.Message)
			if wl > 1 {
				t.Count("insertions.beyond_first_line", 1)
			}
		}
	}
	cs.At, cs.Insert = nil, ""
	if len(toks) >= 5 {
		t.Nontrivial(doc)
	}
	t.Sample(map[string]any{"lang": "json", "doc": doc, "points": len(starts)*2 + 2})
}

func c15InsJS(t *fw.T) {
	r := t.Rng
	toks := c15JSProgram(r)
	doc, starts, ends := c15JSSpell(r, toks)
	cs := &c15InsCase{Lang: "js", Doc: doc}
	t.Desc(cs)
	o := jsOptions[r.Intn(len(jsOptions))]
	var err error
	if p := fw.Guard(func() { _, err = js.Parse(parse.NewInputBytes(append([]byte(nil), doc...)), o) }); p != "" || err != nil {
		// the generator is meant to emit valid programs only; a rejected base document is skipped (C03's business)
		t.Count("js.base_rejected", 1)
		if err != nil {
			t.Seen("js base rejection", oneLineErr(err))
		}
		return
	}
	t.Count("js.docs", 1)
	pts := c15Points(starts, ends, len(doc))
	for pi, at := range pts {
		// all four characters at a few points, one (rotating) at the others
		chars := []string{c15IllegalJS[(pi+t.Index)%len(c15IllegalJS)]}
		if pi%8 == 0 {
			chars = c15IllegalJS
		}
		for _, ins := range chars {
			if ins == "\\" && c15EscapeFollows(doc[at:]) {
				continue // the backslash would start a well-formed \u escape of an identifier
			}
			mod := c15Insert(doc, at, ins)
			a := at
			cs.At, cs.Insert = &a, ins
			if ins == "\\" {
				t.Count("js.insertions.backslash", 1)
			}
			if p := fw.Guard(func() { _, err = js.Parse(parse.NewInputBytes(append([]byte(nil), mod...)), o) }); p != "" {
				t.Failf("js.Parse on %s: %s", fw.Q(mod), p)
				return
			}
			t.Count("js.insertions", 1)
			e, ok := err.(*parse.Error)
			if !ok {
				t.Failf("js.Parse reports no position for the illegal character %q inserted at offset %d (err = %v) in %s", ins, at, err, fw.Q(mod))
				return
			}
			wl, wc, _ := c15RefPos(mod, at)
			if e.Line != wl || e.Column != wc {
				t.Failf("js: illegal character %q inserted at offset %d (line %d column %d); reported %q at line %d column %d; document %s",
					ins, at, wl, wc, e.Message, e.Line, e.Column, fw.Q(mod))
				return
			}
			if i := strings.Index(e.Message, " in "); i >= 0 {
				t.Seen("js error context", e.Message[i:])
			}
			if wl > 1 {
				t.Count("insertions.beyond_first_line", 1)
			}
		}
	}
	cs.At, cs.Insert = nil, ""
	for _, tk := range toks {
		t.Seen("js token", tk)
	}
	if len(toks) >= 10 {
		t.Nontrivial(doc)
	}
	t.Sample(map[string]any{"lang": "js", "doc": doc, "tokens": len(toks)})
}

// ---------------------------------------------------------------------------------------------
// probes
// ---------------------------------------------------------------------------------------------

var c15Probes = []struct {
	name string
	run  func(t *fw.T)
}{
	// DESIGN §5: `%5d` widens with the line number, the caret indentation was fixed at 6+col
	{"caret-line-100000", func(t *fw.T) { c15ProbeLines(t, 99999, "abc", 1) }},
	{"caret-line-99999", func(t *fw.T) { c15ProbeLines(t, 99998, "abc", 1) }},
	{"caret-line-1000000", func(t *fw.T) { c15ProbeLines(t, 999999, "xéy", 3) }},
	{"caret-line-100000-elided", func(t *fw.T) {
		c15ProbeLines(t, 100004, strings.Repeat("0123456789", 5)+"@"+strings.Repeat("0123456789", 5), 50)
	}},
	// the XML lexer replaces \t \n \r inside quoted attribute values by spaces IN PLACE; an Error built afterwards
	// counted lines and columns on the rewritten buffer (line 1 instead of line 3 here)
	{"xml-error-after-multiline-attribute", func(t *fw.T) { c15ProbeHook(t, "xml.lexer", "<x a=\"1\n2\r\n3\t4\" b='\r'>é\x00y</x>") }},
	{"xml-error-in-tag-after-multiline-attribute", func(t *fw.T) { c15ProbeHook(t, "xml.lexer", "<x\n a='\n\n' \x00 >") }},
	// reading: the HTML lexer lower-cases names in place, the context may show the lower-cased line
	{"html-error-after-uppercase-tag", func(t *fw.T) { c15ProbeHook(t, "html.lexer", "<DIV CLASS=A>\n<svg>é\x00</svg>") }},
	// documented examples of the unit tests, as plain regression cases
	{"unit-examples", func(t *fw.T) {
		for _, c := range []struct {
			off  int
			text string
		}{{1, "\r\ny"}, {2, "x\u2028x"}, {3, "x\u2028x"}, {2, "a\x00\n"}, {-1, "x"}, {2, "x"}, {0, ""},
			{60, "012345678901234567890123456789012345678912456780123456789@12345678901234567890"}} {
			if !c15CheckAt(t, "strings.Reader", []byte(c.text), c15Spare([]byte(c.text)), c.off) {
				return
			}
		}
	}},
}

// c15ProbeHook runs one fixed input through a named entry point under the Error monitor; the input must
// produce at least one Error.
func c15ProbeHook(t *fw.T, entry string, data string) {
	for k, ep := range entryPoints {
		if ep.name == entry {
			for _, ctor := range inputCtors {
				if c15HookRun(t, k, entry, ctor, []byte(data)) == 0 {
					t.Failf("probe: %s built no Error for %q", entry, data)
				}
			}
			return
		}
	}
	t.Failf("probe: no entry point %s", entry)
}

func c15ProbeLines(t *fw.T, breaks int, lastLine string, off int) {
	text := []byte(strings.Repeat("\n", breaks) + lastLine)
	c15CheckAt(t, "buffer", text, c15Spare(text), breaks+off)
}

func c15Probe(t *fw.T) {
	p := c15Probes[t.Index%len(c15Probes)]
	t.Key("probe:" + p.name)
	t.Desc(map[string]any{"probe": p.name})
	p.run(t)
	t.Count("probes", 1)
	t.Nontrivial([]byte(p.name))
}

func init() {
	fw.Register(&fw.Prop{
		ID: "C15",
		Rule: "streams: texts = valid UTF-8 texts of 1-6 lines mixing the five break kinds, line lengths 0-200 drawn around the elision regimes (<=60, front col<=40, both, rear col>=len-23), " +
			"multi-byte / non-graphic / NUL / space-separator characters sprinkled or dense, x ALL offsets -1..len+1 x 4 reader kinds; manylines = texts ending around line 10^4 / 10^5 (10^6 thorough), ~70 offsets each; " +
			"hook = hostile inputs (gen.Hostile over the five corpora, 1/4 prefixed with line breaks) x 14 streaming entry points + js.Parse x 4 Input constructors with H1 capturing every Error built; " +
			"insjson/insjs = generated valid documents x every token boundary (start and end of every token, start and end of the document) x illegal characters @ U+0001 U+2030 0x7f. " +
			"non-trivial = text with a line > 60 code points, > 1 line and non-ASCII (texts); an Error reached the caller (hook); document of >= 5 (JSON) / >= 10 (JS) tokens accepted before the insertion",
		Assume: []string{
			"offsets outside [0,len] are clamped; an offset inside a multi-byte character or between \\r and \\n denotes that character",
			"context layout demanded: optional spaces, the line number, \": \", optional \"...\", a contiguous piece of the line of <= 64 code points, optional \"...\", newline, spaces, \"^\"; the width of the number column is layout",
			"caret: its rune index in the second line equals the rune index in the first line of the character at the offset (one past the shown text at the end of the line)",
			"the context line ends at \\n or \\r (as positionContext does); ending it at U+2028/U+2029 too would also be accepted",
			"non-printable = !unicode.IsPrint; space separators other than U+0020 (graphic, not printable) may be shown either way",
			"\"roughly 60\": shown piece <= 64 code points; when elided, at least 40 displayed code points; ellipsis present exactly on the sides where the line was cut",
			"Error clause: line and column are compared with parse.Position on the caller's ORIGINAL bytes (and with the reference when they are valid UTF-8); the context likewise, except that for the HTML lexer, which lower-cases names in place by design, the context of the lower-cased buffer is accepted too",
			"Error clause: the offset an Error is built from is in [0, len(input)] and not beyond the cursor offset at the moment the Error is obtained",
			"insertion clause: only (Line, Column) are compared; JS insertion points are edges of lexical tokens outside strings, templates, regular expressions and comments; base documents the library rejects are skipped",
		},
		Required: []string{"probes", "position.calls", "context.elided_both", "context.elided_front", "context.elided_rear", "context.whole_line", "context.with_middle_dot",
			"offset.inside_multibyte", "offset.inside_crlf", "position.line_ge_100000", "hook.newerror", "errors.checked", "errors.checked_against_reference", "errors.beyond_first_line",
			"json.insertions", "js.insertions", "insertions.beyond_first_line"},
		Streams: []fw.Stream{
			{Name: "probes", Quick: len(c15Probes), Thorough: len(c15Probes), Run: c15Probe},
			{Name: "texts", Quick: 12000, Thorough: 800000, Run: c15Texts},
			{Name: "manylines", Quick: 16, Thorough: 64, Run: c15Many},
			{Name: "hook", Quick: 160000, Thorough: 8000000, Run: c15Hook},
			{Name: "insjson", Quick: 1500, Thorough: 60000, Run: c15InsJSON},
			{Name: "insjs", Quick: 1500, Thorough: 60000, Run: c15InsJS},
		},
	})
}
