package props

import (
	"bytes"
	"fmt"
	"io"
	"sync"
	"time"

	"github.com/tdewolff/parse/v2"
	"github.com/tdewolff/parse/v2/buffer"

	"vh/fw"
)

// C20, instance independence under a blocked data source. "Any number of goroutines may each construct and drive their
// own ... on their own data at the same time ... each goroutine obtains exactly the result it obtains when running
// alone": an instance whose source is blocked inside Read/ReadAt/Seek (a pipe without data, a slow disk) must not keep
// another goroutine's instance from obtaining its result. The monitor holds instance A inside its source and asks
// instance B (own source, own data) for its result meanwhile.
//
// Verdict: logical (B completes while A is held). The 120 s wall-clock limit is a watchdog for "B never completes";
// on code that holds the property B needs microseconds, so the limit only decides when B waits for A.

type c20Gate struct {
	entered chan struct{} // closed when the source is first called
	release chan struct{} // closed by the monitor
	once    sync.Once
}

func (g *c20Gate) wait() {
	g.once.Do(func() { close(g.entered) })
	<-g.release
}

type c20GatedSeeker struct {
	r *bytes.Reader
	g *c20Gate
}

func (p *c20GatedSeeker) Read(b []byte) (int, error) { p.g.wait(); return p.r.Read(b) }
func (p *c20GatedSeeker) Seek(o int64, w int) (int64, error) {
	return p.r.Seek(o, w) // construction seeks (length discovery) are not gated: the gate closes inside the first Read
}

type c20GatedReaderAt struct {
	r *bytes.Reader
	g *c20Gate
}

func (p *c20GatedReaderAt) Read(b []byte) (int, error) { p.g.wait(); return p.r.Read(b) }
func (p *c20GatedReaderAt) ReadAt(b []byte, o int64) (int, error) {
	p.g.wait()
	return p.r.ReadAt(b, o)
}

type c20GatedReader struct {
	r io.Reader
	g *c20Gate
}

func (p *c20GatedReader) Read(b []byte) (int, error) { p.g.wait(); return p.r.Read(b) }

var c20IndepKinds = []string{"binary.seeker", "binary.readerat", "binary.plain", "streamlexer", "input.reader"}

// c20IndepUse builds an instance of the kind over data (gated when g != nil) and returns its result.
func c20IndepUse(kind string, data []byte, g *c20Gate) (res []byte) {
	defer func() {
		if p := recover(); p != nil {
			res = []byte(fmt.Sprint("panic: ", p))
		}
	}()
	n := int64(len(data))
	var src io.Reader
	switch kind {
	case "binary.seeker":
		if g != nil {
			src = &c20GatedSeeker{bytes.NewReader(data), g}
		} else {
			src = &c20Seeker{bytes.NewReader(data)}
		}
	case "binary.readerat":
		if g != nil {
			src = &c20GatedReaderAt{bytes.NewReader(data), g}
		} else {
			src = &c20ReaderAt{bytes.NewReader(data)}
		}
	default:
		if g != nil {
			src = &c20GatedReader{bytes.NewReader(data), g}
		} else {
			src = &c20PlainReader{bytes.NewReader(data)}
		}
	}
	switch kind {
	case "streamlexer":
		z := buffer.NewStreamLexerSize(src, 8)
		var out []byte
		for z.Peek(0) != 0 || z.Err() == nil {
			out = append(out, z.Peek(0))
			z.Move(1)
			z.Skip()
		}
		return out
	case "input.reader":
		return append([]byte(nil), parse.NewInput(src).Bytes()...)
	}
	r, err := parse.NewBinaryReaderReader(src, n)
	if err != nil {
		return []byte("error: " + err.Error())
	}
	var out []byte
	out = append(out, r.ReadBytes(n/2)...)
	out = append(out, r.ReadBytes(n-n/2)...)
	return out
}

func c20Independence(t *fw.T) {
	ka := c20IndepKinds[t.Index%len(c20IndepKinds)]
	kb := c20IndepKinds[(t.Index/len(c20IndepKinds))%len(c20IndepKinds)]
	t.Key(fmt.Sprintf("independence:%s|%s", ka, kb))
	t.Desc(map[string]any{"blocked": ka, "other": kb})
	dataA := []byte("instance A: data that is delivered late, 0123456789 0123456789")
	dataB := []byte("instance B: private data of another goroutine, abcdefghijklmnopqrstuvwxyz")
	g := &c20Gate{entered: make(chan struct{}), release: make(chan struct{})}
	doneA := make(chan []byte, 1)
	go func() { doneA <- c20IndepUse(ka, dataA, g) }()
	watchdog := time.NewTimer(120 * time.Second)
	defer watchdog.Stop()
	select {
	case <-g.entered:
	case <-watchdog.C:
		close(g.release)
		t.Failf("harness: instance %s never called its source", ka)
		return
	}
	// A is now inside its source's Read/ReadAt and stays there
	doneB := make(chan []byte, 1)
	go func() { doneB <- c20IndepUse(kb, dataB, nil) }()
	select {
	case got := <-doneB:
		if !bytes.Equal(got, dataB) {
			t.Failf("%s instance B returned %s while an unrelated %s instance was blocked in its source; alone it returns %s", kb, fw.Q(got), ka, fw.Q(dataB))
		}
	case <-watchdog.C:
		t.Failf("a %s instance did not obtain its result while an unrelated %s instance of another goroutine was blocked inside its data source (instances are not independent)", kb, ka)
	}
	close(g.release)
	if got := <-doneA; !t.Failed() && !bytes.Equal(got, dataA) {
		t.Failf("%s instance A returned %s after its source was released, want %s", ka, fw.Q(got), fw.Q(dataA))
	}
	t.Count("independence.pairs", 1)
	t.Seen("independence pair", ka+"|"+kb)
	t.Nontrivial([]byte(ka + "|" + kb))
}
