package props

import (
	"fmt"
	"reflect"

	"github.com/tdewolff/parse/v2/js"
)

// Reflection helpers over the library's JS tree (ground truth for C03/C05/C18).

var (
	jsScopeType    = reflect.TypeOf(js.Scope{})
	jsScopePtrType = reflect.TypeOf(&js.Scope{})
	jsVarPtrType   = reflect.TypeOf(&js.Var{})
	jsLiteralType  = reflect.TypeOf(js.LiteralExpr{})
	// wrappers that Walk passes over: it enters what they hold (ClassElement: its Method or its Field)
	jsWrapperTypes = map[reflect.Type]bool{reflect.TypeOf(js.ClassElement{}): true}
	jsGroupPtrType = reflect.TypeOf(&js.GroupExpr{})
)

// jsUngroup removes every *js.GroupExpr from the tree in place (parentheses are not part of the structure the
// grammar prescribes). Scope tables are not touched.
func jsUngroup(ast *js.AST) {
	ungroupValue(reflect.ValueOf(ast).Elem(), 0)
}

func stripGroup(v reflect.Value) {
	// v is a settable interface value
	for v.Kind() == reflect.Interface && !v.IsNil() && v.Elem().Type() == jsGroupPtrType {
		g := v.Elem().Interface().(*js.GroupExpr)
		if g.X == nil {
			return
		}
		v.Set(reflect.ValueOf(g.X))
	}
}

func ungroupValue(v reflect.Value, depth int) {
	if depth > 5000 {
		return
	}
	switch v.Kind() {
	case reflect.Interface:
		if v.IsNil() {
			return
		}
		if v.CanSet() {
			stripGroup(v)
		}
		ungroupValue(v.Elem(), depth+1)
	case reflect.Ptr:
		if v.IsNil() || v.Type() == jsScopePtrType || v.Type() == jsVarPtrType {
			return
		}
		ungroupValue(v.Elem(), depth+1)
	case reflect.Struct:
		if v.Type() == jsScopeType {
			return
		}
		for i := 0; i < v.NumField(); i++ {
			f := v.Field(i)
			if v.Type().Field(i).PkgPath != "" { // unexported
				continue
			}
			ungroupValue(f, depth+1)
		}
	case reflect.Slice:
		if v.Type().Elem().Kind() == reflect.Uint8 {
			return
		}
		for i := 0; i < v.Len(); i++ {
			ungroupValue(v.Index(i), depth+1)
		}
	}
}

// jsTreePositions enumerates, by reflection, the tree positions Walk is required to visit: every non-nil
// IStmt / IExpr / IBinding interface value, every *Var and every *BlockStmt reachable through fields other than
// Scope / *Scope. Each position is reported with the node (pointer) found there and its parent position index.
type jsPos struct {
	node   any
	parent int
}

func jsTreePositions(ast *js.AST) []jsPos { return jsTreePositionsOpt(ast, false) }

// jsTreePositionsOpt: with subStructs, the addressable structures inside the tree whose pointer type is a node
// (Element, Property, PropertyName, Params, BindingElement, Args/Arg, CaseClause, ClassElement, Field, Alias, …) are
// positions too; LiteralExpr (embedded by value in names) and zero-sized structs are not.
func jsTreePositionsOpt(ast *js.AST, subStructs bool) []jsPos {
	var out []jsPos
	var walk func(v reflect.Value, parent int, depth int)
	fromSlice := false
	iNode := reflect.TypeOf((*js.INode)(nil)).Elem()
	add := func(node any, parent int) int {
		out = append(out, jsPos{node, parent})
		return len(out) - 1
	}
	walk = func(v reflect.Value, parent int, depth int) {
		if depth > 5000 {
			return
		}
		switch v.Kind() {
		case reflect.Interface:
			if v.IsNil() {
				return
			}
			e := v.Elem()
			if e.Kind() == reflect.Ptr && !e.IsNil() && e.Type().Implements(iNode) {
				idx := add(e.Interface(), parent)
				if e.Type() != jsVarPtrType {
					walk(e.Elem(), idx, depth+1)
				}
				return
			}
			walk(e, parent, depth+1)
		case reflect.Ptr:
			if v.IsNil() || v.Type() == jsScopePtrType {
				return
			}
			if v.Type() == jsVarPtrType {
				add(v.Interface(), parent)
				return
			}
			if v.Type() == reflect.TypeOf(&js.BlockStmt{}) {
				idx := add(v.Interface(), parent)
				walk(v.Elem(), idx, depth+1)
				return
			}
			walk(v.Elem(), parent, depth+1)
		case reflect.Struct:
			if v.Type() == jsScopeType {
				return
			}
			elem := fromSlice
			fromSlice = false
			// a zero struct held in a field is an absent part (the Field of a ClassElement that is a method, the name of …); a
			// zero element of a list is present (the hole of [1,,2])
			if subStructs && v.CanAddr() && v.Type().Size() > 0 && v.Type() != jsLiteralType && !jsWrapperTypes[v.Type()] && (elem || !v.IsZero()) && reflect.PtrTo(v.Type()).Implements(iNode) {
				if n := len(out); n == 0 || ptrKey(out[n-1].node) != ptrKey(v.Addr().Interface()) { // not the struct a pointer position was just added for
					parent = add(v.Addr().Interface(), parent)
				}
			}
			for i := 0; i < v.NumField(); i++ {
				if v.Type().Field(i).PkgPath != "" {
					continue
				}
				walk(v.Field(i), parent, depth+1)
			}
		case reflect.Slice:
			if v.Type().Elem().Kind() == reflect.Uint8 {
				return
			}
			for i := 0; i < v.Len(); i++ {
				fromSlice = v.Index(i).Kind() == reflect.Struct
				walk(v.Index(i), parent, depth+1)
				fromSlice = false
			}
		}
	}
	root := add(ast, -1)
	walk(reflect.ValueOf(ast).Elem(), root, 0)
	return out
}

// jsTreeDiff compares two trees field by field (exported fields; Scope tables excluded; a *Var is compared by the
// name of its root). It returns "" when they are equal and otherwise the path of the
// first difference. It sees what String() hides: token types of literals, flags, nil versus empty nodes.
func jsTreeDiff(a, b *js.AST) string {
	return diffValue(reflect.ValueOf(a).Elem(), reflect.ValueOf(b).Elem(), "AST", 0)
}

func varRoot(v *js.Var) *js.Var {
	for v.Link != nil {
		v = v.Link
	}
	return v
}

func diffValue(a, b reflect.Value, path string, depth int) string {
	if depth > 5000 {
		return ""
	}
	if a.Kind() != b.Kind() {
		return path + ": kinds differ"
	}
	switch a.Kind() {
	case reflect.Interface:
		if a.IsNil() != b.IsNil() {
			return fmt.Sprintf("%s: nil=%v versus nil=%v", path, a.IsNil(), b.IsNil())
		}
		if a.IsNil() {
			return ""
		}
		if a.Elem().Type() != b.Elem().Type() {
			return fmt.Sprintf("%s: %s versus %s", path, a.Elem().Type(), b.Elem().Type())
		}
		return diffValue(a.Elem(), b.Elem(), path+"("+a.Elem().Type().String()+")", depth+1)
	case reflect.Ptr:
		if a.IsNil() != b.IsNil() {
			return fmt.Sprintf("%s: nil=%v versus nil=%v", path, a.IsNil(), b.IsNil())
		}
		if a.IsNil() || a.Type() == jsScopePtrType {
			return ""
		}
		if a.Type() == jsVarPtrType {
			// by name only: which binding an occurrence denotes (Decl, Uses) is C04's matter, and a while loop printed as a
			// for loop (WhileToFor) legitimately meets the recorded C04 findings about the shared for scope
			va, vb := varRoot(a.Interface().(*js.Var)), varRoot(b.Interface().(*js.Var))
			if string(va.Data) != string(vb.Data) {
				return fmt.Sprintf("%s: Var %s versus Var %s", path, va.Data, vb.Data)
			}
			return ""
		}
		return diffValue(a.Elem(), b.Elem(), path, depth+1)
	case reflect.Struct:
		if a.Type() == jsScopeType {
			return ""
		}
		for i := 0; i < a.NumField(); i++ {
			if a.Type().Field(i).PkgPath != "" || a.Type().Field(i).Name == "Prec" {
				// Prec (DotExpr, IndexExpr) records whether the operand was written as a call or as a member expression: it
				// follows the parenthesisation, not the structure
				continue
			}
			if d := diffValue(a.Field(i), b.Field(i), path+"."+a.Type().Field(i).Name, depth+1); d != "" {
				return d
			}
		}
		return ""
	case reflect.Slice:
		if a.Type().Elem().Kind() == reflect.Uint8 {
			if string(a.Bytes()) != string(b.Bytes()) {
				return fmt.Sprintf("%s: %q versus %q", path, a.Bytes(), b.Bytes())
			}
			return ""
		}
		if a.Len() != b.Len() {
			return fmt.Sprintf("%s: %d versus %d elements", path, a.Len(), b.Len())
		}
		for i := 0; i < a.Len(); i++ {
			if d := diffValue(a.Index(i), b.Index(i), fmt.Sprintf("%s[%d]", path, i), depth+1); d != "" {
				return d
			}
		}
		return ""
	case reflect.Bool:
		if a.Bool() != b.Bool() {
			return fmt.Sprintf("%s: %v versus %v", path, a.Bool(), b.Bool())
		}
	case reflect.Int, reflect.Int8, reflect.Int16, reflect.Int32, reflect.Int64:
		if a.Int() != b.Int() {
			return fmt.Sprintf("%s: %v versus %v", path, a.Interface(), b.Interface())
		}
	case reflect.Uint, reflect.Uint8, reflect.Uint16, reflect.Uint32, reflect.Uint64:
		if a.Uint() != b.Uint() {
			return fmt.Sprintf("%s: %v versus %v", path, a.Interface(), b.Interface())
		}
	case reflect.String:
		if a.String() != b.String() {
			return fmt.Sprintf("%s: %q versus %q", path, a.String(), b.String())
		}
	}
	return ""
}
