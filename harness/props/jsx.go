package props

import (
	"reflect"

	"github.com/tdewolff/parse/v2/js"
)

// Reflection helpers over the library's JS tree (ground truth for C03/C05/C18).

var (
	jsScopeType    = reflect.TypeOf(js.Scope{})
	jsScopePtrType = reflect.TypeOf(&js.Scope{})
	jsVarPtrType   = reflect.TypeOf(&js.Var{})
	jsGroupPtrType = reflect.TypeOf(&js.GroupExpr{})
)

// jsUngroup removes every *js.GroupExpr from the tree in place (parentheses are not part of the structure the
// grammar prescribes). Scope tables are not touched.
func jsUngroup(ast *js.AST) {
	ungroupValue(reflect.ValueOf(ast).Elem(), 0)
}

func stripGroup(v reflect.Value) {
	// v is a settable interface value
	for v.Kind() == reflect.Interface && !v.IsNil() && v.Elem().Type() == jsGroupPtrType {
		g := v.Elem().Interface().(*js.GroupExpr)
		if g.X == nil {
			return
		}
		v.Set(reflect.ValueOf(g.X))
	}
}

func ungroupValue(v reflect.Value, depth int) {
	if depth > 5000 {
		return
	}
	switch v.Kind() {
	case reflect.Interface:
		if v.IsNil() {
			return
		}
		if v.CanSet() {
			stripGroup(v)
		}
		ungroupValue(v.Elem(), depth+1)
	case reflect.Ptr:
		if v.IsNil() || v.Type() == jsScopePtrType || v.Type() == jsVarPtrType {
			return
		}
		ungroupValue(v.Elem(), depth+1)
	case reflect.Struct:
		if v.Type() == jsScopeType {
			return
		}
		for i := 0; i < v.NumField(); i++ {
			f := v.Field(i)
			if v.Type().Field(i).PkgPath != "" { // unexported
				continue
			}
			ungroupValue(f, depth+1)
		}
	case reflect.Slice:
		if v.Type().Elem().Kind() == reflect.Uint8 {
			return
		}
		for i := 0; i < v.Len(); i++ {
			ungroupValue(v.Index(i), depth+1)
		}
	}
}

// jsTreePositions enumerates, by reflection, the tree positions Walk is required to visit: every non-nil
// IStmt / IExpr / IBinding interface value, every *Var and every *BlockStmt reachable through fields other than
// Scope / *Scope. Each position is reported with the node (pointer) found there and its parent position index.
type jsPos struct {
	node   any
	parent int
}

func jsTreePositions(ast *js.AST) []jsPos {
	var out []jsPos
	var walk func(v reflect.Value, parent int, depth int)
	iNode := reflect.TypeOf((*js.INode)(nil)).Elem()
	add := func(node any, parent int) int {
		out = append(out, jsPos{node, parent})
		return len(out) - 1
	}
	walk = func(v reflect.Value, parent int, depth int) {
		if depth > 5000 {
			return
		}
		switch v.Kind() {
		case reflect.Interface:
			if v.IsNil() {
				return
			}
			e := v.Elem()
			if e.Kind() == reflect.Ptr && !e.IsNil() && e.Type().Implements(iNode) {
				idx := add(e.Interface(), parent)
				if e.Type() != jsVarPtrType {
					walk(e.Elem(), idx, depth+1)
				}
				return
			}
			walk(e, parent, depth+1)
		case reflect.Ptr:
			if v.IsNil() || v.Type() == jsScopePtrType {
				return
			}
			if v.Type() == jsVarPtrType {
				add(v.Interface(), parent)
				return
			}
			if v.Type() == reflect.TypeOf(&js.BlockStmt{}) {
				idx := add(v.Interface(), parent)
				walk(v.Elem(), idx, depth+1)
				return
			}
			walk(v.Elem(), parent, depth+1)
		case reflect.Struct:
			if v.Type() == jsScopeType {
				return
			}
			for i := 0; i < v.NumField(); i++ {
				if v.Type().Field(i).PkgPath != "" {
					continue
				}
				walk(v.Field(i), parent, depth+1)
			}
		case reflect.Slice:
			if v.Type().Elem().Kind() == reflect.Uint8 {
				return
			}
			for i := 0; i < v.Len(); i++ {
				walk(v.Index(i), parent, depth+1)
			}
		}
	}
	root := add(ast, -1)
	walk(reflect.ValueOf(ast).Elem(), root, 0)
	return out
}
