package props

import (
	"io"
	"math/rand"
	"unsafe"

	"github.com/tdewolff/parse/v2"
	"github.com/tdewolff/parse/v2/css"
	"github.com/tdewolff/parse/v2/html"
	"github.com/tdewolff/parse/v2/js"
	"github.com/tdewolff/parse/v2/json"
	"github.com/tdewolff/parse/v2/xml"

	"vh/gen"
)

// step is one Next()-style call of a streaming entry point: whether it reported an error/end, the
// slices it handed to the caller, and the lexer/parser error value.
type stepFn func() (isErr bool, kind int, slices [][]byte, err func() error)

type entryPoint struct {
	name string
	lang string
	mk   func(in *parse.Input, r *rand.Rand) stepFn
}

var htmlDialects = map[string][2]string{
	"go": html.GoTemplate, "handlebars": html.HandlebarsTemplate, "mustache": html.MustacheTemplate,
	"ejs": html.EJSTemplate, "asp": html.ASPTemplate, "php": html.PHPTemplate,
}

func htmlStep(l *html.Lexer) stepFn {
	return func() (bool, int, [][]byte, func() error) {
		tt, data := l.Next()
		return tt == html.ErrorToken, int(tt), [][]byte{data, l.Text(), l.AttrKey(), l.AttrVal()}, l.Err
	}
}

var entryPoints = func() []entryPoint {
	eps := []entryPoint{
		{"css.lexer", "css", func(in *parse.Input, r *rand.Rand) stepFn {
			l := css.NewLexer(in)
			return func() (bool, int, [][]byte, func() error) {
				tt, data := l.Next()
				return tt == css.ErrorToken, int(tt), [][]byte{data}, l.Err
			}
		}},
		{"css.parser.stylesheet", "css", func(in *parse.Input, r *rand.Rand) stepFn { return cssParserStep(css.NewParser(in, false)) }},
		{"css.parser.inline", "css", func(in *parse.Input, r *rand.Rand) stepFn { return cssParserStep(css.NewParser(in, true)) }},
		{"html.lexer", "html", func(in *parse.Input, r *rand.Rand) stepFn { return htmlStep(html.NewLexer(in)) }},
		{"xml.lexer", "xml", func(in *parse.Input, r *rand.Rand) stepFn {
			l := xml.NewLexer(in)
			return func() (bool, int, [][]byte, func() error) {
				tt, data := l.Next()
				return tt == xml.ErrorToken, int(tt), [][]byte{data, l.Text(), l.AttrVal()}, l.Err
			}
		}},
		{"json.parser", "json", func(in *parse.Input, r *rand.Rand) stepFn {
			p := json.NewParser(in)
			return func() (bool, int, [][]byte, func() error) {
				gt, data := p.Next()
				_ = p.State()
				return gt == json.ErrorGrammar, int(gt), [][]byte{data}, p.Err
			}
		}},
		{"js.lexer.plain", "js", func(in *parse.Input, r *rand.Rand) stepFn {
			l := js.NewLexer(in)
			return func() (bool, int, [][]byte, func() error) {
				tt, data := l.Next()
				return tt == js.ErrorToken, int(tt), [][]byte{data}, l.Err
			}
		}},
		{"js.lexer", "js", func(in *parse.Input, r *rand.Rand) stepFn {
			l := js.NewLexer(in)
			mode := 1 + r.Intn(2) // 1: RegExp() after every / and /=, 2: at arbitrary points too
			return func() (bool, int, [][]byte, func() error) {
				tt, data := l.Next()
				slices := [][]byte{data}
				if mode > 0 && (tt == js.DivToken || tt == js.DivEqToken) || mode == 2 && tt != js.ErrorToken && r.Intn(6) == 0 {
					tt2, d2 := l.RegExp()
					slices = append(slices, d2)
					if tt2 == js.ErrorToken {
						// RegExp() failed: its error is reported by Err(); lexing continues with Next
						return false, int(tt2), slices, l.Err
					}
					tt = tt2
				}
				return tt == js.ErrorToken, int(tt), slices, l.Err
			}
		}},
	}
	for _, name := range []string{"go", "handlebars", "mustache", "ejs", "asp", "php"} {
		d := htmlDialects[name]
		eps = append(eps, entryPoint{"html.template." + name, "html", func(in *parse.Input, r *rand.Rand) stepFn {
			return htmlStep(html.NewTemplateLexer(in, d))
		}})
	}
	return eps
}()

func cssParserStep(p *css.Parser) stepFn {
	return func() (bool, int, [][]byte, func() error) {
		gt, _, data := p.Next()
		slices := [][]byte{data}
		for _, v := range p.Values() {
			slices = append(slices, v.Data)
		}
		return gt == css.ErrorGrammar, int(gt), slices, p.Err
	}
}

// mkInput builds a parse.Input over data with one of the constructors. It returns the input, and for the
// constructors that borrow the caller's array the full backing array (with canary bytes after the data).
func mkInput(r *rand.Rand, data []byte, ctor string) (in *parse.Input, backing []byte) {
	switch ctor {
	case "string":
		return parse.NewInputString(string(data)), nil
	case "tight":
		b := make([]byte, len(data))
		copy(b, data)
		return parse.NewInputBytes(b[:len(b):len(b)]), nil
	case "spare":
		backing = make([]byte, len(data)+16)
		copy(backing, data)
		for i := len(data); i < len(backing); i++ {
			backing[i] = byte(0xC3 + i*7)
		}
		return parse.NewInputBytes(backing[:len(data)]), backing
	case "reader":
		return parse.NewInput(&gen.SchedReader{Data: data, Chunks: gen.Schedule(r, len(data), 1+r.Intn(64))}), nil
	}
	panic("ctor")
}

var inputCtors = []string{"string", "tight", "spare", "reader"}

// sliceInside classifies s against the input buffer [base, base+n): 0 = outside (library constant or fresh
// allocation), 1 = inside and ends within the input, 2 = starts inside (or at the terminator) but reaches
// beyond the input's last byte.
func sliceInside(s []byte, base uintptr, n int) int {
	if len(s) == 0 {
		return 0
	}
	p := uintptr(unsafe.Pointer(unsafe.SliceData(s)))
	if p < base || p > base+uintptr(n) {
		return 0
	}
	if p+uintptr(len(s)) > base+uintptr(n) {
		return 2
	}
	return 1
}

func bufBase(in *parse.Input) uintptr {
	b := in.Bytes()
	if cap(b) == 0 {
		return 0
	}
	return uintptr(unsafe.Pointer(unsafe.SliceData(b)))
}

func sliceOffset(s []byte, base uintptr) int {
	return int(uintptr(unsafe.Pointer(unsafe.SliceData(s))) - base)
}

var _ = io.EOF
