package props

import (
	"fmt"
	"math/rand"
	"strings"

	"github.com/tdewolff/parse/v2"
	"github.com/tdewolff/parse/v2/js"

	"vh/fw"
	"vh/gen"
)

// C03 — js.Parse builds the tree the grammar prescribes; rejects bad code.
//
// The abstract program exists before any library code runs. Oracles: (1) every spelling of it is accepted under
// every Options value; (2) the fully parenthesised spelling leaves the parser no precedence, associativity or
// ASI decision, so String() of every other spelling (after removing GroupExpr nodes) must equal String() of
// that reference spelling; (3) WhileToFor must give the tree of the program whose while-loops were rewritten to
// for-loops by the generator; (4) single-bracket mutants, forbidden operator combinations and duplicate lexical
// declarations must be rejected.

type c03Case struct {
	Kind  string `json:"kind"`
	Src   fw.B   `json:"src"`
	Ref   fw.B   `json:"referenceSpelling,omitempty"`
	Style string `json:"style,omitempty"`
	Opts  string `json:"opts,omitempty"`
}

func jsParseString(src string, o js.Options) (string, *js.AST, error) {
	ast, err := js.Parse(parse.NewInputString(src), o)
	if err != nil {
		return "", nil, err
	}
	jsUngroup(ast)
	return ast.String(), ast, nil
}

var c03RefStyle = gen.JSStyle{Parens: 1, Semi: 0, WS: 1}

func c03Styles(r interface {
	Intn(int) int
	Int63() int64
}) []gen.JSStyle {
	return []gen.JSStyle{
		{Parens: 0, Semi: 0, WS: 0, Seed: r.Int63()},
		{Parens: 0, Semi: 1, WS: 2, Seed: r.Int63()},
		{Parens: 2, Semi: 2, WS: 2, Seed: r.Int63()},
		{Parens: r.Intn(3), Semi: r.Intn(3), WS: r.Intn(3), Seed: r.Int63()},
	}
}

type directiveCounter struct{ n int }

func (v *directiveCounter) Enter(n js.INode) js.IVisitor {
	if _, ok := n.(*js.DirectivePrologueStmt); ok {
		v.n++
	}
	return v
}
func (v *directiveCounter) Exit(n js.INode) {}

func countDirectives(ast *js.AST) int {
	v := &directiveCounter{}
	js.Walk(v, ast)
	return v.n
}

func countKind(n *gen.JSNode, kind string) int {
	if n == nil {
		return 0
	}
	c := 0
	if n.K == kind {
		c = 1
	}
	for _, k := range n.Kids {
		c += countKind(k, kind)
	}
	return c
}

// hasKindOutsideFunctions: like hasKind but does not look into function, method, arrow and class bodies.
func hasKindOutsideFunctions(n *gen.JSNode, kind string) bool {
	if n == nil {
		return false
	}
	switch n.K {
	case "funcdecl", "funcexpr", "arrow", "class", "propmethod", "propaccessor", "object":
		return false
	}
	if n.K == kind {
		return true
	}
	for _, c := range n.Kids {
		if hasKindOutsideFunctions(c, kind) {
			return true
		}
	}
	return false
}

func hasKind(n *gen.JSNode, kinds ...string) bool {
	if n == nil {
		return false
	}
	for _, k := range kinds {
		if n.K == k {
			return true
		}
	}
	for _, c := range n.Kids {
		if hasKind(c, kinds...) {
			return true
		}
	}
	return false
}

// whileToFor rewrites while(c) b into for(;c;){b} in a copy of the tree.
func whileToFor(n *gen.JSNode) *gen.JSNode {
	if n == nil {
		return nil
	}
	c := *n
	c.Kids = make([]*gen.JSNode, len(n.Kids))
	for i, k := range n.Kids {
		c.Kids[i] = whileToFor(k)
	}
	if c.K == "while" {
		body := c.Kids[1]
		if body.K != "block" {
			body = &gen.JSNode{K: "block", Kids: []*gen.JSNode{body}} // the converted loop keeps its body statement inside a block
		}
		return &gen.JSNode{K: "for", Kids: []*gen.JSNode{nil, c.Kids[0], nil, body}}
	}
	return &c
}

func c03Spell(t *fw.T) {
	r := t.Rng
	o := gen.JSOpts{CtxNames: r.Intn(2) == 0}
	inlineOK := r.Intn(2) == 0
	if inlineOK {
		o.NoModuleItems = true
		o.YieldName = o.CtxNames // (script code: yield is an identifier outside generators and strict code)
		o.TopReturn = r.Intn(4) == 0
	}
	prog := gen.JSProgram(r, o)
	topReturn := false
	for _, st := range prog.Root.Kids {
		if hasKindOutsideFunctions(st, "return") {
			topReturn = true
		}
	}
	ref, _ := gen.JSSpell(prog, c03RefStyle)
	t.Desc(&c03Case{Kind: "spell", Src: []byte(ref), Style: "reference"})
	opts := []js.Options{{}, {WhileToFor: true}}
	if inlineOK && !hasKind(prog.Root, "directive") {
		opts = append(opts, js.Options{Inline: true}, js.Options{Inline: true, WhileToFor: true})
	}
	if topReturn {
		// a return outside functions belongs to the body of an inline event handler only
		opts = []js.Options{{Inline: true}, {Inline: true, WhileToFor: true}}
		t.Count("inline.top-level-return", 1)
	}
	refStr := map[js.Options]string{}
	refAST := map[js.Options]*js.AST{}
	for _, op := range opts {
		s, ast, err := jsParseString(ref, op)
		if err != nil {
			t.Desc(&c03Case{Kind: "spell", Src: []byte(ref), Style: "reference", Opts: optName(op)})
			t.Failf("valid program rejected (reference spelling, %s): %v", optName(op), oneLineErr(err))
			return
		}
		refStr[op] = s
		refAST[op] = ast
		t.Count("parses", 1)
		// "use strict" is a directive exactly at the start of a function body or of the program
		if nd, want := countDirectives(ast), countKind(prog.Root, "directive"); nd != want {
			t.Desc(&c03Case{Kind: "spell", Src: []byte(ref), Style: "reference", Opts: optName(op)})
			t.Failf("the tree has %d DirectivePrologueStmt nodes, the program has %d directives (a \"use strict\" statement behind another statement is an expression statement)", nd, want)
			return
		}
	}
	base := js.Options{}
	if topReturn {
		base = js.Options{Inline: true}
	}
	w2f := base
	w2f.WhileToFor = true
	// Inline only changes what is allowed at the top level
	if s, ok := refStr[js.Options{Inline: true}]; ok && s != refStr[base] {
		t.Failf("Inline changes the tree: %s vs %s", firstDiff(s, refStr[base]), "")
		return
	}
	// WhileToFor: equals the tree of the generator-rewritten program
	if hasKind(prog.Root, "while") {
		p2 := &gen.JSProg{Root: whileToFor(prog.Root)}
		ref2, _ := gen.JSSpell(p2, c03RefStyle)
		s2, _, err := jsParseString(ref2, base)
		if err != nil {
			t.Desc(&c03Case{Kind: "spell", Src: []byte(ref2), Style: "reference(while->for)"})
			t.Failf("valid program rejected (while rewritten to for): %v", oneLineErr(err))
			return
		}
		if got := refStr[w2f]; got != s2 {
			t.Desc(&c03Case{Kind: "spell", Src: []byte(ref), Ref: []byte(ref2), Opts: "WhileToFor"})
			t.Failf("WhileToFor tree differs from the tree of the equivalent for-loop program: %s", firstDiff(got, s2))
			return
		}
		t.Count("whiletofor.compared", 1)
	} else if refStr[w2f] != refStr[base] {
		t.Failf("WhileToFor changes a program without while loops: %s", firstDiff(refStr[w2f], refStr[base]))
		return
	}
	for _, st := range c03Styles(r) {
		src, _ := gen.JSSpell(prog, st)
		for _, op := range opts {
			t.Desc(&c03Case{Kind: "spell", Src: []byte(src), Ref: []byte(ref), Style: fmt.Sprintf("%+v", st), Opts: optName(op)})
			s, ast, err := jsParseString(src, op)
			if err != nil {
				t.Failf("valid program rejected (%+v, %s): %v", st, optName(op), oneLineErr(err))
				return
			}
			if s != refStr[op] {
				t.Failf("tree differs from the fully parenthesised spelling (%+v, %s): %s", st, optName(op), firstDiff(s, refStr[op]))
				return
			}
			if d := jsTreeDiff(ast, refAST[op]); d != "" {
				t.Failf("tree differs from the fully parenthesised spelling in a field String() does not show (%+v, %s): %s (this spelling versus reference)", st, optName(op), d)
				return
			}
			t.Count("parses", 1)
			t.Count("spellings.agree", 1)
		}
	}
	c03Coverage(t, prog.Root, "")
	t.Nontrivial([]byte(ref))
	t.Sample(map[string]any{"reference": []byte(ref)})
}

// c03Coverage records operator-in-operator pairs and statement kinds for the evidence.
func c03Coverage(t *fw.T, n *gen.JSNode, parent string) {
	if n == nil {
		return
	}
	me := n.K
	if n.Op != "" {
		me += n.Op
	}
	switch n.K {
	case "bin", "unary", "assign", "cond", "comma", "preupdate", "postupdate", "arrow", "yield", "await", "new", "new0", "call", "member", "index", "optmember", "optcall", "optindex", "tagged":
		if parent != "" {
			t.Seen("operator pairs (parent>child)", parent+">"+me)
		}
		for _, k := range n.Kids {
			c03Coverage(t, k, me)
		}
		return
	}
	t.Seen("node kinds", n.K)
	for _, k := range n.Kids {
		c03Coverage(t, k, "")
	}
}

func firstDiff(a, b string) string {
	i := 0
	for i < len(a) && i < len(b) && a[i] == b[i] {
		i++
	}
	lo := i - 60
	if lo < 0 {
		lo = 0
	}
	cut := func(s string) string {
		hi := i + 80
		if hi > len(s) {
			hi = len(s)
		}
		if lo > len(s) {
			return ""
		}
		return s[lo:hi]
	}
	return fmt.Sprintf("at %d: got …%q… want …%q…", i, cut(a), cut(b))
}

var c03Forbidden = []string{"-a**b", "-a ** b", "!a**b", "typeof a**b", "a??b||c", "a||b??c", "a&&b??c", "a??b&&c", "a ?? b || c", "a+b=c", "a*b+=c", "a||b=c"}
var c03ForbiddenFrames = []string{"%s", "x=[%s]", "f(%s)", "if(%s)y", "x=(%s)", "y=%s", "x=a?(%s):b", "for(;%s;);", "z=`${%s}`", "({k:%s})"}

// c03ForbiddenFragment composes one of the operator sequences the grammar forbids from random operands and operators:
// a unary operator directly before the base of **, ?? mixed with || or && without parentheses, an assignment whose
// target is a binary expression.
// C03ForbiddenFragment is exported for the development tool jsdump.
func C03ForbiddenFragment(r *rand.Rand) string { return c03ForbiddenFragment(r) }

func c03ForbiddenFragment(r *rand.Rand) string {
	operand := func() string {
		return gen.Pick(r, []string{"a", "b", "2", "1.5", "0x10", "1n", ".5", "a.b", "a[0]", "f(x)", "this", "a.b.c", "x?.y", "`t`", "'s'", "null"})
	}
	sp := gen.Pick(r, []string{"", " "})
	switch r.Intn(3) {
	case 0:
		op := gen.Pick(r, []string{"-", "+", "!", "~", "typeof ", "void ", "delete ", "- ", "+ "})
		tail := ""
		if r.Intn(3) == 0 {
			tail = gen.Pick(r, []string{" + 1", " * c", " ** d", " || e"})
		}
		head := ""
		if r.Intn(3) == 0 {
			head = gen.Pick(r, []string{"1 + ", "c * ", "x = ", "y - "})
		}
		return head + op + operand() + sp + "**" + sp + operand() + tail
	case 1:
		lo := gen.Pick(r, []string{"||", "&&"})
		if r.Intn(2) == 0 {
			return operand() + sp + "??" + sp + operand() + sp + lo + sp + operand()
		}
		return operand() + sp + lo + sp + operand() + sp + "??" + sp + operand()
	default:
		bin := gen.Pick(r, []string{"+", "-", "*", "/", "%", "**", "<<", ">>", ">>>", "<", ">", "<=", ">=", "==", "!=", "===", "!==", "&", "|", "^", "&&", "||", "??", " in ", " instanceof "})
		asg := gen.Pick(r, []string{"=", "+=", "-=", "*=", "/=", "%=", "**=", "<<=", ">>=", ">>>=", "&=", "|=", "^=", "&&=", "||=", "??="})
		return gen.Pick(r, []string{"a", "b", "a.b", "x[0]"}) + sp + bin + sp + gen.Pick(r, []string{"b", "c", "a.b", "x[0]"}) + sp + asg + sp + operand()
	}
}

func c03Reject(t *fw.T) {
	r := t.Rng
	ctx := r.Intn(2) == 0
	prog := gen.JSProgram(r, gen.JSOpts{NoModuleItems: true, MaxStmts: 3, NoRegex: true, CtxNames: ctx, YieldName: ctx})
	st := gen.JSStyle{Parens: r.Intn(3), Semi: 0, WS: r.Intn(2), Seed: r.Int63()}
	src, _ := gen.JSSpell(prog, st)
	if _, err := js.Parse(parse.NewInputString(src), js.Options{}); err != nil {
		t.Desc(&c03Case{Kind: "reject-base", Src: []byte(src)})
		t.Failf("valid program rejected: %v", oneLineErr(err))
		return
	}
	var mutant, kind string
	toks := gen.JSSpellTokens(prog, st)
	c := r.Intn(3)
	for _, tk := range toks {
		if tk == "/" || tk == "/=" {
			// a bracket more or less in front of a division sign can turn it into the start of a regular expression
			// literal that swallows brackets (`f(){} / a[1] /` after a deleted '}'): ill-formedness is not certain
			c = 1 + r.Intn(2)
			t.Count("bracket.mutant.skipped.division", 1)
			break
		}
	}
	if r.Intn(5) == 0 {
		// the program cut off at a token boundary where a bracket or a template substitution is still open: the
		// missing closing bracket is never supplied by the end of the input
		var cuts []int
		depth := 0
		for i, tk := range toks {
			if i > 0 && depth > 0 {
				cuts = append(cuts, i)
			}
			switch {
			case len(tk) == 1 && strings.ContainsAny(tk, "([{"):
				depth++
			case len(tk) == 1 && strings.ContainsAny(tk, ")]}"):
				depth--
			case strings.HasSuffix(tk, "${") && tk[0] == '`':
				depth++
			case tk[0] == '}' && len(tk) > 1 && strings.HasSuffix(tk, "`"):
				depth--
			}
		}
		if len(cuts) > 0 {
			at := cuts[r.Intn(len(cuts))]
			kind = "truncate after " + toks[at-1]
			mutant = strings.Join(toks[:at], " ")
			c = -1
		}
	}
	switch c {
	case -1:
	case 0: // delete or insert one bracket at a token boundary
		// positions inside a template substitution are left alone: there a '}' is not a bracket but the end of the
		// substitution, and what follows it is template text
		var idx, gaps []int
		depth := 0
		for i, tk := range toks {
			if depth == 0 {
				gaps = append(gaps, i)
			}
			if strings.HasSuffix(tk, "${") && (tk[0] == '`' || tk[0] == '}') {
				if tk[0] == '`' {
					depth++
				}
			} else if tk[0] == '}' && len(tk) > 1 && strings.HasSuffix(tk, "`") {
				depth--
			} else if depth == 0 && len(tk) == 1 && strings.ContainsAny(tk, "()[]{}") {
				idx = append(idx, i)
			}
		}
		gaps = append(gaps, len(toks))
		if len(idx) == 0 || r.Intn(2) == 0 {
			at := gaps[r.Intn(len(gaps))]
			br := gen.Pick(r, []string{"(", ")", "[", "]", "{", "}"})
			toks = append(toks[:at:at], append([]string{br}, toks[at:]...)...)
			kind = "insert " + br
		} else {
			at := idx[r.Intn(len(idx))]
			kind = "delete " + toks[at]
			toks = append(toks[:at:at], toks[at+1:]...)
		}
		mutant = strings.Join(toks, " ")
	case 1: // forbidden operator combination
		frag := gen.Pick(r, c03Forbidden)
		if r.Intn(3) > 0 {
			frag = c03ForbiddenFragment(r)
		}
		bad := fmt.Sprintf(gen.Pick(r, c03ForbiddenFrames), frag)
		kind = "forbidden " + bad
		if r.Intn(2) == 0 {
			mutant = src + "\n;" + bad + ";"
		} else {
			mutant = bad + ";\n" + src
		}
	default: // one lexical name declared twice in a scope
		dup := gen.Pick(r, []string{"let zz1; let zz1;", "const zz1=1; let zz1;", "let zz1; class zz1{}", "class zz1{} const zz1=2;", "let zz1=1, zz1=2;", "let zz1; var zz1;", "let [zz1,zz1]=q;", "let zz1; function zz1(){}", "var zz1; let zz1;", "function zz1(){} let zz1;", "{var zz1} let zz1;", "{{var zz1}} const zz1=1;", "var zz1; class zz1{}", "switch(q){case 1:let zz1;break;case 2:let zz1}", "switch(q){case 1:const zz1=0;default:class zz1{}}", "switch(q){default:let zz1;case 3:{}let zz1}"})
		frame := gen.Pick(r, []string{"%s", "{%s}", "function zf(){%s}", "x=()=>{%s}", "for(;;){%s}", "if(a){%s}", "class ZC{m(){%s}}", "try{}catch(e){%s}", "switch(a){case 1:%s}", "function zg(zz1){let zz1}%.0s", "try{}catch(zz1){let zz1}%.0s", "class ZD{static{%s}}"})
		bad := fmt.Sprintf(frame, dup)
		kind = "duplicate " + bad
		mutant = src + "\n;" + bad
	}
	for _, op := range jsOptions {
		t.Desc(&c03Case{Kind: "reject: " + kind, Src: []byte(mutant), Ref: []byte(src), Opts: optName(op)})
		ast, err := js.Parse(parse.NewInputString(mutant), op)
		if err == nil {
			t.Failf("ill-formed program (%s) accepted under %s", kind, optName(op))
			return
		}
		if ast != nil {
			t.Failf("ill-formed program (%s) returned as a tree together with the error", kind)
			return
		}
	}
	t.Count("mutants.rejected", 1)
	t.Seen("mutant kinds", strings.Fields(kind)[0])
	t.Nontrivial([]byte(mutant))
	if t.Index < 3 {
		t.Sample(map[string]any{"mutant": []byte(mutant), "kind": kind})
	}
}

var c03Probes = []struct {
	name, a, b string // both must be accepted and give the same tree after ungroup
}{
	{"tilde-eq-two-tokens", "x=~y", "x = ~ y"},
	{"question-eq", "a?b=1:c", "a ? (b = 1) : c"},
	{"exp-right-assoc", "a**b**c", "a**(b**c)"},
	{"nullish-with-parens", "(a??b)||c", "((a??b))||c"},
	{"asi-return", "function f(){return\nx}", "function f(){return;x;}"},
	{"arrow-body-object", "x=()=>({})", "x=(()=>(({})))"},
	{"in-in-for-init", "for(var i=(a in b);;);", "for(var i=((a) in (b));;);"},
	{"asi-newline-semicolon", "a\n;b", "a;b"},
	{"asi-newline-semicolon-if-else", "if(x)a\n;else b", "if(x)a;else b"},
	{"asi-newline-semicolon-do-while", "do a\n;while(y)", "do a;while(y);"},
	{"arrow-pattern-default", "x=([c]=[0])=>c", "x=(([c]=([0]))=>c)"},
	{"arrow-computed-key", "x=({[{m(){}}]:c})=>c", "x=(({[({m(){}})]:c})=>c)"},
	{"in-inside-brackets-of-for-init", "for(var [a=b in c]=d;;);", "for(var [a=(b in c)]=d;;);"},
	{"in-inside-arguments-of-for-init", "for(x=f(a in b);;);", "for(x=f((a in b));;);"},
	{"in-inside-optional-index-of-for-init", "for(x=a?.[b in c];;);", "for(x=a?.[(b in c)];;);"},
	{"static-async-newline", "class A{static async\n(a){}}", "class A{static async(a){}}"},
	{"static-block-var", "let a;class b{static{var a}}", "let a;class b{static{var a;}}"},
	{"nested-body-in-parens", "({}+function(){[a]})", "(({})+(function(){[a];}))"},
	{"for-in-head-identifier-async", "for(async in c);for(async.p in c);", "for((async) in (c));for(((async).p) in (c));"},
	{"asi-after-arrow-block-body", "x=()=>{}\n(1);y=a=>b=>{}\n[2].z;w=()=>{}\n/r/.test(q);v=()=>{}\n+1", "x=()=>{};(1);y=a=>b=>{};[2].z;w=()=>{};/r/.test(q);v=()=>{};+1"},
	{"asi-after-async-arrow-and-yield", "let u=async(a)=>{}\n/r/;function*g(){x=yield\n(1)}", "let u=async(a)=>{};/r/;function*g(){x=yield;(1)}"},
	{"no-asi-when-the-line-continues", "x=()=>{}\n,y=2;z=()=>a\n(1);f=function(){}\n(2)", "x=()=>{},y=2;z=()=>a(1);f=function(){}(2)"},
	{"in-inside-computed-key-of-for-init", "for(x={[a in b]:1};;);for(y=class{[c in d](){}};;);", "for(x={[(a in b)]:1};;);for(y=class{[(c in d)](){}};;);"},
	{"yield-before-template-end", "function*g(){x=`${yield}`;y=`a${yield}b${yield}c`}", "function*g(){x=`${(yield)}`;y=`a${(yield)}b${(yield)}c`}"},
	{"prefix-update-as-base-of-exp", "++a**b;x=--c**2**d", "(++a)**b;x=((--c)**(2**d))"},
	{"async-as-label", "async:while(1)break async;of:{break of}", "async:while(1)break async\nof:{break of;}"},
	{"for-init-async-function-with-in", "for(async function(){a in b};;);", "for((async function(){(a in b);});;);"},
}

// flat repetition: the parser's nesting counters must return to zero after every construct (a counter that is not
// decremented turns the 1000th statement or expression into "too many nested …")
func init() {
	rep := func(name, unit string, n int) {
		s := strings.Repeat(unit, n)
		c03Probes = append(c03Probes, struct{ name, a, b string }{name, s, s})
	}
	rep("flat-3000-expression-statements", "a;", 3000)
	rep("flat-3000-blocks", "{}", 3000)
	rep("flat-2000-if-statements", "if(a)b;else c;", 2000)
	rep("flat-2000-function-declarations", "function f(a=1){return a}", 2000)
	rep("flat-2000-arrow-and-object-statements", "x=(a,b)=>({k:[a,b]});", 2000)
	rep("flat-2000-class-expressions", "x=class{m(){}static{}#p=1};", 2000)
	rep("flat-2000-loops-and-try", "for(;;){break}while(a){}do{}while(a);try{}catch{}finally{}", 2000)
	rep("flat-1500-async-expressions", "x=async()=>1;y=async function(){};z=[async,async a=>a];", 1500)
	rep("flat-1500-mixed-operators", "x=a?.b||d&&e|f^g&h==i<j<<k+l*m**-n;y=(p??q)?r:s;", 1500)
	rep("flat-2000-templates-and-calls", "f(`a${b}c`,new g(1)?.h[2]);", 2000)
	c03Probes = append(c03Probes, struct{ name, a, b string }{"flat-3000-array-elements", "x=[" + strings.Repeat("(a),", 3000) + "]", "x=[" + strings.Repeat("a,", 3000) + "]"})
	c03Probes = append(c03Probes, struct{ name, a, b string }{"flat-3000-arguments", "f(" + strings.Repeat("(a),", 2999) + "a)", "f(" + strings.Repeat("a,", 2999) + "a)"})
}

func c03Probe(t *fw.T) {
	p := c03Probes[t.Index%len(c03Probes)]
	t.Key("probe:" + p.name)
	t.Desc(&c03Case{Kind: "probe", Src: []byte(p.a), Ref: []byte(p.b)})
	for _, op := range []js.Options{{}, {WhileToFor: true}} {
		sa, _, err := jsParseString(p.a, op)
		if err != nil {
			t.Failf("%q rejected: %v", p.a, oneLineErr(err))
			return
		}
		sb, _, err := jsParseString(p.b, op)
		if err != nil {
			t.Failf("%q rejected: %v", p.b, oneLineErr(err))
			return
		}
		if sa != sb {
			t.Failf("%q and %q give different trees: %s", p.a, p.b, firstDiff(sa, sb))
			return
		}
	}
	t.Count("probes", 1)
	t.Nontrivial([]byte(p.name))
}

func init() {
	fw.Register(&fw.Prop{
		ID: "C03",
		Rule: "streams: abstract ES2022 programs (1-6 top-level statements, expression depth <= 5; all statement kinds, declarations with destructuring, classes, functions/arrows incl. async and generators, templates, optional chains, every operator) generated before any library code runs; each is spelled in a fully parenthesised reference style and 4 other styles " +
			"(minimal/redundant parentheses, whitespace/comments/line breaks, explicit ';' vs ASI) and parsed under every applicable Options value: all must be accepted and String() after removing GroupExpr must equal that of the reference spelling; WhileToFor is compared with the generator-rewritten for-loop program; " +
			"mutants (one bracket deleted/inserted at a token boundary, forbidden operator combinations in 10 syntactic frames, a lexical name declared twice in 12 kinds of scope) must be rejected with an error and no tree. non-trivial = every generated program; distinct by reference spelling",
		Assume: []string{"the fully parenthesised spelling determines the structure: agreement of every other spelling with it is what 'the structure the grammar dictates' is checked against",
			"generated programs avoid HTML-like comments, legacy octal literals, 'let' and 'await' as identifiers (async, of, get, set, as, from and, outside generators and strict code, yield are used as names), 'with', and a lexical declaration of the name of a function declared in a nested block",
			"restricted productions are never split by a line break in generated spellings (ASI is exercised at statement ends only)"},
		Required: []string{"parses", "spellings.agree", "whiletofor.compared", "mutants.rejected", "probes"},
		Streams: []fw.Stream{
			{Name: "probes", Quick: len(c03Probes), Thorough: len(c03Probes), Run: c03Probe},
			{Name: "spell", Quick: 40000, Thorough: 1200000, Run: c03Spell},
			{Name: "reject", Quick: 60000, Thorough: 1500000, Run: c03Reject},
		},
	})
}
