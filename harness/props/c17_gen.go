package props

import (
	"encoding/json"
	stdhtml "html"
	"math/rand"
	"sort"
	"strconv"
	"strings"
	"unicode/utf8"

	"vh/gen"
)

// Workload generators of C17: a table of HTML entity names, entity maps "consistent with HTML" and
// byte strings assembled from entity fragments, whitespace and text.

// c17NameList is a sample of HTML named character references: the legacy ones that browsers (and
// html.UnescapeString) also accept without ';', every name of an ASCII character (their
// replacement can complete a reference: &num; -> '#', &semi; -> ';'), synonym groups (varphi/phiv),
// prefixes of each other (not/notin, sub/sube), the longest names and names of two code points.
// Names the standard library does not know are dropped at init, so the table is HTML by construction.
var c17NameList = strings.Fields(`
amp AMP lt LT gt GT quot QUOT apos nbsp copy COPY reg REG not para sect deg plusmn sup2 sup3 acute micro
middot cedil sup1 ordm raquo laquo frac14 frac12 frac34 iquest Agrave Aacute eacute Eacute egrave uuml Uuml
szlig yen pound cent curren brvbar uml ordf shy macr times divide aring Aring aelig AElig eth ETH thorn
Tab NewLine excl num dollar percnt lpar rpar ast midast plus comma period sol colon semi equals quest commat
lsqb lbrack bsol rsqb rbrack Hat lowbar UnderBar grave DiacriticalGrave lcub lbrace verbar vert VerticalLine
rcub rbrace
varphi phiv straightphi varpi piv varepsilon epsiv epsi epsilon vartheta thetav thetasym varrho rhov varsigma
sigmav sigmaf alpha beta gamma Gamma delta Delta pi Pi phi Phi hellip mldr mdash ndash lsquo rsquo ldquo rdquo
bull bullet euro trade TRADE larr rarr uarr darr harr infin ne le ge sum prod minus radic int
notin ni isin nsub sub sup sube supe nsup and or cap cup
CounterClockwiseContourIntegral ClockwiseContourIntegral DiacriticalAcute DiacriticalDot
DoubleLongLeftRightArrow NotNestedGreaterGreater
fjlig NotEqualTilde nvlt nvgt bne acE ThickSpace gg ll Gg Ll lE gE
`)

type c17Name struct {
	name string
	dec  string   // decoded text of "&name;"
	syn  []string // other names of the table with the same decoded text
}

var (
	c17Names  []c17Name
	c17ByName = map[string]int{}
	// the map a minifier would use: every name of the table -> its shortest normal form
	c17FullEnt  c17Ent
	c17FullKeys []string
)

func init() {
	byDec := map[string][]string{}
	for _, n := range c17NameList {
		ref := "&" + n + ";"
		d := stdhtml.UnescapeString(ref)
		if d == ref || (strings.HasSuffix(d, ";") && n != "semi") { // unknown to the reference, or only a prefix matched
			continue
		}
		if _, dup := c17ByName[n]; dup {
			continue
		}
		c17ByName[n] = len(c17Names)
		c17Names = append(c17Names, c17Name{name: n, dec: d})
		byDec[d] = append(byDec[d], n)
	}
	for i := range c17Names {
		for _, s := range byDec[c17Names[i].dec] {
			if s != c17Names[i].name {
				c17Names[i].syn = append(c17Names[i].syn, s)
			}
		}
	}
	// full map: shortest of {raw ASCII byte, decimal reference, shortest synonym, unchanged (no entry)}
	c17FullEnt = c17Ent{}
	shortestName := map[string]string{}
	for d, ns := range byDec {
		sort.Slice(ns, func(i, j int) bool {
			if len(ns[i]) != len(ns[j]) {
				return len(ns[i]) < len(ns[j])
			}
			return ns[i] < ns[j]
		})
		shortestName[d] = ns[0]
	}
	for _, e := range c17Names {
		if e.dec == "<" { // '<' stays escaped as written in the minifier-like map (the reverse map owns it)
			continue
		}
		best := "&" + shortestName[e.dec] + ";"
		if len(e.dec) == 1 {
			best = e.dec
		} else if dr := c17Decimal(e.dec); dr != "" && len(dr) < len(best) {
			best = dr
		}
		if best != "&"+e.name+";" {
			c17FullEnt[e.name] = []byte(best)
		}
	}
	// normal form: a value that is a named reference must not be a key itself
	var drop []string
	for k, v := range c17FullEnt {
		if len(v) > 1 && v[0] == '&' && v[1] != '#' {
			if _, again := c17FullEnt[string(v[1:len(v)-1])]; again {
				drop = append(drop, k)
			}
		}
	}
	for _, k := range drop {
		delete(c17FullEnt, k)
	}
	for k := range c17FullEnt {
		c17FullKeys = append(c17FullKeys, k)
	}
	sort.Strings(c17FullKeys)
}

// c17Decimal returns "&#N;" for a decoded text of exactly one code point >= 128 (the library leaves
// decimal references >= 128 alone, so such a value is in normal form), else "".
func c17Decimal(dec string) string {
	r, n := utf8.DecodeRuneInString(dec)
	if n != len(dec) || r < 128 {
		return ""
	}
	return "&#" + strconv.Itoa(int(r)) + ";"
}

// c17Ent / c17Rev are the two maps handed to the library; they marshal readably for replay files.
type c17Ent map[string][]byte
type c17Rev map[byte][]byte

func (m c17Ent) MarshalJSON() ([]byte, error) {
	s := map[string]string{}
	for k, v := range m {
		s[k] = string(v)
	}
	return json.Marshal(s)
}
func (m c17Rev) MarshalJSON() ([]byte, error) {
	s := map[string]string{}
	for k, v := range m {
		s[string(rune(k))] = string(v)
	}
	return json.Marshal(s)
}

// c17TestEnt / c17TestRev: the maps of the library's own unit tests plus nbsp.
func c17TestMaps() (c17Ent, c17Rev) {
	return c17Ent{"varphi": []byte("&phiv;"), "varpi": []byte("&piv;"), "quot": []byte("\""), "apos": []byte("'"),
		"amp": []byte("&"), "nbsp": []byte("&#160;")}, c17Rev{'\'': []byte("&#39;")}
}

// c17GenMaps draws a pair of maps that is consistent with HTML, never lengthens and is in normal form:
//
//	entitiesMap[name]  decodes (html.UnescapeString) to the same text as "&name;", is at most
//	                   len(name)+2 bytes, and is not rewritten again by the same maps: a raw text, a
//	                   decimal reference >= 128, or "&syn;" with syn not a key;
//	revEntitiesMap[c]  is a reference to the ASCII byte c that is no longer than any reference the
//	                   library resolves to c ("&lt;"/"&gt;" for < and >, the decimal reference
//	                   otherwise) and is a fixed point (if its name is a key, that key maps to raw c).
//
// This is how the unit tests and the HTML minifier build their maps (shortest form, '\” -> "&#39;",
// '<' -> "&lt;").
func c17GenMaps(r *rand.Rand) (c17Ent, c17Rev, string) {
	switch r.Intn(12) {
	case 0:
		return nil, nil, "nil"
	case 1, 2:
		e, v := c17TestMaps()
		return e, v, "unittest"
	case 3:
		return c17FullEnt, c17Rev{'<': []byte("&lt;")}, "full+lt"
	case 4:
		return c17FullEnt, nil, "full"
	}
	rev := c17Rev{}
	pinned := map[string]string{} // names that must map to this raw byte if present
	if r.Intn(3) != 0 {
		for n := r.Intn(4); n > 0; n-- {
			c := gen.Pick(r, []byte("'\"<>&#;=Ax1/ "))
			switch c {
			case '<':
				nm := gen.Pick(r, []string{"lt", "LT"})
				rev[c], pinned[nm] = []byte("&"+nm+";"), "<"
			case '>':
				nm := gen.Pick(r, []string{"gt", "GT"})
				rev[c], pinned[nm] = []byte("&"+nm+";"), ">"
			case '&':
				if r.Intn(2) == 0 {
					rev[c], pinned["amp"] = []byte("&amp;"), "&"
					break
				}
				fallthrough
			default:
				rev[c] = []byte("&#" + strconv.Itoa(int(c)) + ";")
			}
		}
	}
	// key set
	keys := map[string]bool{}
	var order []string
	add := func(n string) {
		if _, ok := c17ByName[n]; ok && !keys[n] {
			keys[n] = true
			order = append(order, n)
		}
	}
	for _, n := range []string{"amp", "quot", "apos", "lt", "gt", "nbsp", "num", "semi", "varphi"} {
		if r.Intn(5) < 3 {
			add(n)
		}
	}
	for n := gen.SmallLen(r, 40); n > 0; n-- {
		add(c17Names[r.Intn(len(c17Names))].name)
	}
	ent := c17Ent{}
	for _, n := range order {
		e := c17Names[c17ByName[n]]
		if raw, ok := pinned[n]; ok {
			ent[n] = []byte(raw)
			continue
		}
		var opts []string
		if len(e.dec) <= len(n)+2 { // raw text (UTF-8 for non-ASCII)
			ok := true
			if len(e.dec) == 1 {
				if q, has := rev[e.dec[0]]; has && len(q) > len(n)+2 {
					ok = false // the library would answer with the longer reverse form
				}
			}
			if ok {
				opts = append(opts, e.dec, e.dec)
			}
		}
		if d := c17Decimal(e.dec); d != "" && len(d) <= len(n)+2 {
			opts = append(opts, d)
		}
		for _, s := range e.syn {
			if len(s) <= len(n) && !keys[s] {
				opts = append(opts, "&"+s+";")
			}
		}
		if len(opts) > 0 {
			ent[n] = []byte(gen.Pick(r, opts))
		}
	}
	return ent, rev, "random"
}

// ---- strings -----------------------------------------------------------------------------------

var c17Codes = []int{0, 9, 10, 12, 13, 32, 33, 34, 35, 38, 39, 48, 49, 53, 57, 59, 60, 62, 65, 70, 71, 88, 97, 102, 103,
	112, 120, 122, 127, 128, 133, 159, 160, 255, 256, 960, 9999, 10000, 0xD7FF, 0xD800, 0xFFFD, 0x10FFFF, 0x110000}

func c17Numeric(r *rand.Rand, semi bool) string {
	var c uint64
	switch r.Intn(20) {
	case 0:
		c = uint64(r.Intn(0x120000))
	case 1: // values that wrap a 32- or 64-bit accumulator onto a small code
		c = uint64(gen.Pick(r, c17Codes)) + gen.Pick(r, []uint64{1 << 32, 1 << 31, 1 << 63, 3 << 32})
	default:
		c = uint64(gen.Pick(r, c17Codes))
	}
	zeros := ""
	if r.Intn(6) == 0 {
		zeros = strings.Repeat("0", 1+r.Intn(4))
		if r.Intn(8) == 0 {
			zeros = strings.Repeat("0", 20+r.Intn(30))
		}
	}
	var s string
	switch r.Intn(5) {
	case 0, 1:
		s = "&#" + zeros + strconv.FormatUint(c, 10)
	case 2:
		s = "&#x" + zeros + strconv.FormatUint(c, 16)
	case 3:
		s = "&#x" + zeros + strings.ToUpper(strconv.FormatUint(c, 16))
	default:
		s = "&#X" + zeros + strconv.FormatUint(c, 16)
	}
	if r.Intn(60) == 0 { // more digits than 64 bits hold
		s = gen.Pick(r, []string{"&#x1" + strings.Repeat("0", 14) + "41", "&#x" + strings.Repeat("F", 16),
			"&#x" + strings.Repeat("f", 17), "&#18446744073709551681", "&#x8000000000000041", "&#x1" + strings.Repeat("0", 22) + "26"})
	}
	if semi {
		s += ";"
	}
	return s
}

func c17PickName(r *rand.Rand, ent c17Ent, keys []string) string {
	if len(keys) > 0 && r.Intn(3) != 0 {
		return keys[r.Intn(len(keys))]
	}
	return c17Names[r.Intn(len(c17Names))].name
}

const (
	c17Alnum    = "abcdefghijklmnopqrstuvwxyzABCDEFXZ0123456789"
	c17Punct    = "#;&xX=<>\"'/-_.!"
	c17AttrText = "abcxyz0159-_./:;#%?+~!@$^*()[]{}|\\,"
)

var (
	c17Prefixes = []string{"&", "&#", "&#x", "&#X", "&a", "&am", "&amp", "&l", "&lt", "&g", "&nbs", "&nbsp", "&no", "&not", "&#6", "&#3",
		"&#x4", "&#x2", "&#0", "&#x0", "&#00", "&varph", "&phiv", "&quo", "&quot", "&apo", "&Counter", "&#x;", "&#;", "&#X;"}
	c17Tails = []string{"65;", "41;", ";", "p;", "t;", "#65;", "x41;", "lt;", "amp;", "#x26;", "38;", "0;", "5", "A", "quot;", "#", "x", "mp;", "sp;", "in;"}
)

// c17EntityString assembles a byte string from entity fragments, whitespace and text. lookBehind
// enables the shape "unterminated entity fragment directly before a replaceable reference".
func c17EntityString(r *rand.Rand, ent c17Ent, keys []string, lookBehind bool) []byte {
	n := 1 + gen.SmallLen(r, 14)
	if r.Intn(40) == 0 {
		n = 50 + r.Intn(300)
	}
	var b []byte
	for i := 0; i < n; i++ {
		switch r.Intn(22) {
		case 0:
			b = append(b, '&')
		case 1:
			if lookBehind {
				b = append(b, gen.Pick(r, c17Prefixes)...)
			} else { // the fragment is closed off by a space
				b = append(append(b, gen.Pick(r, c17Prefixes)...), ' ')
			}
		case 2:
			for k := 1 + r.Intn(4); k > 0; k-- {
				b = append(b, byte('0'+r.Intn(10)))
			}
		case 3:
			for k := 1 + r.Intn(4); k > 0; k-- {
				b = append(b, "0123456789abcdefABCDEF"[r.Intn(22)])
			}
		case 4:
			b = append(b, ';')
		case 5, 6, 7:
			b = append(append(append(b, '&'), c17PickName(r, ent, keys)...), ';')
		case 8:
			b = append(append(b, '&'), c17PickName(r, ent, keys)...)
			if !lookBehind {
				b = append(b, ' ')
			}
		case 9: // truncated or case-changed name
			nm := c17PickName(r, ent, keys)
			if r.Intn(2) == 0 {
				nm = nm[:r.Intn(len(nm)+1)]
			} else {
				nm = strings.ToUpper(nm[:1]) + nm[1:]
			}
			b = append(append(b, '&'), nm...)
			if r.Intn(2) == 0 {
				b = append(b, ';')
			} else if !lookBehind {
				b = append(b, ' ')
			}
		case 10, 11, 12:
			b = append(b, c17Numeric(r, true)...)
		case 13:
			b = append(b, c17Numeric(r, false)...)
			if !lookBehind {
				b = append(b, ' ')
			}
		case 14: // an escaped ampersand followed by entity-looking text
			b = append(b, gen.Pick(r, []string{"&amp;", "&#38;", "&#x26;", "&AMP;", "&#038;"})...)
			b = append(b, gen.Pick(r, c17Tails)...)
		case 15, 16:
			for k := 1 + r.Intn(5); k > 0; k-- {
				b = append(b, " \t\n\f\r"[r.Intn(5)])
			}
			if r.Intn(3) == 0 {
				b = append(b, ' ')
			}
		case 17:
			for k := 1 + r.Intn(6); k > 0; k-- {
				b = append(b, c17Alnum[r.Intn(len(c17Alnum))])
			}
		case 18:
			b = append(b, c17Punct[r.Intn(len(c17Punct))])
		case 19:
			switch r.Intn(6) {
			case 0:
				b = append(b, gen.RawBytes(r, 1+r.Intn(3))...)
			default:
				b = utf8.AppendRune(b, gen.Rune(r))
			}
		default: // fragment + replaceable reference + tail, glued
			if lookBehind {
				b = append(b, gen.Pick(r, c17Prefixes)...)
			} else if r.Intn(2) == 0 {
				b = append(b, gen.Pick(r, []string{" ", "-", ";", "&lt;", "."})...)
			}
			switch r.Intn(4) {
			case 0:
				b = append(b, gen.Pick(r, []string{"&num;", "&semi;", "&#35;", "&#59;", "&#x23;", "&#x3b;"})...)
			case 1:
				b = append(b, gen.Pick(r, []string{"&#x41;", "&#112;", "&#65;", "&#54;", "&#x78;", "&#120;", "&#88;", "&#x30;", "&#116;", "&#x6c;"})...)
			default:
				b = append(b, c17Numeric(r, true)...)
			}
			b = append(b, gen.Pick(r, c17Tails)...)
		}
	}
	return b
}

// c17WhitespaceString: whitespace runs of every length between text, with leading/trailing runs.
func c17WhitespaceString(r *rand.Rand) []byte {
	n := gen.SmallLen(r, 30)
	if r.Intn(50) == 0 {
		n = 200 + r.Intn(2000)
	}
	ws := " \t\n\f\r"
	if r.Intn(4) == 0 {
		ws = gen.Pick(r, []string{" ", " \t\f", "\n\r", " \n"})
	}
	var b []byte
	for i := 0; i < n; i++ {
		switch r.Intn(7) {
		case 0, 1, 2:
			k := 1 + r.Intn(3)
			if r.Intn(10) == 0 {
				k = 1 + r.Intn(40)
			}
			for ; k > 0; k-- {
				b = append(b, ws[r.Intn(len(ws))])
			}
		case 3:
			b = append(b, ws[r.Intn(len(ws))])
		case 4:
			const other = "ab&;<\x0b\x00\x1f\x85\xa0" // \v, NUL, 0x85, 0xA0 are NOT whitespace here
			b = append(b, other[r.Intn(len(other))])
		case 5:
			b = utf8.AppendRune(b, gen.Rune(r))
		default:
			for k := 1 + r.Intn(5); k > 0; k-- {
				b = append(b, byte('a'+r.Intn(26)))
			}
		}
	}
	return b
}

// c17AttrValue: an attribute value without NUL, with every mix of the two quotes, characters that
// force quoting, entity fragments and non-ASCII bytes.
func c17AttrValue(r *rand.Rand) []byte {
	n := gen.SmallLen(r, 16)
	if r.Intn(60) == 0 {
		n = 100 + r.Intn(400)
	}
	// quote bias so that singles<doubles, ==, > all occur
	pq := gen.Pick(r, []int{0, 0, 1, 2, 5})
	pd := gen.Pick(r, []int{0, 0, 1, 2, 5})
	var b []byte
	for i := 0; i < n; i++ {
		x := r.Intn(24)
		switch {
		case x < pq:
			b = append(b, '\'')
		case x < pq+pd:
			b = append(b, '"')
		case x < 12:
			b = append(b, c17AttrText[r.Intn(len(c17AttrText))])
		case x == 12:
			b = append(b, " \t\n\f\r"[r.Intn(5)])
		case x == 13:
			b = append(b, "<=>`"[r.Intn(4)])
		case x == 14, x == 15:
			b = append(b, gen.Pick(r, []string{"&", "&#34;", "&#39;", "&quot;", "&apos;", "&amp;", "&amp", "&#3", "&#x2", "&lt;", "&#", "&#x27;", "&#0;", "&notit;"})...)
		case x == 16:
			b = utf8.AppendRune(b, gen.Rune(r))
		case x == 17:
			b = append(b, byte(0x80+r.Intn(0x80)))
		case x == 18:
			b = append(b, byte(1+r.Intn(0x1f)))
		default:
			b = append(b, byte('a'+r.Intn(26)))
		}
	}
	for i := range b { // domain: no NUL
		if b[i] == 0 {
			b[i] = '0'
		}
	}
	return b
}
