package props

import (
	"bufio"
	"bytes"
	"fmt"
	"io"
	"runtime"
	"strings"
	"unicode/utf8"

	"github.com/tdewolff/parse/v2/buffer"

	"vh/fw"
	"vh/gen"
)

// C13 — StreamLexer: chunking independence, unfreed tokens intact, ShiftLen, bounded memory.

type c13Case struct {
	Data     fw.B     `json:"data"`
	Size     int      `json:"size"`
	Chunks   []int    `json:"chunks"`
	Reader   string   `json:"reader"` // sched | bytes
	FailAt   int      `json:"failAt"` // -1: ends with io.EOF
	WithLast bool     `json:"errWithLast"`
	Free     string   `json:"free"`
	Ops      []string `json:"ops,omitempty"`
}

type heldSlice struct {
	live   []byte // the slice the library returned
	copy   []byte
	thresh int // stays valid while freedTotal < thresh (thresh==0: stays valid for ever only if never freed.. see below)
	what   string
}

func c13Run(t *fw.T) {
	r := t.Rng
	var data []byte
	switch r.Intn(6) {
	case 0:
		data = gen.RawBytes(r, gen.SmallLen(r, 64))
		for i := range data { // keep the stream free of NUL so that 0 from Peek means "end"
			if data[i] == 0 {
				data[i] = 1
			}
		}
	case 1:
		data = gen.UTF8(r, gen.SmallLen(r, 2000))
	default:
		data = gen.UTF8(r, gen.SmallLen(r, 120))
	}
	data = bytes.ReplaceAll(data, []byte{0}, []byte{'0'})
	if len(data) > 0 && r.Intn(12) == 0 {
		data[len(data)-1] = 0 // a NUL as very last byte of the stream is data like any other (positions, not values, decide about the end)
	}
	cs := &c13Case{Data: data, FailAt: -1}
	cs.Size = gen.Pick(r, []int{0, 1, 2, 3, 7, 8, 16, 64, 4096})
	maxChunk := 1 + r.Intn(2*cs.Size+4)
	cs.Reader = "sched"
	switch r.Intn(16) {
	case 0:
		cs.Reader = "bytes" // a reader with a Bytes() method
	case 1:
		// standard library readers, fresh or with a head already consumed by the caller: the lexer must deliver what
		// the reader still has to deliver, whatever shortcuts the reader's other methods (ReadAt, Len, Bytes) invite
		cs.Reader = gen.Pick(r, []string{"bytes.Reader", "strings.Reader", "bytes.Buffer", "bufio.Reader"})
	}
	delivered := data
	if cs.Reader == "sched" && r.Intn(4) == 0 {
		cs.FailAt = r.Intn(len(data) + 1)
		delivered = data[:cs.FailAt]
	}
	cs.Chunks = gen.Schedule(r, len(delivered), maxChunk)
	if r.Intn(16) == 0 {
		// a long run of zero-length reads in front of a chunk or of the end: they carry no information, results stay the same
		at := r.Intn(len(cs.Chunks) + 1)
		run := make([]int, gen.Pick(r, []int{20, 99, 100, 101, 130, 300}))
		cs.Chunks = append(cs.Chunks[:at:at], append(run, cs.Chunks[at:]...)...)
		t.Count("schedules.with_long_zero_run", 1)
	}
	cs.WithLast = r.Intn(2) == 0
	cs.Free = gen.Pick(r, []string{"never", "immediate", "delayed", "bulk", "random"})
	t.Desc(cs)

	var rd io.Reader
	var sr *gen.SchedReader
	endErr := error(io.EOF)
	if cs.Reader == "bytes" {
		rd = &gen.BytesReader{B: append([]byte(nil), delivered...)}
	} else if cs.Reader != "sched" {
		head := gen.UTF8(r, r.Intn(9)) // consumed before the lexer is created
		all := append(append([]byte(nil), head...), delivered...)
		var src io.Reader
		switch cs.Reader {
		case "bytes.Reader":
			src = bytes.NewReader(all)
		case "strings.Reader":
			src = strings.NewReader(string(all))
		case "bytes.Buffer":
			src = bytes.NewBuffer(all)
		default:
			src = bufio.NewReaderSize(bytes.NewReader(all), 16)
		}
		if len(head) > 0 {
			if _, err := io.ReadFull(src, make([]byte, len(head))); err != nil {
				return
			}
		}
		rd = src
	} else {
		sr = &gen.SchedReader{Data: delivered, Chunks: cs.Chunks, ErrWithLast: cs.WithLast}
		if cs.FailAt >= 0 {
			sr.Err = gen.ErrInjected
			endErr = gen.ErrInjected
		}
		rd = sr
	}
	z := buffer.NewStreamLexerSize(rd, cs.Size)
	L := len(delivered)
	m := &refCursor{data: delivered}

	var ops []string
	rec := func(s string) {
		if len(ops) < 300 {
			ops = append(ops, s)
		}
	}
	fail := func(format string, a ...any) {
		cs.Ops = ops
		t.Desc(cs)
		t.Failf(format, a...)
	}

	var held []heldSlice
	freedTotal := 0   // sum of Free(n)
	shiftedTotal := 0 // == m.start
	sinceShiftLen := 0
	var pendingFree []int // delayed discipline
	loaded := 0           // lower bound of the absolute offset up to which bytes were peeked
	refills := 0
	lastReads := 0
	calls := 0
	heldAcrossRefill := false

	checkHeld := func(after string) bool {
		info := z.VerifPool()
		if sr != nil && sr.Reads != lastReads {
			refills++
			lastReads = sr.Reads
			if len(held) > 0 {
				heldAcrossRefill = true
			}
		}
		for i := range held {
			h := &held[i]
			if freedTotal >= h.thresh {
				continue
			}
			if !bytes.Equal(h.live, h.copy) {
				fail("after %s: slice from %s (protected until %d bytes are freed; %d freed) changed from %s to %s", after, h.what, h.thresh, freedTotal, fw.Q(h.copy), fw.Q(h.live))
				return false
			}
		}
		// structural invariants of the pool (hook H2) at this quiescent point
		if !info.ChainOK || info.Active != info.ChainLen {
			fail("after %s: pool chain broken: %+v", after, info)
			return false
		}
		if info.PoolPos < 0 {
			fail("after %s: negative pool position: %+v", after, info)
			return false
		}
		t.Count("hook.pool.snapshots", 1)
		return true
	}
	checkState := func(after string) bool {
		calls++
		if got, want := z.Pos(), m.pos-m.start; got != want {
			fail("after %s: Pos()=%d want %d", after, got, want)
			return false
		}
		// Err: non-nil only if the reader has delivered its terminal error, io.EOF only at the end
		err := z.Err()
		if err != nil {
			if err != endErr {
				fail("after %s: Err()=%v, reader ends with %v", after, err, endErr)
				return false
			}
			if sr != nil && sr.Pos() < L {
				fail("after %s: Err()=%v while the reader still has %d undelivered bytes", after, err, L-sr.Pos())
				return false
			}
			if err == io.EOF && m.pos < L {
				fail("after %s: Err()=EOF at position %d of %d", after, m.pos, L)
				return false
			}
		}
		return checkHeld(after)
	}
	doFree := func(n int) {
		if n <= 0 {
			return
		}
		if freedTotal+n > shiftedTotal {
			n = shiftedTotal - freedTotal
			if n <= 0 {
				return
			}
		}
		rec(fmt.Sprintf("Free(%d)", n))
		z.Free(n)
		freedTotal += n
	}
	if !checkState("construction") {
		return
	}
	nops := 5 + r.Intn(80)
	if L > 500 {
		nops = 200 + r.Intn(400)
	}
	tokens := 0
	for i := 0; i < nops && !t.Failed(); i++ {
		switch op := r.Intn(14); op {
		case 0, 1, 2: // Peek
			k := r.Intn(L - m.pos + 2)
			if r.Intn(3) == 0 {
				k = r.Intn(4)
			}
			if m.pos > m.start && r.Intn(6) == 0 {
				k = -1 - r.Intn(m.pos-m.start) // look-behind inside the current token (as js/lex.go does on parse.Input)
				t.Count("peek.negative", 1)
			}
			rec(fmt.Sprintf("Peek(%d)", k))
			got, want := z.Peek(k), m.peek(k)
			if got != want {
				fail("Peek(%d)=%#x want %#x at offset %d of %d", k, got, want, m.pos, L)
				break
			}
			if e := m.pos + k + 1; e > loaded {
				loaded = e
				if loaded > L {
					loaded = L
				}
			}
			if m.pos+k >= L {
				// end reached by peeking: the reader's terminal state must be visible once pos is there too
				if m.pos >= L && z.Err() != endErr {
					fail("Peek(%d) returned 0 at the end but Err()=%v want %v", k, z.Err(), endErr)
					break
				}
				t.Count("peek.at_end", 1)
			}
			checkState("Peek")
		case 3: // PeekRune on valid UTF-8
			if m.pos < L {
				if wr, wn := utf8.DecodeRune(m.data[m.pos:]); wr != utf8.RuneError {
					rec("PeekRune(0)")
					gr, gn := z.PeekRune(0)
					if gr != wr || gn != wn {
						fail("PeekRune(0)=(%#x,%d) want (%#x,%d) at %d", gr, gn, wr, wn, m.pos)
						break
					}
					if e := m.pos + wn; e > loaded {
						loaded = e
					}
					t.Count("peekrune", 1)
					checkState("PeekRune")
				}
			}
		case 4, 5, 6: // Move within what was peeked (or up to the end of data: Shift must cope)
			hi := loaded - m.pos
			if r.Intn(6) == 0 {
				hi = L - m.pos
			}
			if hi <= 0 {
				continue
			}
			n := 1 + r.Intn(hi)
			rec(fmt.Sprintf("Move(%d)", n))
			z.Move(n)
			m.pos += n
			if m.pos > loaded {
				// moved beyond what was peeked: only Shift (which reads) may follow
				rec("Shift")
				got := z.Shift()
				want := m.data[m.start:m.pos]
				if !bytes.Equal(got, want) {
					fail("Shift() after an unpeeked Move = %s want %s", fw.Q(got), fw.Q(want))
					break
				}
				loaded = m.pos
				sinceShiftLen += len(got)
				held = append(held, heldSlice{got, append([]byte(nil), got...), m.pos, fmt.Sprintf("Shift@%d", m.pos)})
				m.start = m.pos
				shiftedTotal = m.start
				tokens++
				t.Count("shift.unpeeked", 1)
			}
			checkState("Move")
		case 7: // Rewind
			p := r.Intn(m.pos - m.start + 1)
			if loaded > m.pos && r.Intn(3) == 0 {
				// forward, to a mark taken earlier: anywhere up to the end of what has been peeked
				p = m.pos - m.start + 1 + r.Intn(loaded-m.pos)
				t.Count("rewind.forward", 1)
			}
			rec(fmt.Sprintf("Rewind(%d)", p))
			z.Rewind(p)
			m.pos = m.start + p
			checkState("Rewind")
		case 8: // Lexeme
			rec("Lexeme")
			got := z.Lexeme()
			want := m.data[m.start:m.pos]
			if !bytes.Equal(got, want) {
				fail("Lexeme()=%s want %s", fw.Q(got), fw.Q(want))
				break
			}
			if len(got) > 0 {
				held = append(held, heldSlice{got, append([]byte(nil), got...), m.start, fmt.Sprintf("Lexeme@%d", m.start)})
			}
			checkState("Lexeme")
		case 9: // Skip
			rec("Skip")
			z.Skip()
			sinceShiftLen += m.pos - m.start
			m.start = m.pos
			shiftedTotal = m.start
			checkState("Skip")
		case 10, 11: // Shift
			rec("Shift")
			got := z.Shift()
			want := m.data[m.start:m.pos]
			if !bytes.Equal(got, want) {
				fail("Shift()=%s want %s", fw.Q(got), fw.Q(want))
				break
			}
			sinceShiftLen += len(got)
			if len(got) > 0 {
				held = append(held, heldSlice{got, append([]byte(nil), got...), m.pos, fmt.Sprintf("Shift@%d", m.pos)})
			}
			m.start = m.pos
			shiftedTotal = m.start
			tokens++
			switch cs.Free {
			case "immediate":
				rec("ShiftLen")
				n := z.ShiftLen()
				if n != sinceShiftLen {
					fail("ShiftLen()=%d want %d (bytes shifted or skipped since the previous call)", n, sinceShiftLen)
					break
				}
				sinceShiftLen = 0
				t.Count("shiftlen", 1)
				doFree(n)
			case "delayed":
				rec("ShiftLen")
				n := z.ShiftLen()
				if n != sinceShiftLen {
					fail("ShiftLen()=%d want %d", n, sinceShiftLen)
					break
				}
				sinceShiftLen = 0
				t.Count("shiftlen", 1)
				pendingFree = append(pendingFree, n)
				if len(pendingFree) > 3 {
					doFree(pendingFree[0])
					pendingFree = pendingFree[1:]
				}
			}
			checkState("Shift")
		case 12: // ShiftLen at a random moment
			rec("ShiftLen")
			n := z.ShiftLen()
			if n != sinceShiftLen {
				fail("ShiftLen()=%d want %d (bytes shifted or skipped since the previous call)", n, sinceShiftLen)
				break
			}
			sinceShiftLen = 0
			t.Count("shiftlen", 1)
			if cs.Free == "immediate" {
				doFree(n)
			} else if cs.Free == "delayed" {
				pendingFree = append(pendingFree, n)
			}
		case 13: // Free per discipline
			switch cs.Free {
			case "bulk":
				if r.Intn(5) == 0 {
					doFree(shiftedTotal - freedTotal)
				}
			case "random":
				if shiftedTotal > freedTotal {
					doFree(1 + r.Intn(shiftedTotal-freedTotal))
				}
			}
		}
		if len(held) > 64 {
			// forget the oldest (keeps the monitor O(1) per call); unfreed ones stay preferred
			held = held[len(held)-48:]
		}
	}
	t.Count("calls", calls)
	t.Count("tokens", tokens)
	t.Count("refills", refills)
	if sr != nil {
		t.Count("reader.reads", sr.Reads)
	}
	t.Seen("config", fmt.Sprintf("size=%d free=%s reader=%s fail=%v withlast=%v", cs.Size, cs.Free, cs.Reader, cs.FailAt >= 0, cs.WithLast))
	if t.Failed() {
		return
	}
	if heldAcrossRefill && tokens > 0 {
		t.Count("histories.held_across_refill", 1)
		key := append([]byte(fmt.Sprint(cs.Size, cs.Chunks, cs.Free, cs.FailAt, ops)), data...)
		t.Nontrivial(key)
	}
	cs.Ops = ops
	t.Sample(cs)
}

// c13Memory: with every token freed, held memory does not grow with the stream length.
func c13Memory(t *fw.T) {
	r := t.Rng
	size := gen.Pick(r, []int{0, 8, 64, 512, 4096})
	maxTok := gen.Pick(r, []int{1, 5, 40, 300, 3000, 20000})
	// afterpeek: every token is freed, but only after the caller has looked at the first byte of the next one (a lexer that
	// peeks ahead before it hands a token to its consumer); fixed: all tokens have the same length, so that token ends
	// and buffer ends coincide regularly
	disc := gen.Pick(r, []string{"immediate", "delayed", "afterpeek"})
	fixed := r.Intn(3) == 0
	if fixed {
		maxTok = gen.Pick(r, []int{1, 5, 8, 16, 40, 64, 300})
	}
	base := 200000 + r.Intn(100000)
	seed := r.Int63()
	t.Desc(map[string]any{"size": size, "maxTok": maxTok, "discipline": disc, "fixedLength": fixed, "baseLen": base, "seed": seed})
	run := func(total int) (held int, alloc uint64, longest int, ok bool) {
		rr := newRand(seed)
		src := &patternReader{total: total, maxChunk: 1 + rr.Intn(8192)}
		if rr.Intn(3) == 0 {
			src.maxChunk = gen.Pick(rr, []int{1, 2, 7, 33}) // a slow reader: many refills while one long token is assembled
		}
		if disc == "delayed" {
			src.maxChunk = 1 << 30 // see DESIGN: with delayed frees the bound depends on refills per pending token
		}
		var ms0, ms1 runtime.MemStats
		runtime.GC()
		runtime.ReadMemStats(&ms0)
		z := buffer.NewStreamLexerSize(src, size)
		var pending [5]int
		phead, npend := 0, 0
		off := 0
		for {
			n := 1 + rr.Intn(maxTok)
			if fixed {
				n = maxTok
			}
			i := 0
			for ; i < n; i++ {
				c := z.Peek(i)
				if c == 0 {
					break
				}
				if want := patternByte(off + i); c != want {
					t.Failf("long stream: byte %d = %#x want %#x", off+i, c, want)
					return 0, 0, 0, false
				}
			}
			if i == 0 {
				break
			}
			z.Move(i)
			tok := z.Shift()
			if len(tok) != i {
				t.Failf("long stream: token of %d bytes, want %d", len(tok), i)
				return 0, 0, 0, false
			}
			if i > longest {
				longest = i
			}
			off += i
			sl := z.ShiftLen()
			if sl != i {
				t.Failf("long stream: ShiftLen()=%d after a token of %d bytes at offset %d", sl, i, off)
				return 0, 0, 0, false
			}
			if disc == "immediate" {
				z.Free(sl)
			} else if disc == "afterpeek" {
				z.Peek(0)
				z.Free(sl)
			} else {
				// ring of 5 delayed frees (no allocation in the measured loop)
				if npend == len(pending) {
					z.Free(pending[phead])
					pending[phead] = sl
					phead = (phead + 1) % len(pending)
				} else {
					pending[(phead+npend)%len(pending)] = sl
					npend++
				}
			}
			info := z.VerifPool()
			if h := info.CapSum + info.BufCap; h > held {
				held = h
			}
		}
		if off != total {
			t.Failf("long stream: consumed %d of %d bytes, Err()=%v", off, total, z.Err())
			return 0, 0, 0, false
		}
		runtime.ReadMemStats(&ms1)
		return held, ms1.TotalAlloc - ms0.TotalAlloc, longest, true
	}
	// Bound (see DESIGN §4 C13): with immediate frees the lexer ping-pongs between at most three buffers whose
	// capacity settles below 2*size+5*longest; with frees delayed by 5 tokens up to 5 more tokens' worth of
	// buffers stay active. 32*(size+k*longest)+4096 leaves a factor >2 of slack over what was measured, and the
	// stream is made at least 4 times longer than the bound so that growth with the stream cannot hide below it.
	k := 1
	if disc == "delayed" {
		k = 6
	}
	bound := 32*(size+k*maxTok) + 4096
	if base < bound/2 {
		base = bound / 2
	}
	h1, a1, l1, ok := run(base)
	if !ok {
		return
	}
	h8, a8, l8, ok := run(8 * base)
	if !ok {
		return
	}
	_, _ = l1, l8
	t.Count("memory.stream_bytes", 9*base)
	t.Count("memory.pairs", 1)
	if h8 > bound || h1 > bound {
		t.Failf("held memory %d bytes exceeds 32*(bufsize %d + %d*longest token %d)+4096 = %d on a stream of %d bytes (all tokens freed, %s)", h8, size, k, maxTok, bound, 8*base, disc)
		return
	}
	if a8 > uint64(bound)+65536 {
		t.Failf("allocation grows with the stream: %d bytes allocated over %d stream bytes, %d over %d (bound %d)", a1, base, a8, 8*base, bound)
		return
	}
	t.Nontrivial([]byte(fmt.Sprint(size, maxTok, disc, base, seed)))
	t.Sample(map[string]any{"size": size, "maxTok": maxTok, "discipline": disc, "len1": base, "held1": h1, "alloc1": a1, "len8": 8 * base, "held8": h8, "alloc8": a8})
}

func patternByte(i int) byte { return byte(1 + (i*7+i/251)%255) }

type patternReader struct {
	total, pos, maxChunk int
}

func (p *patternReader) Read(b []byte) (int, error) {
	if p.pos >= p.total {
		return 0, io.EOF
	}
	n := len(b)
	if n > p.maxChunk {
		n = p.maxChunk
	}
	if n > p.total-p.pos {
		n = p.total - p.pos
	}
	for i := 0; i < n; i++ {
		b[i] = patternByte(p.pos + i)
	}
	p.pos += n
	return n, nil
}

func c13Probes(t *fw.T) {
	// regression probe: ShiftLen after a refill
	t.Key("probe:shiftlen-after-refill")
	data := []byte("abcdefghijklmnopqrstuvwxyz0123456789")
	t.Desc(map[string]any{"probe": "shiftlen-after-refill", "data": data, "size": 4})
	z := buffer.NewStreamLexerSize(&gen.SchedReader{Data: data, Chunks: gen.Schedule(newRand(1), len(data), 3)}, 4)
	total := 0
	for i := 0; i < 9; i++ {
		for k := 0; k < 4; k++ {
			z.Peek(k)
		}
		z.Move(4)
		tok := z.Shift()
		if !bytes.Equal(tok, data[total:total+4]) {
			t.Failf("token %d = %q", i, tok)
			return
		}
		total += 4
		if n := z.ShiftLen(); n != 4 {
			t.Failf("ShiftLen()=%d after shifting 4 bytes (token %d)", n, i)
			return
		}
		z.Free(4)
	}
	t.Count("probes", 1)
	t.Nontrivial([]byte("shiftlen"))
}

func init() {
	fw.Register(&fw.Prop{
		ID: "C13",
		Rule: "case = (data, initial buffer size, reader chunk schedule incl. zero-length reads, EOF/error with or after the last bytes, failure offset, Free discipline, random contract-respecting op history); " +
			"results compared online with a reference cursor over the delivered bytes; shadow copies of every returned slice re-compared after each call while protected; hook H2 invariants at each quiescent point; " +
			"memory stream: pairs of streams of length L and 8L with all tokens freed. non-trivial = history with >= 1 token and a slice held across a refill; distinct by full case",
		Assume: []string{"Move beyond the peeked region is only followed by Shift (the one method documented to load the bytes)",
			"a slice from Lexeme is protected until the bytes shifted before its start are freed (weakest reading of the statement)",
			"readers return at most 3 consecutive (0,nil) reads"},
		Required: []string{"calls", "tokens", "refills", "shiftlen", "peek.at_end", "hook.pool.snapshots", "histories.held_across_refill", "memory.pairs", "probes"},
		Streams: []fw.Stream{
			{Name: "probes", Quick: 1, Thorough: 1, Run: c13Probes},
			{Name: "history", Quick: 1500000, Thorough: 80000000, Run: c13Run},
			{Name: "memory", Quick: 32, Thorough: 256, Run: c13Memory},
		},
	})
}
