package props

import (
	"bytes"
	"math/rand"
	"regexp"
	"strings"

	"github.com/tdewolff/parse/v2/css"
	"github.com/tdewolff/parse/v2/html"

	"vh/gen"
)

// C16 — reference definitions, canary buffers and generators (the monitors live in c16.go).

// ---------------------------------------------------------------------------------------------
// canary buffers
//
// The library has no unsafe code, so a callee that gets s = backing[off:off+n:off+c] can reach
// exactly backing[off:off+c]: bytes before the slice start and beyond its capacity are out of
// reach by construction of the language and carry no information. What a callee CAN do wrongly is
// write into the part of that window it has no business with: the spare capacity [n,c) (a stray
// append / reslice) or, for read-only helpers, the data itself. The buffers below therefore put
// the canary pattern into the spare capacity and keep a pristine copy of the whole window.
//
// Region each helper may modify (everything else in the window must stay byte-identical):
//   Number, Dimension, Mediatype, EqualFold (both arguments), IsAllWhitespace, TrimWhitespace,
//   css/html ToHash ............ nothing
//   ToLower .................... src[0:len]
//   DecodeURL .................. b[0:len]   (shrinks in place; never touches [len,cap))
//   EncodeURL .................. b[0:cap]   (grows in place by append; nothing at all when no
//                                            byte is marked by the table)
//   DataURI .................... the payload after the first ',' (percent-decoded in place);
//                                "data:", media type, parameters, the comma and [len,cap) never
// ---------------------------------------------------------------------------------------------

type c16Buf struct {
	win      []byte // the reachable window backing[0:c] (len == cap)
	pristine []byte
	n        int // length of the slice handed to the library
}

// c16Wrap copies data into a fresh window with 0 (tight, cap==len), a few, or ample (>= 2*len)
// canary bytes of spare capacity and returns the slice to pass to the library.
func c16Wrap(r *rand.Rand, data []byte) (*c16Buf, []byte) {
	spare := 0
	switch r.Intn(4) {
	case 0: // tight
	case 1:
		spare = 1 + r.Intn(3)
	case 2:
		spare = 4 + r.Intn(13)
	default:
		spare = 2*len(data) + 1 + r.Intn(8)
	}
	return c16WrapSpare(data, spare)
}

func c16WrapSpare(data []byte, spare int) (*c16Buf, []byte) {
	n := len(data)
	win := make([]byte, n+spare)
	copy(win, data)
	for i := n; i < len(win); i++ {
		win[i] = byte(0xC3 + 7*i)
	}
	win = win[:len(win):len(win)]
	return &c16Buf{win: win, pristine: append([]byte(nil), win...), n: n}, win[:n]
}

// changedOutside returns the first window offset outside [lo,hi) whose byte differs from the
// pristine copy, or -1.
func (b *c16Buf) changedOutside(lo, hi int) int {
	for i := range b.win {
		if (i < lo || i >= hi) && b.win[i] != b.pristine[i] {
			return i
		}
	}
	return -1
}

func (b *c16Buf) spare() int { return len(b.win) - b.n }

// ---------------------------------------------------------------------------------------------
// reference definitions
// ---------------------------------------------------------------------------------------------

// the regex of the statement / of the doc comment of Number; '.' is the literal dot (the doc comment
// writes \.), longest match at offset 0
var c16ReNumber = func() *regexp.Regexp {
	re := regexp.MustCompile(`^(\+|-)?([0-9]+(\.[0-9]+)?|\.[0-9]+)((e|E)(\+|-)?[0-9]+)?`)
	re.Longest()
	return re
}()
var c16ReUnit = func() *regexp.Regexp {
	re := regexp.MustCompile(`^(%|[A-Za-z]+)`)
	re.Longest()
	return re
}()

func c16RefNumber(b []byte) int { return len(c16ReNumber.Find(b)) }
func c16RefDimension(b []byte) (int, int) {
	n := c16RefNumber(b)
	if n == 0 {
		return 0, 0
	}
	return n, len(c16ReUnit.Find(b[n:]))
}

const c16Hex = "0123456789ABCDEF"

// c16RefEncode: every byte the table marks becomes %XX (upper-case hex), every other byte itself.
func c16RefEncode(b []byte, table *[256]bool) []byte {
	out := make([]byte, 0, len(b))
	for _, c := range b {
		if table[c] {
			out = append(out, '%', c16Hex[c>>4], c16Hex[c&15])
		} else {
			out = append(out, c)
		}
	}
	return out
}

// c16Unreserved is the harness's own copy of what "percent-encoding with the full URL table"
// leaves raw (RFC 3986 unreserved plus !'()*); it does not read the library's table.
func c16Unreserved(c byte) bool {
	return c >= 'a' && c <= 'z' || c >= 'A' && c <= 'Z' || c >= '0' && c <= '9' || strings.IndexByte("-_.~!'()*", c) >= 0
}

// c16PctEncode percent-encodes payload for a generated data URI: everything that is not
// c16Unreserved is escaped, unreserved bytes are escaped too with probability extra, hex digits
// are upper or lower case (RFC 3986: equivalent).
func c16PctEncode(r *rand.Rand, payload []byte, extra float64, lowerHex bool) []byte {
	hex := c16Hex
	if lowerHex {
		hex = "0123456789abcdef"
	}
	out := make([]byte, 0, 3*len(payload))
	for _, c := range payload {
		if !c16Unreserved(c) || (extra > 0 && r.Float64() < extra) {
			h := hex
			if lowerHex && r.Intn(4) == 0 {
				h = c16Hex
			}
			out = append(out, '%', h[c>>4], h[c&15])
		} else {
			out = append(out, c)
		}
	}
	return out
}

func c16LowerByte(c byte) byte {
	if c >= 'A' && c <= 'Z' {
		return c + 32
	}
	return c
}
func c16RefToLower(b []byte) []byte {
	out := make([]byte, len(b))
	for i, c := range b {
		out[i] = c16LowerByte(c)
	}
	return out
}

// c16RefEqualFold: ASCII case-insensitive equality with a lower-case target.
func c16RefEqualFold(s, target []byte) bool {
	if len(s) != len(target) {
		return false
	}
	for i := range s {
		if c16LowerByte(s[i]) != target[i] {
			return false
		}
	}
	return true
}

const c16WS = " \t\n\r\f"

func c16RefAllWS(b []byte) bool {
	for _, c := range b {
		if strings.IndexByte(c16WS, c) < 0 {
			return false
		}
	}
	return true
}
func c16RefTrim(b []byte) []byte { return bytes.Trim(b, c16WS) }

func c16HasUpper(b []byte) bool {
	for _, c := range b {
		if c >= 'A' && c <= 'Z' {
			return true
		}
	}
	return false
}
func c16IsASCII(b []byte) bool {
	for _, c := range b {
		if c >= 0x80 {
			return false
		}
	}
	return true
}

// hash constants: text written out by hand from the comments of css/hash.go and html/hash.go
var c16CSSNames = []string{"document", "font-face", "keyframes", "layer", "media", "page", "supports"}
var c16CSSHashes = []css.Hash{css.Document, css.Font_Face, css.Keyframes, css.Layer, css.Media, css.Page, css.Supports}
var c16HTMLNames = []string{"iframe", "math", "plaintext", "script", "style", "svg", "textarea", "title", "xml", "xmp"}
var c16HTMLHashes = []html.Hash{html.Iframe, html.Math, html.Plaintext, html.Script, html.Style, html.Svg, html.Textarea, html.Title, html.Xml, html.Xmp}

var c16CSSMap, c16HTMLMap = func() (map[string]uint32, map[string]uint32) {
	a, b := map[string]uint32{}, map[string]uint32{}
	for i, n := range c16CSSNames {
		a[n] = uint32(c16CSSHashes[i])
	}
	for i, n := range c16HTMLNames {
		b[n] = uint32(c16HTMLHashes[i])
	}
	return a, b
}()

// ---------------------------------------------------------------------------------------------
// generators (all randomness from the *rand.Rand of the case)
// ---------------------------------------------------------------------------------------------

func c16Digits(r *rand.Rand) string {
	n := 1 + r.Intn(3)
	if r.Intn(30) == 0 {
		n = 20 + r.Intn(300)
	}
	var sb strings.Builder
	for i := 0; i < n; i++ {
		sb.WriteByte("0123456789"[r.Intn(10)])
	}
	return sb.String()
}

// bytes adjacent (in ASCII) to the classes the scanners test, plus the usual hostile ones
const c16NumAlphabet = "+-.eE0123456789"
const c16NumBoundary = "/:%azAZ@[`{ \x00\xffxX,;_~\t\n"

// c16GenNumberish builds a string around the Number/Dimension syntax: optional parts, doubled
// parts, dangling '.', 'e', 'e+', a unit, '%', junk; or alphabet soup; or a mutated number.
func c16GenNumberish(r *rand.Rand) []byte {
	var b []byte
	opt := func(p float64, s string) {
		if r.Float64() < p {
			b = append(b, s...)
		}
	}
	switch r.Intn(10) {
	case 0, 1, 2, 3, 4, 5: // grammar with holes
		opt(0.35, gen.Pick(r, []string{"+", "-", "+-", "--"}))
		opt(0.8, c16Digits(r))
		if r.Intn(2) == 0 {
			b = append(b, '.')
			opt(0.15, ".")
			opt(0.75, c16Digits(r))
		}
		if r.Intn(2) == 0 {
			b = append(b, gen.Pick(r, []string{"e", "E"})...)
			opt(0.4, gen.Pick(r, []string{"+", "-", "+-", "."}))
			opt(0.75, c16Digits(r))
			opt(0.15, gen.Pick(r, []string{".5", "e1", "E-2", "."}))
		}
		switch r.Intn(8) {
		case 0:
			b = append(b, '%')
			opt(0.3, gen.Pick(r, []string{"%", "px", " "}))
		case 1, 2:
			b = append(b, gen.Pick(r, []string{"px", "em", "e", "E", "ex", "Q", "z", "Z", "a", "A", "deg", "x1", "e-", "PX", "rem "})...)
			opt(0.3, gen.Pick(r, []string{"1", "%", "-", "\xc3\xa9", "@", "[", "`", "{"}))
		case 3:
			b = append(b, c16NumBoundary[r.Intn(len(c16NumBoundary))])
			opt(0.5, "px")
		}
	case 6, 7: // soup
		n := gen.SmallLen(r, 24)
		for i := 0; i < n; i++ {
			if r.Intn(6) == 0 {
				b = append(b, c16NumBoundary[r.Intn(len(c16NumBoundary))])
			} else {
				b = append(b, c16NumAlphabet[r.Intn(len(c16NumAlphabet))])
			}
		}
	case 8: // mutated valid number
		v := gen.Pick(r, []string{"0", "5", "0.51", "0.5e-99", "+50.0", ".0", "-.5E+7", "1e10", "12.34e+56px", "100%", "1.5em", "-0", "+.1e-1"})
		b = gen.Mutate(r, []byte(v), gen.Words("+", "-", ".", "e", "E", "0", "9", "%", "px", "/", ":"), 1+r.Intn(3))
	default:
		b = gen.RawBytes(r, gen.SmallLen(r, 16))
	}
	return b
}

// c16GenBytes: arbitrary payload bytes (all 256 values reachable; reserved URL characters frequent).
func c16GenBytes(r *rand.Rand, max int) []byte {
	n := gen.SmallLen(r, max)
	switch r.Intn(6) {
	case 0:
		return gen.UTF8(r, n/2)
	case 1:
		return gen.RawBytes(r, n)
	case 2:
		b := make([]byte, n)
		for i := range b {
			b[i] = byte(r.Intn(256))
		}
		return b
	case 3: // only unreserved: nothing to escape
		b := make([]byte, n)
		for i := range b {
			b[i] = "abcXYZ019-_.~!'()*"[r.Intn(18)]
		}
		return b
	default:
		const reserved = "%+ %+&=,;:/?#[]@!$'()*\"<>\\^`{|}~-_.\x00\x7f\x80\xff\n\r\t"
		b := make([]byte, n)
		for i := range b {
			if r.Intn(2) == 0 {
				b[i] = reserved[r.Intn(len(reserved))]
			} else {
				b[i] = byte('a' + r.Intn(26))
			}
		}
		return b
	}
}

// c16GenEncoded: text that looks percent-encoded, with every kind of damaged escape, mostly near
// the end ('%', '%4', '%G1', '%4G', '%%41', '+').
func c16GenEncoded(r *rand.Rand) []byte {
	var b []byte
	hexd := "0123456789abcdefABCDEF"
	n := gen.SmallLen(r, 30)
	for i := 0; i < n; i++ {
		switch r.Intn(12) {
		case 0, 1, 2, 3:
			b = append(b, '%', hexd[r.Intn(len(hexd))], hexd[r.Intn(len(hexd))])
		case 4:
			b = append(b, '+')
		case 5:
			b = append(b, '%')
		case 6:
			b = append(b, '%', hexd[r.Intn(len(hexd))])
		case 7:
			b = append(b, '%', "gG/:@`"[r.Intn(6)], hexd[r.Intn(len(hexd))])
		case 8:
			b = append(b, '%', hexd[r.Intn(len(hexd))], "gG/:@`%"[r.Intn(7)])
		case 9:
			b = append(b, gen.RawBytes(r, 1)...)
		default:
			b = append(b, byte('a'+r.Intn(26)))
		}
	}
	if r.Intn(3) == 0 { // an escape cut short at the very end
		b = append(b, gen.Pick(r, []string{"%", "%4", "%41", "%4g", "%g", "%%", "%%4", "+", "%+1", "%2B", "%2b%"})...)
	}
	return b
}

const c16Alnum = "abcdefghijklmnopqrstuvwxyz0123456789"

// c16Tok returns a lower-case token of 1..max characters: first an alphanumeric, then alphanumerics
// and the given punctuation.
func c16Tok(r *rand.Rand, max int, punct string) string {
	n := 1 + r.Intn(max)
	if r.Intn(3) == 0 {
		n = 1
	}
	var sb strings.Builder
	for i := 0; i < n; i++ {
		if i > 0 && len(punct) > 0 && r.Intn(5) == 0 {
			sb.WriteByte(punct[r.Intn(len(punct))])
		} else {
			sb.WriteByte(c16Alnum[r.Intn(len(c16Alnum))])
		}
	}
	return sb.String()
}

var c16Types = []string{"text/plain", "text/html", "image/svg+xml", "image/png", "application/octet-stream", "a/b", "x/y", "font/woff2", "application/vnd.ms-excel"}
var c16Attrs = []string{"charset", "name", "q", "version", "x", "base64", "boundary"}
var c16Values = []string{"utf-8", "US-ASCII", "1", "base64", "x", "0.9", "UTF-8", "a-b_c.d+e"}

// c16GenMediaType returns "type/subtype" ("" with probability pAbsent) and a parameter list
// ";attr=value;…" made of token characters that need no quoting and no escaping inside a URI.
// Types, subtypes and attributes are lower-case; values may be mixed case when mixed is set.
func c16GenMediaType(r *rand.Rand, pAbsent float64, mixed bool) (mt, params string) {
	if r.Float64() >= pAbsent {
		if r.Intn(2) == 0 {
			mt = gen.Pick(r, c16Types)
		} else {
			mt = c16Tok(r, 8, "-+.") + "/" + c16Tok(r, 10, "-+._")
		}
	}
	np := 0
	switch r.Intn(6) {
	case 0, 1:
		np = 1
	case 2:
		np = 2
	case 3:
		np = r.Intn(5)
	}
	used := map[string]bool{}
	for i := 0; i < np; i++ {
		a := gen.Pick(r, c16Attrs)
		if r.Intn(2) == 0 {
			a = c16Tok(r, 8, "-_.")
		}
		if used[a] {
			continue
		}
		used[a] = true
		v := gen.Pick(r, c16Values)
		if r.Intn(2) == 0 {
			v = c16Tok(r, 10, "-_.+")
		}
		if mixed && r.Intn(4) == 0 {
			v = strings.ToUpper(v[:1]) + v[1:]
		}
		if !mixed {
			v = strings.ToLower(v)
		}
		params += ";" + a + "=" + v
	}
	return
}
