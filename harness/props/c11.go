package props

import (
	"bytes"
	stdxml "encoding/xml"
	"fmt"
	"io"
	"os"
	"regexp"
	"strings"

	"github.com/tdewolff/parse/v2"
	"github.com/tdewolff/parse/v2/xml"

	"vh/fw"
	"vh/gen"
)

// C11 — XML lexer tokenises well-formed XML like a conforming XML reader.

type c11Case struct {
	Kind string `json:"kind"`
	Doc  fw.B   `json:"doc"`
}

type xmlNames struct {
	seq []string // "S:name", "A:name=value", "E:name"
}

func c11Std(doc []byte) (*xmlNames, error) {
	d := stdxml.NewDecoder(bytes.NewReader(doc))
	d.Strict = true
	out := &xmlNames{}
	qn := func(n stdxml.Name) string {
		if n.Space != "" {
			return n.Space + ":" + n.Local
		}
		return n.Local
	}
	norm := strings.NewReplacer("\t", " ", "\n", " ", "\r", " ")
	for {
		tok, err := d.RawToken()
		if err == io.EOF {
			return out, nil
		}
		if err != nil {
			return nil, err
		}
		switch x := tok.(type) {
		case stdxml.StartElement:
			out.seq = append(out.seq, "S:"+qn(x.Name))
			for _, a := range x.Attr {
				out.seq = append(out.seq, "A:"+qn(a.Name)+"="+norm.Replace(a.Value))
			}
		case stdxml.EndElement:
			out.seq = append(out.seq, "E:"+qn(x.Name))
		}
	}
}

func c11Generated(t *fw.T) {
	r := t.Rng
	doc, want := gen.XMLDoc(r)
	ctor := gen.Pick(r, inputCtors)
	t.Desc(&c11Case{Kind: "generated", Doc: []byte(doc)})
	in, _ := mkInput(r, []byte(doc), ctor)
	l := xml.NewLexer(in)
	var got xmlNames
	var open []string
	for i := 0; ; i++ {
		tt, data := l.Next()
		if tt == xml.ErrorToken {
			if l.Err() != io.EOF {
				t.Failf("well-formed document rejected after %d tokens: %v", i, oneLineErrAny(l.Err()))
				return
			}
			if i != len(want) {
				t.Failf("lexer returned %d tokens, the document has %d constructs (next expected: %+v)", i, len(want), want[min(i, len(want)-1)])
			}
			break
		}
		if i >= len(want) {
			t.Failf("extra token %v %s after the %d expected ones", tt, fw.Q(data), len(want))
			return
		}
		w := want[i]
		wd := w.Data
		if w.Norm != "" {
			wd = w.Norm
		}
		if tt.String() != w.Type || string(data) != wd {
			t.Failf("token %d: got %v %s, want %s %q", i, tt, fw.Q(data), w.Type, wd)
			return
		}
		// Text() is not asked of every token: what a token reports must not depend on whether the previous one was looked at
		callText := tt != xml.EndTagToken && tt != xml.CommentToken || t.Rng.Intn(3) > 0
		switch tt {
		case xml.StartTagToken, xml.StartTagPIToken, xml.EndTagToken, xml.CommentToken, xml.CDATAToken, xml.DOCTYPEToken, xml.AttributeToken, xml.TextToken:
			if callText && string(l.Text()) != w.Text {
				t.Failf("token %d %v %s: Text()=%s want %q", i, tt, fw.Q(data), fw.Q(l.Text()), w.Text)
				return
			}
		}
		if tt == xml.AttributeToken && string(l.AttrVal()) != w.AttrVal {
			t.Failf("token %d %s: AttrVal()=%s want %q", i, fw.Q(data), fw.Q(l.AttrVal()), w.AttrVal)
			return
		}
		t.Seen("token kinds", tt.String())
		t.Count("tokens", 1)
		// name sequence for the differential clause
		switch tt {
		case xml.StartTagToken:
			got.seq = append(got.seq, "S:"+string(l.Text()))
			open = append(open, string(l.Text()))
		case xml.StartTagPIToken:
			open = append(open, "?")
		case xml.AttributeToken:
			if len(open) > 0 && open[len(open)-1] != "?" {
				v := l.AttrVal()
				got.seq = append(got.seq, "A:"+string(l.Text())+"="+string(v[1:len(v)-1]))
			}
		case xml.StartTagCloseVoidToken:
			got.seq = append(got.seq, "E:"+open[len(open)-1])
			open = open[:len(open)-1]
		case xml.StartTagCloseToken, xml.StartTagClosePIToken:
			open = open[:len(open)-1]
		case xml.EndTagToken:
			got.seq = append(got.seq, "E:"+w.Text) // (compared with Text() above whenever it was called)
		}
	}
	if t.Failed() {
		return
	}
	if c11PIWithGT.MatchString(doc) {
		// encoding/xml reads a DOCTYPE as one directive and counts the '>' inside a processing instruction of the internal
		// subset as closing bracket: no reference for such documents (the token list above is the oracle)
		t.Count("docs.without_reference", 1)
		return
	}
	std, err := c11Std([]byte(doc))
	if err != nil {
		t.Count("generator.rejected_by_encoding_xml", 1) // generator guard, not a library verdict
		if os.Getenv("VH_DEBUG_C11") != "" {
			t.Failf("DEBUG rejected by encoding/xml: %v", err)
		}
		return
	}
	if strings.Join(std.seq, "\x00") != strings.Join(got.seq, "\x00") {
		t.Failf("element/attribute sequence differs from encoding/xml: lexer %q, encoding/xml %q", got.seq, std.seq)
		return
	}
	t.Count("docs.agree_with_encoding_xml", 1)
	if len(want) >= 3 {
		t.Nontrivial([]byte(doc))
	}
	t.Sample(map[string]any{"doc": []byte(doc), "tokens": len(want)})
}

// c11Fuzz: structural clauses on all byte strings.
func c11Fuzz(t *fw.T) {
	r := t.Rng
	li := langs["xml"]
	var data []byte
	if r.Intn(3) == 0 {
		d, _ := gen.XMLDoc(r)
		data = gen.Mutate(r, []byte(d), li.dict, 1+r.Intn(3))
	} else {
		data = gen.Hostile(r, li.corpus, li.dict, 300)
	}
	t.Desc(&c11Case{Kind: "fuzz", Doc: data})
	c11Structural(t, data, gen.Pick(r, inputCtors))
	if len(data) >= 3 {
		t.Nontrivial(data)
	}
}

func c11Structural(t *fw.T, data []byte, ctor string) {
	in, _ := mkInput(t.Rng, data, ctor)
	l := xml.NewLexer(in)
	inTag := false
	nul := bytes.IndexByte(data, 0)
	for i := 0; i < 4*len(data)+64; i++ {
		before := in.Offset()
		tt, tok := l.Next()
		switch tt {
		case xml.ErrorToken:
			if in.Offset() != before {
				continue
			}
			err := l.Err()
			if err == io.EOF {
				if in.Offset() < in.Len() {
					t.Failf("end-of-input (io.EOF) reported at offset %d of %d", in.Offset(), in.Len())
					return
				}
				if nul >= 0 {
					t.Failf("document with a NUL byte at offset %d ended with io.EOF instead of an error", nul)
					return
				}
				t.Count("fuzz.eof", 1)
			} else if err == nil {
				t.Failf("ErrorToken with Err()==nil at offset %d", in.Offset())
				return
			} else {
				if nul < 0 {
					t.Failf("error %v on a document without NUL", oneLineErrAny(err))
					return
				}
				t.Count("fuzz.nul_errors", 1)
			}
			return
		case xml.AttributeToken:
			if !inTag {
				t.Failf("Attribute token %s outside a start tag (token %d)", fw.Q(tok), i)
				return
			}
			t.Count("fuzz.attributes", 1)
		case xml.StartTagToken, xml.StartTagPIToken:
			inTag = true
		case xml.StartTagCloseToken, xml.StartTagCloseVoidToken, xml.StartTagClosePIToken:
			if !inTag {
				t.Failf("%v outside a start tag", tt)
				return
			}
			inTag = false
		default:
			if inTag {
				t.Failf("%v %s while a start tag is still open", tt, fw.Q(tok))
				return
			}
		}
		t.Count("fuzz.tokens", 1)
	}
	t.Failf("no terminal report")
}

var c11PIWithGT = regexp.MustCompile(`<\?p [^?]*>[^?]*\?>`)

var c11Probes = []struct{ name, doc string }{
	{"nul-in-text", "<a>b\x00c</a>"},
	{"nul-in-tag", "<a b=\"c\" \x00>"},
	{"nul-in-comment", "<!-- a\x00b --><x/>"},
	{"nul-at-start", "\x00<a/>"},
	{"nul-in-attr", "<a b=\"c\x00d\"/>"},
}

// c11LongProbe: character data, an attribute value, a comment and a CDATA section of about 146 KB each are one token each.
func c11LongProbe(t *fw.T) {
	t.Key("probe:long-constructs")
	long := strings.Repeat("0123456789 abcdefghijklmnopqrstuvwxyz.\n", 3750)
	doc := "<r a=\"" + long + "\">" + long + "<!--" + long + "--><![CDATA[" + long + "]]></r>"
	t.Desc(&c11Case{Kind: "probe", Doc: []byte("long constructs of 146250 bytes")})
	l := xml.NewLexer(parse.NewInputString(doc))
	want := []xml.TokenType{xml.StartTagToken, xml.AttributeToken, xml.StartTagCloseToken, xml.TextToken, xml.CommentToken, xml.CDATAToken, xml.EndTagToken}
	for i, w := range want {
		tt, data := l.Next()
		if tt != w {
			t.Failf("token %d of a document with 146250-byte constructs is %v (%d bytes), want %v", i, tt, len(data), w)
			return
		}
		switch tt {
		case xml.TextToken, xml.CommentToken, xml.CDATAToken:
			if string(l.Text()) != long {
				t.Failf("token %d %v: Text() has %d bytes, the construct has %d", i, tt, len(l.Text()), len(long))
				return
			}
		}
	}
	if tt, _ := l.Next(); tt != xml.ErrorToken || l.Err() != io.EOF {
		t.Failf("after the last token: %v, Err()=%v", tt, l.Err())
		return
	}
	t.Count("probes", 1)
	t.Nontrivial([]byte("long-constructs"))
}

func c11Probe(t *fw.T) {
	if t.Index%(len(c11Probes)+1) == len(c11Probes) {
		c11LongProbe(t)
		return
	}
	p := c11Probes[t.Index%(len(c11Probes)+1)]
	t.Key("probe:" + p.name)
	t.Desc(&c11Case{Kind: "probe", Doc: []byte(p.doc)})
	for _, ctor := range inputCtors {
		c11Structural(t, []byte(p.doc), ctor)
	}
	t.Count("probes", 1)
	t.Nontrivial([]byte(p.name))
}

func init() {
	fw.Register(&fw.Prop{
		ID: "C11",
		Rule: "streams: generated well-formed documents (prolog, PIs, DOCTYPE with internal subset and quoted > ], comments, CDATA with ]]/]> look-alikes, elements with both quote styles, empty-element tags, character data, whitespace variations) compared token by token " +
			"(type, exact bytes, Text(), AttrVal()) with the abstract document and with encoding/xml RawToken for element names, attribute names and entity-free values; hostile byte strings under the attribute-placement automaton and the end-report clause. " +
			"non-trivial = >= 3 constructs / bytes; distinct by bytes",
		Assume: []string{"attribute values are compared modulo the lexer's tab/newline -> space rewrite", "generated documents use double-quoted literals in DOCTYPE and no ']' inside comments of the internal subset",
			"PI content is generated in pseudo-attribute form (the lexer tokenises it as attributes)"},
		Required: []string{"tokens", "docs.agree_with_encoding_xml", "fuzz.tokens", "fuzz.attributes", "fuzz.eof", "fuzz.nul_errors", "probes"},
		Streams: []fw.Stream{
			{Name: "probes", Quick: len(c11Probes) + 1, Thorough: len(c11Probes) + 1, Run: c11Probe},
			{Name: "generated", Quick: 300000, Thorough: 40000000, Run: c11Generated},
			{Name: "fuzz", Quick: 400000, Thorough: 50000000, Run: c11Fuzz},
		},
	})
}

var _ = fmt.Sprint
