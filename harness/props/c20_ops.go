package props

import (
	"bytes"
	"crypto/sha256"
	"encoding/binary"
	"fmt"
	"hash"
	"io"
	"math"
	"math/rand"
	"os"
	"sort"
	"strings"
	"sync"

	"github.com/tdewolff/parse/v2"
	"github.com/tdewolff/parse/v2/buffer"
	"github.com/tdewolff/parse/v2/css"
	"github.com/tdewolff/parse/v2/html"
	"github.com/tdewolff/parse/v2/js"
	pstrconv "github.com/tdewolff/parse/v2/strconv"
	"github.com/tdewolff/parse/v2/xml"

	"vh/fw"
	"vh/gen"
)

// C20 entry-point catalogue. An op is one self-contained use of the library: entry point + input bytes +
// scalar arguments. Ops are generated in the case's main goroutine (all randomness from t.Rng) and are
// immutable afterwards; every execution works on a fresh deep copy of op.Data/op.Aux (c20Priv), so the
// library only ever sees memory that belongs to exactly one execution. An execution folds everything the
// library returns (token kinds, slices, numbers, printed trees, error strings, the final state of the
// private buffers it was allowed to edit in place) into a sha256 digest.

type c20Op struct {
	Entry string  `json:"entry"`
	Data  fw.B    `json:"data,omitempty"`
	Aux   fw.B    `json:"aux,omitempty"`
	I     []int64 `json:"i,omitempty"` // scalar arguments (meaning per entry)
	Seed  int64   `json:"seed"`        // drives in-op scripts (cursor histories, reader chunks) from a private rand
	e     *c20Entry
}

func (op *c20Op) i(k int) int64 {
	if k < len(op.I) {
		return op.I[k]
	}
	return 0
}

type c20Entry struct {
	name   string
	weight int
	gen    func(r *rand.Rand, op *c20Op)
	run    func(op *c20Op, d *c20Dig)
}

// c20Dig is an unambiguous serialisation (tag, length, payload) hashed with sha256.
type c20Dig struct {
	h   hash.Hash
	tmp [9]byte
}

func newC20Dig() *c20Dig { return &c20Dig{h: sha256.New()} }
func (d *c20Dig) tag(t byte, v uint64) {
	d.tmp[0] = t
	binary.LittleEndian.PutUint64(d.tmp[1:], v)
	d.h.Write(d.tmp[:])
}
func (d *c20Dig) b(p []byte) {
	if p == nil {
		d.tag('n', 0)
		return
	}
	d.tag('b', uint64(len(p)))
	d.h.Write(p)
}
func (d *c20Dig) s(s string)   { d.tag('s', uint64(len(s))); io.WriteString(d.h, s) }
func (d *c20Dig) n(v int)      { d.tag('i', uint64(int64(v))) }
func (d *c20Dig) i64(v int64)  { d.tag('i', uint64(v)) }
func (d *c20Dig) u64(v uint64) { d.tag('u', v) }
func (d *c20Dig) f(v float64)  { d.tag('f', math.Float64bits(v)) }
func (d *c20Dig) t(v bool) {
	if v {
		d.tag('t', 1)
	} else {
		d.tag('t', 0)
	}
}
func (d *c20Dig) e(err error) {
	if err == nil {
		d.tag('e', 0)
		return
	}
	d.tag('e', 1)
	d.s(err.Error())
}
func (d *c20Dig) sum() (out [32]byte) { d.h.Sum(out[:0]); return }

// c20Priv returns a private copy of b in a fresh array with `spare` bytes of capacity behind it
// (filled with a pattern so that writes beyond the length become visible in the digest of the array).
func c20Priv(b []byte, spare int) []byte {
	p := make([]byte, len(b), len(b)+spare)
	copy(p, b)
	full := p[:cap(p)]
	for i := len(b); i < len(full); i++ {
		full[i] = byte(0xC3 + i*7)
	}
	return p
}

// c20ExecOp runs one op on private data and returns its digest. A panic is part of the observable result
// (its value is folded into the digest); it is not by itself a C20 violation (C01 owns that clause).
func c20ExecOp(op *c20Op) (sum [32]byte, panicked bool) {
	d := newC20Dig()
	d.s(op.Entry)
	func() {
		defer func() {
			if r := recover(); r != nil {
				panicked = true
				d.s("panic")
				d.s(fmt.Sprint(r))
			}
		}()
		op.e.run(op, d)
	}()
	return d.sum(), panicked
}

// ---------------------------------------------------------------------------------------------------
// shared read-only data of the harness (built once, before any goroutine is started)

type c20MapSet struct {
	ent  c17Ent
	rev  c17Rev
	keys []string
}

var (
	c20Once     sync.Once
	c20Entries  []*c20Entry
	c20ByName   map[string]*c20Entry
	c20Weighted []*c20Entry
	c20Maps     []c20MapSet // entity maps shared READ-ONLY by all goroutines (the documented way to use them)
)

func c20Setup() {
	c20Once.Do(func() {
		e, r := c17TestMaps()
		c20Maps = append(c20Maps, c20MapSet{e, r, c17SortedKeys(e, "test")})
		for s := int64(1); s <= 3; s++ {
			e, r, m := c17GenMaps(newRand(s))
			c20Maps = append(c20Maps, c20MapSet{e, r, c17SortedKeys(e, m)})
		}
		c20Build()
		c20ByName = map[string]*c20Entry{}
		for _, e := range c20Entries {
			c20ByName[e.name] = e
			for i := 0; i < e.weight; i++ {
				c20Weighted = append(c20Weighted, e)
			}
		}
	})
}

func c20Add(name string, weight int, gen func(r *rand.Rand, op *c20Op), run func(op *c20Op, d *c20Dig)) {
	c20Entries = append(c20Entries, &c20Entry{name, weight, gen, run})
}

// c20GenOp draws one op of entry e.
func c20GenOp(r *rand.Rand, e *c20Entry) *c20Op {
	op := &c20Op{Entry: e.name, Seed: r.Int63(), e: e}
	e.gen(r, op)
	return op
}

// c20Text draws a document of a language: verbatim corpus entry, hostile mutation, or a grammar-generated
// well-formed document.
func c20Text(r *rand.Rand, lang string) []byte {
	li := langs[lang]
	maxLen := 256
	if r.Intn(25) == 0 {
		maxLen = 4096
	}
	switch x := r.Intn(10); {
	case x < 2:
		return append([]byte(nil), gen.Pick(r, li.corpus)...)
	case x < 6:
		return gen.Hostile(r, li.corpus, li.dict, maxLen)
	}
	switch lang {
	case "css":
		s, _ := gen.CSSSequence(r, 1+r.Intn(40))
		if r.Intn(2) == 0 {
			// rule-shaped text for the parser
			id := func() string { return gen.CSSIdent(r) }
			s = fmt.Sprintf("%s %s{%s:%s;%s: %s %s}@media %s{%s{%s:%s}}%s", id(), id(), id(), s, id(), id(), id(), id(), id(), id(), id(), gen.Pick(r, []string{"", "a{b:c", "a{*", "@x{"}))
		}
		return []byte(s)
	case "html":
		o := gen.HTMLOpts{}
		if r.Intn(3) == 0 {
			o.Tmpl = gen.Pick(r, [][2]string{html.GoTemplate, html.EJSTemplate, html.PHPTemplate})
		}
		s, _ := gen.HTMLDoc(r, o)
		return []byte(s)
	case "xml":
		s, _ := gen.XMLDoc(r)
		return []byte(s)
	case "json":
		doc, _ := gen.JSONSpell(gen.JSONDoc(r, 1+r.Intn(6)), gen.Pick(r, []string{"", " ", "\n"}))
		return doc
	}
	// js: a few corpus statements glued together
	var b []byte
	for k := 1 + r.Intn(3); k > 0; k-- {
		b = append(b, gen.Pick(r, li.corpus)...)
		b = append(b, gen.Pick(r, []string{"\n", ";", ";\n", "\n\n"})...)
	}
	return b
}

func c20Bytes(r *rand.Rand) []byte {
	switch r.Intn(5) {
	case 0:
		return gen.RawBytes(r, gen.SmallLen(r, 64))
	case 1:
		return gen.TruncatedTail(r, gen.UTF8(r, gen.SmallLen(r, 40)))
	case 2:
		return nil
	}
	return gen.UTF8(r, gen.SmallLen(r, 120))
}

// ---------------------------------------------------------------------------------------------------

type c20Visitor struct {
	d *c20Dig
	n int
}

func (v *c20Visitor) Enter(n js.INode) js.IVisitor { v.n++; v.d.s(fmt.Sprintf("%T", n)); return v }
func (v *c20Visitor) Exit(n js.INode)              { v.d.n(-1) }

// hidden readers: wrappers that expose exactly one of the optional interfaces
type c20PlainReader struct{ r io.Reader }

func (p *c20PlainReader) Read(b []byte) (int, error) { return p.r.Read(b) }

type c20ReaderAt struct{ r *bytes.Reader }

func (p *c20ReaderAt) Read(b []byte) (int, error)            { return p.r.Read(b) }
func (p *c20ReaderAt) ReadAt(b []byte, o int64) (int, error) { return p.r.ReadAt(b, o) }

type c20Seeker struct{ r *bytes.Reader }

func (p *c20Seeker) Read(b []byte) (int, error)         { return p.r.Read(b) }
func (p *c20Seeker) Seek(o int64, w int) (int64, error) { return p.r.Seek(o, w) }

var c20BinBackends = []string{"bytes", "plain", "seeker", "readerat", "file", "mmap"}

func c20Build() {
	// --- streaming lexers and parsers (drive.go): css lexer, css parser x2, html lexer + 6 template dialects,
	// xml lexer, json parser, js lexer with/without RegExp; each over the four Input constructors
	for _, ep := range entryPoints {
		ep := ep
		w := 2
		if ep.lang == "html" && ep.name != "html.lexer" {
			w = 1
		}
		c20Add(ep.name, w, func(r *rand.Rand, op *c20Op) {
			op.Data = c20Text(r, ep.lang)
			op.I = []int64{int64(r.Intn(len(inputCtors)))}
		}, func(op *c20Op, d *c20Dig) {
			r := newRand(op.Seed)
			in, backing := mkInput(r, c20Priv(op.Data, 0), inputCtors[op.i(0)])
			step := ep.mk(in, r)
			L := in.Len()
			terminal := 0
			for calls := 0; calls < 4*L+64 && terminal < 2; calls++ {
				isErr, kind, slices, errFn := step()
				d.n(kind)
				for _, s := range slices {
					d.b(s)
				}
				if isErr {
					d.e(errFn())
					terminal++
				}
			}
			d.n(in.Offset())
			d.b(in.Bytes()) // the html lexer lower-cases names in place: part of the result
			in.Restore()
			d.b(backing)
		})
	}

	// --- js.Parse with every Options value, and every AST method
	c20Add("js.Parse", 6, func(r *rand.Rand, op *c20Op) {
		if x := r.Intn(8); x == 0 {
			// template literals are accepted as strings by AST.JSON (with and without characters that need escaping)
			tl := func() string {
				return "`" + gen.Pick(r, []string{"alpha alpha", "first", "", "a\nb", "q\"q", "x\\`y", "omega omega omega", "é日"}) + "`"
			}
			op.Data = []byte(gen.Pick(r, []string{tl(), "[" + tl() + ", " + tl() + "]", "{\"k\": " + tl() + ", \"l\": [1, " + tl() + "]}"}))
		} else if x == 7 && r.Intn(2) == 0 {
			// calls of a function named async (a parser path of its own), balanced and beyond the nesting limit
			n := gen.Pick(r, []int{1, 2, 3, 40, 998, 1001})
			op.Data = []byte("x = " + strings.Repeat("async(", n) + "y" + strings.Repeat(")", n) + "; async(a, async(b))")
		} else if x < 3 {
			op.Data = c20Text(r, "json") // JSON-looking sources reach AST.JSON
		} else {
			op.Data = c20Text(r, "js")
		}
		op.I = []int64{int64(r.Intn(len(jsOptions))), int64(r.Intn(len(inputCtors))), int64(r.Intn(9))}
	}, func(op *c20Op, d *c20Dig) {
		r := newRand(op.Seed)
		in, backing := mkInput(r, c20Priv(op.Data, 0), inputCtors[op.i(1)])
		ast, err := js.Parse(in, jsOptions[op.i(0)])
		d.e(err)
		d.n(in.Offset())
		if ast != nil {
			d.s(ast.String())
			d.s(ast.JSString())
			var w bytes.Buffer
			ast.JS(parse.NewIndenter(&w, int(op.i(2))))
			d.b(w.Bytes())
			v := &c20Visitor{d: d}
			js.Walk(v, ast)
			d.n(v.n)
			s, jerr := ast.JSONString()
			d.s(s)
			d.e(jerr)
			d.s(ast.Scope.String())
		}
		in.Restore()
		d.b(backing)
	})

	// --- cursors: parse.Input, buffer.Lexer (history inside the documented domain: never beyond the terminator)
	for _, impl := range []string{"parse.Input", "buffer.Lexer"} {
		impl := impl
		c20Add(impl, 2, func(r *rand.Rand, op *c20Op) {
			op.Data = c20Bytes(r)
			op.I = []int64{int64(r.Intn(6)), int64(1 + r.Intn(60))}
		}, func(op *c20Op, d *c20Dig) { c20RunCursor(impl, op, d) })
	}
	c20Add("buffer.StreamLexer", 2, func(r *rand.Rand, op *c20Op) {
		if r.Intn(3) == 0 {
			op.Data = gen.UTF8(r, gen.SmallLen(r, 2000))
		} else {
			op.Data = c20Bytes(r)
		}
		op.I = []int64{int64(gen.Pick(r, []int{0, 1, 2, 3, 7, 8, 16, 64, 4096})), int64(5 + r.Intn(80))}
	}, c20RunStreamLexer)

	// --- strconv
	numStr := func(r *rand.Rand, op *c20Op) { op.Data = c14GenNumStr(r) }
	c20Add("strconv.ParseInt", 1, numStr, func(op *c20Op, d *c20Dig) {
		v, n := pstrconv.ParseInt(c20Priv(op.Data, 0))
		d.i64(v)
		d.n(n)
	})
	c20Add("strconv.ParseUint", 1, numStr, func(op *c20Op, d *c20Dig) {
		v, n := pstrconv.ParseUint(c20Priv(op.Data, 0))
		d.u64(v)
		d.n(n)
	})
	c20Add("strconv.ParseFloat", 1, numStr, func(op *c20Op, d *c20Dig) {
		v, n := pstrconv.ParseFloat(c20Priv(op.Data, 0))
		d.f(v)
		d.n(n)
	})
	c20Add("strconv.ParseDecimal", 1, numStr, func(op *c20Op, d *c20Dig) {
		v, n := pstrconv.ParseDecimal(c20Priv(op.Data, 0))
		d.f(v)
		d.n(n)
	})
	genNumber := func(r *rand.Rand, op *c20Op) {
		g, s := c14GenSym(r), c14GenSym(r)
		for s == g {
			s = c14GenSym(r)
		}
		if r.Intn(20) == 0 {
			g = 0
		}
		op.I = []int64{c14GenInt(r), int64(r.Intn(19)), int64(r.Intn(7)), int64(g), int64(s), int64(r.Intn(3))}
		op.Aux = gen.UTF8(r, r.Intn(6))
	}
	c20Add("strconv.AppendNumber+ParseNumber", 1, genNumber, func(op *c20Op, d *c20Dig) {
		dst := c20Priv(op.Aux, int(op.i(5))*24)
		out := pstrconv.AppendNumber(dst, op.i(0), int(op.i(1)), int(op.i(2)), rune(op.i(3)), rune(op.i(4)))
		d.b(out)
		if len(out) >= len(op.Aux) {
			num, dec, n := pstrconv.ParseNumber(c20Priv(out[len(op.Aux):], 0), rune(op.i(3)), rune(op.i(4)))
			d.i64(num)
			d.n(dec)
			d.n(n)
		}
	})
	c20Add("strconv.AppendInt+LenInt", 1, func(r *rand.Rand, op *c20Op) {
		op.I = []int64{c14GenInt(r), int64(r.Intn(3))}
		op.Aux = gen.UTF8(r, r.Intn(6))
	}, func(op *c20Op, d *c20Dig) {
		d.b(pstrconv.AppendInt(c20Priv(op.Aux, int(op.i(1))*12), op.i(0)))
		d.n(pstrconv.LenInt(op.i(0)))
		d.n(pstrconv.LenUint(uint64(op.i(0))))
	})
	genFloat := func(r *rand.Rand, op *c20Op) {
		op.I = []int64{int64(math.Float64bits(c14GenFloat(r))), int64(r.Intn(20) - 1), int64(r.Intn(3))}
		op.Aux = gen.UTF8(r, r.Intn(6))
	}
	c20Add("strconv.AppendFloat", 2, genFloat, func(op *c20Op, d *c20Dig) {
		f := math.Float64frombits(uint64(op.i(0)))
		for _, prec := range []int{int(op.i(1)), -1, 3} {
			d.b(pstrconv.AppendFloat(c20Priv(op.Aux, int(op.i(2))*16), f, prec))
		}
	})
	c20Add("strconv.AppendDecimal", 1, genFloat, func(op *c20Op, d *c20Dig) {
		f := math.Float64frombits(uint64(op.i(0)))
		dec := int(op.i(1))
		dd := dec
		if dd < 0 || dd > 17 {
			dd = 17
		}
		if !(math.Abs(f)*math.Pow10(dd) < 9.2e18) { // outside the documented domain (int64 conversion), NaN/Inf included
			f = math.Mod(f, 1e3)
			if math.IsNaN(f) || math.IsInf(f, 0) {
				f = 0.5
			}
		}
		d.b(pstrconv.AppendDecimal(c20Priv(op.Aux, int(op.i(2))*16), f, dec))
	})

	// --- common.go / util.go helpers
	c20Add("parse.Number+Dimension", 2, func(r *rand.Rand, op *c20Op) {
		op.Data = append(c14GenNumStr(r), gen.Pick(r, []string{"", "px", "%", "em", "e", "E+", " 1", "deg", "\x00", "é"})...)
	}, func(op *c20Op, d *c20Dig) {
		d.n(parse.Number(c20Priv(op.Data, 0)))
		n, m := parse.Dimension(c20Priv(op.Data, 0))
		d.n(n)
		d.n(m)
	})
	c20Add("parse.Mediatype", 1, func(r *rand.Rand, op *c20Op) {
		op.Data = gen.Mutate(r, []byte(gen.Pick(r, []string{"text/html", "text/html; charset=UTF-8", " text/plain ;charset = utf-8 ; q=0.8;x", "application/json;a=b;a=c", "a/b;;=;", "image/svg+xml ; base64",
			"text/html; charset=utf-8", "multipart/form-data; charset=utf-8; boundary=xyz", "text/css; charset=utf-8 ;q=1", "text/plain;charset=utf-8", "application/json; charset=utf-8"})), c16DataDict, r.Intn(3))
	}, func(op *c20Op, d *c20Dig) {
		b := c20Priv(op.Data, 4)
		mt, params := parse.Mediatype(b)
		d.b(mt)
		keys := make([]string, 0, len(params))
		for k := range params {
			keys = append(keys, k)
		}
		sort.Strings(keys)
		for _, k := range keys {
			d.s(k)
			d.s(params[k])
		}
		d.b(b[:cap(b)])
		if params != nil {
			// the returned map is this caller's own result: what it does with it is nobody else's business
			for _, k := range keys {
				delete(params, k)
			}
			params["edited-by-caller"] = "1"
		}
	})
	c20Add("parse.DataURI", 2, func(r *rand.Rand, op *c20Op) {
		op.Data = gen.Hostile(r, c16Corpus, c16DataDict, 200)
		if r.Intn(2) == 0 {
			op.Data = append([]byte("data:"+gen.Pick(r, []string{"", "text/plain", "text/html;charset=utf-8", ";base64", "image/png;base64", ";charset=utf-8", ";charset=utf-8;base64", ";a=b", ";x=1;y=2"})+","), gen.Pick(r, []string{"a%20b+c", "dGV4dA==", "aGVsbG8gd29ybGQ=", "%", "%zz", "é"})...)
		}
	}, func(op *c20Op, d *c20Dig) {
		b := c20Priv(op.Data, 4)
		mt, data, err := parse.DataURI(b)
		d.b(mt)
		d.b(data)
		d.e(err)
		d.b(b[:cap(b)])
	})
	c20Add("parse.QuoteEntity", 1, func(r *rand.Rand, op *c20Op) {
		op.Data = append([]byte(gen.Pick(r, []string{"&quot;", "&#34;", "&#x22;", "&#X22;", "&apos;", "&#39;", "&#x27;", "&#0034;", "&#x00022;", "&#3", "&quot", "&amp;", "&#x;", "&"})), gen.UTF8(r, r.Intn(4))...)
	}, func(op *c20Op, d *c20Dig) {
		q, n := parse.QuoteEntity(c20Priv(op.Data, 0))
		d.n(int(q))
		d.n(n)
	})
	c20Add("parse.ReplaceMultipleWhitespace", 2, func(r *rand.Rand, op *c20Op) {
		op.Data = c17WhitespaceString(r)
		op.I = []int64{int64(r.Intn(2))}
	}, func(op *c20Op, d *c20Dig) {
		b := c20Priv(op.Data, int(op.i(0))*8)
		d.b(parse.ReplaceMultipleWhitespace(b))
		d.b(b[:cap(b)])
	})
	genEnt := func(r *rand.Rand, op *c20Op) {
		k := r.Intn(len(c20Maps))
		op.Data = c17EntityString(r, c20Maps[k].ent, c20Maps[k].keys, true)
		if r.Intn(3) == 0 {
			op.Data = append(op.Data, c17WhitespaceString(r)...)
		}
		op.I = []int64{int64(k), int64(r.Intn(2))}
	}
	c20Add("parse.ReplaceEntities", 3, genEnt, func(op *c20Op, d *c20Dig) {
		m := c20Maps[op.i(0)]
		b := c20Priv(op.Data, int(op.i(1))*8)
		d.b(parse.ReplaceEntities(b, m.ent, m.rev))
		d.b(b[:cap(b)])
	})
	c20Add("parse.ReplaceMultipleWhitespaceAndEntities", 2, genEnt, func(op *c20Op, d *c20Dig) {
		m := c20Maps[op.i(0)]
		b := c20Priv(op.Data, int(op.i(1))*8)
		d.b(parse.ReplaceMultipleWhitespaceAndEntities(b, m.ent, m.rev))
		d.b(b[:cap(b)])
	})
	c20Add("parse.EncodeURL+DecodeURL", 2, func(r *rand.Rand, op *c20Op) {
		op.Data = gen.Mutate(r, c20Bytes(r), c16Dict, r.Intn(3))
		op.I = []int64{int64(r.Intn(2)), int64(r.Intn(2))}
	}, func(op *c20Op, d *c20Dig) {
		table := parse.URLEncodingTable // a copy: EncodeURL takes the table by value
		if op.i(0) == 1 {
			table = parse.DataURIEncodingTable
		}
		b := c20Priv(op.Data, int(op.i(1))*16)
		enc := parse.EncodeURL(b, table)
		d.b(enc)
		d.b(parse.DecodeURL(c20Priv(enc, 0)))
		raw := c20Priv(op.Data, 0)
		d.b(parse.DecodeURL(raw))
		d.b(raw)
	})
	c20Add("parse.AppendEscape", 1, func(r *rand.Rand, op *c20Op) {
		op.Data = c20Bytes(r)
		op.Aux = []byte(gen.Pick(r, []string{"", "\"", "'\"", "abc", "\\"}))
		op.I = []int64{int64(gen.Pick(r, []byte{'\\', '%', 'a', 0})), int64(r.Intn(2))}
	}, func(op *c20Op, d *c20Dig) {
		d.b(parse.AppendEscape(c20Priv([]byte("x="), int(op.i(1))*32), c20Priv(op.Data, 0), c20Priv(op.Aux, 0), byte(op.i(0))))
	})
	c20Add("parse.Copy+ToLower+EqualFold", 2, func(r *rand.Rand, op *c20Op) {
		op.Data = gen.Mutate(r, []byte(gen.Pick(r, []string{"DOCTYPE", "Content-Type", "SCRIPT", "sTyLe", "ÀÉ", "A\x00Z[@`{", ""})), htmlDict, r.Intn(3))
		op.Aux = bytes.ToLower(op.Data)
		if r.Intn(3) == 0 {
			op.Aux = gen.Mutate(r, op.Aux, nil, 1)
		}
	}, func(op *c20Op, d *c20Dig) {
		src := c20Priv(op.Data, 2)
		cp := parse.Copy(src)
		d.b(cp)
		d.n(cap(cp))
		d.b(parse.ToLower(cp)) // in place on the private copy
		d.b(cp)
		d.b(src[:cap(src)])
		d.t(parse.EqualFold(c20Priv(op.Data, 0), c20Priv(op.Aux, 0)))
	})
	c20Add("parse.whitespace-helpers", 1, func(r *rand.Rand, op *c20Op) {
		op.Data = c17WhitespaceString(r)
		op.I = []int64{int64(gen.Rune(r))}
	}, func(op *c20Op, d *c20Dig) {
		b := c20Priv(op.Data, 0)
		d.t(parse.IsAllWhitespace(b))
		d.b(parse.TrimWhitespace(b))
		d.b(b)
		for c := 0; c < 256; c++ {
			d.t(parse.IsWhitespace(byte(c)))
			d.t(parse.IsNewline(byte(c)))
		}
		d.s(parse.Printable(rune(op.i(0))))
	})
	c20Add("parse.Indenter", 1, func(r *rand.Rand, op *c20Op) {
		op.Data = c20Text(r, "js")
		op.I = []int64{int64(r.Intn(9)), int64(r.Intn(5))}
	}, func(op *c20Op, d *c20Dig) {
		var w bytes.Buffer
		in := parse.NewIndenter(parse.NewIndenter(&w, int(op.i(0))), int(op.i(1)))
		d.n(in.Indent())
		n, err := in.Write(c20Priv(op.Data, 0))
		d.n(n)
		d.e(err)
		d.b(w.Bytes())
	})
	c20Add("parse.Position+Error", 2, func(r *rand.Rand, op *c20Op) {
		op.Data = c20Text(r, gen.Pick(r, []string{"js", "css", "html"}))
		op.I = []int64{int64(r.Intn(len(op.Data) + 2)), int64(r.Intn(1000))}
	}, func(op *c20Op, d *c20Dig) {
		off := int(op.i(0))
		if off > len(op.Data) {
			off = len(op.Data)
		}
		line, col, ctx := parse.Position(bytes.NewReader(c20Priv(op.Data, 0)), off)
		d.n(line)
		d.n(col)
		d.s(ctx)
		e := parse.NewError(bytes.NewReader(c20Priv(op.Data, 0)), off, "unexpected %d in %s", op.i(1), "x")
		d.s(e.Error())
		l, c, x := e.Position()
		d.n(l)
		d.n(c)
		d.s(x)
		in := parse.NewInputBytes(c20Priv(op.Data, 0))
		in.Move(off)
		d.s(parse.NewErrorLexer(in, "bad").Error())
	})

	// --- css / html / xml / js helpers
	c20Add("css.IsIdent+IsURLUnquoted+HSL2RGB", 1, func(r *rand.Rand, op *c20Op) {
		op.Data = []byte(gen.CSSIdent(r))
		if r.Intn(2) == 0 {
			op.Data = gen.Hostile(r, cssCorpus, cssDict, 40)
		}
		op.I = []int64{int64(math.Float64bits(r.Float64())), int64(math.Float64bits(r.Float64())), int64(math.Float64bits(r.Float64()))}
	}, func(op *c20Op, d *c20Dig) {
		d.t(css.IsIdent(c20Priv(op.Data, 0)))
		d.t(css.IsURLUnquoted(c20Priv(op.Data, 0)))
		a, b, c := css.HSL2RGB(math.Float64frombits(uint64(op.i(0))), math.Float64frombits(uint64(op.i(1))), math.Float64frombits(uint64(op.i(2))))
		d.f(a)
		d.f(b)
		d.f(c)
	})
	hashWords := []string{"document", "font-face", "import", "keyframes", "media", "page", "supports", "iframe", "math", "plaintext", "script", "style", "svg", "textarea", "title", "xmp", "div", "", "Script", "medi", "mediaa"}
	genWord := func(r *rand.Rand, op *c20Op) {
		op.Data = []byte(gen.Pick(r, hashWords))
		if r.Intn(4) == 0 {
			op.Data = gen.Mutate(r, op.Data, nil, 1)
		}
		op.I = []int64{int64(r.Intn(1 << 12))}
	}
	c20Add("css.ToHash+Hash", 2, genWord, func(op *c20Op, d *c20Dig) {
		h := css.ToHash(c20Priv(op.Data, 0))
		d.u64(uint64(h))
		d.s(h.String())
		d.b(h.Bytes()) // a slice of the shared constant table: read only
		for _, k := range []css.Hash{css.Document, css.Font_Face, css.Keyframes, css.Layer, css.Media, css.Page, css.Supports} {
			d.s(k.String())
		}
	})
	c20Add("html.ToHash+Hash", 2, genWord, func(op *c20Op, d *c20Dig) {
		h := html.ToHash(c20Priv(op.Data, 0))
		d.u64(uint64(h))
		d.s(h.String())
		d.b(h.Bytes())
		for _, k := range []html.Hash{html.Iframe, html.Math, html.Plaintext, html.Script, html.Style, html.Svg, html.Textarea, html.Title, html.Xml, html.Xmp} {
			d.s(k.String())
		}
	})
	genAttr := func(r *rand.Rand, op *c20Op) {
		op.Data = c17AttrValue(r)
		need := len(op.Data) + 2 + 5*(bytes.Count(op.Data, []byte{'"'})+bytes.Count(op.Data, []byte{'\''}))
		op.I = []int64{int64(gen.Pick(r, []byte{0, '\'', '"'})), int64(r.Intn(2)), int64(gen.Pick(r, []int{0, 1, len(op.Data), len(op.Data) + 2, need - 1, need, need + 64}))}
	}
	c20Add("html.EscapeAttrVal", 3, genAttr, func(op *c20Op, d *c20Dig) {
		buf := make([]byte, 0, max(int(op.i(2)), 0)) // private scratch buffer, reused for two calls like a minifier does
		v := c20Priv(op.Data, 0)
		d.b(html.EscapeAttrVal(&buf, v, byte(op.i(0)), op.i(1) == 1))
		d.b(html.EscapeAttrVal(&buf, v, byte(op.i(0)), op.i(1) == 0))
		d.b(v)
	})
	c20Add("xml.EscapeAttrVal+EscapeCDATAVal", 3, genAttr, func(op *c20Op, d *c20Dig) {
		buf := make([]byte, 0, max(int(op.i(2)), 0))
		v := c20Priv(op.Data, 0)
		d.b(xml.EscapeAttrVal(&buf, v))
		out, ok := xml.EscapeCDATAVal(&buf, v)
		d.b(out)
		d.t(ok)
		d.b(v)
	})
	c20Add("js.predicates+TokenType+Keywords", 2, func(r *rand.Rand, op *c20Op) {
		op.Data = []byte(gen.Pick(r, []string{"abc", "$x", "_", "1", "1.5", "0x1", "é", "‌", "\\u0061", "await", "class", "if", "", "a-b", "9a", "\xff", "𝒳", "123456789012345678901"}))
		if r.Intn(4) == 0 {
			op.Data = gen.UTF8(r, 1+r.Intn(3))
		}
		op.I = []int64{int64(r.Intn(0x1100))}
	}, func(op *c20Op, d *c20Dig) {
		b := c20Priv(op.Data, 0)
		d.t(js.AsIdentifierName(b))
		d.t(js.AsDecimalLiteral(b))
		d.t(js.IsIdentifierStart(b))
		d.t(js.IsIdentifierContinue(b))
		d.t(js.IsIdentifierEnd(b))
		tt, ok := js.Keywords[string(b)] // exported lookup table: read only
		d.n(int(tt))
		d.t(ok)
		for _, t := range []js.TokenType{js.TokenType(op.i(0)), tt, js.ErrorToken, js.AddToken, js.FunctionToken, js.AwaitToken, js.DecimalToken, js.NullishEqToken} {
			d.s(t.String())
			d.b(t.Bytes()) // shared constant slices: read only
			d.t(js.IsNumeric(t))
			d.t(js.IsPunctuator(t))
			d.t(js.IsOperator(t))
			d.t(js.IsIdentifierName(t))
			d.t(js.IsReservedWord(t))
			d.t(js.IsIdentifier(t))
		}
	})

	// --- buffer.Reader / buffer.Writer
	c20Add("buffer.Reader+Writer", 1, func(r *rand.Rand, op *c20Op) {
		op.Data = c20Bytes(r)
		op.I = []int64{int64(1 + r.Intn(9)), int64(r.Intn(2))}
	}, func(op *c20Op, d *c20Dig) {
		rd := buffer.NewReader(c20Priv(op.Data, 0))
		var w *buffer.Writer
		if op.i(1) == 0 {
			w = buffer.NewWriter(make([]byte, 0, 4))
		} else {
			w = buffer.NewStaticWriter(make([]byte, 0, 16))
		}
		chunk := make([]byte, op.i(0))
		for k := 0; k < len(op.Data)+2; k++ {
			n, err := rd.Read(chunk)
			d.n(n)
			d.e(err)
			m, werr := w.Write(chunk[:n])
			d.n(m)
			d.e(werr)
			if err != nil {
				break
			}
		}
		d.n(rd.Len())
		d.b(rd.Bytes())
		n, err := rd.ReadAt(chunk, int64(len(op.Data)/2))
		d.n(n)
		d.e(err)
		d.b(w.Bytes())
		d.n(w.Len())
		w.Reset()
		rd.Reset()
		d.n(w.Len())
		d.n(rd.Len())
		d.e(w.Close())
	})

	// --- binary.go
	c20Add("parse.BinaryReader", 3, func(r *rand.Rand, op *c20Op) {
		op.Data = gen.RawBytes(r, gen.SmallLen(r, 96))
		be := r.Intn(4)
		if r.Intn(12) == 0 {
			be = 4 + r.Intn(2)
		}
		op.I = []int64{int64(be), int64(4 + r.Intn(30))}
	}, c20RunBinaryReader)
	c20Add("parse.BinaryWriter+Bitmap", 2, func(r *rand.Rand, op *c20Op) {
		op.Data = gen.RawBytes(r, gen.SmallLen(r, 40))
		op.I = []int64{int64(r.Intn(3)), int64(r.Uint64())}
	}, func(op *c20Op, d *c20Dig) {
		w := parse.NewBinaryWriter(make([]byte, 0, int(op.i(0))*8))
		v := uint64(op.i(1))
		w.WriteUint8(uint8(v))
		w.WriteUint16(uint16(v))
		w.WriteUint24(uint32(v) & 0xffffff)
		w.WriteUint32(uint32(v))
		w.WriteUint64(v)
		w.WriteInt8(int8(v))
		w.WriteInt16(int16(v))
		w.WriteInt24(int32(v<<8) >> 8)
		w.WriteInt32(int32(v))
		w.WriteInt64(int64(v))
		w.WriteByte(byte(v >> 8))
		w.WriteBytes(c20Priv(op.Data, 0))
		w.WriteString(string(op.Data))
		n, err := w.Write(c20Priv(op.Data, 0))
		d.n(n)
		d.e(err)
		d.i64(w.Len())
		d.b(w.Bytes())
		bw := parse.NewBitmapWriter(make([]byte, 0, int(op.i(0))))
		br := parse.NewBitmapReader(c20Priv(op.Data, 0))
		for k := 0; k < 8*len(op.Data) && !br.EOF(); k++ {
			bit := br.Read()
			d.t(bit)
			bw.Write(bit)
		}
		d.u64(uint64(br.Pos()))
		d.t(br.EOF())
		d.i64(bw.Len())
		d.b(bw.Bytes())
	})
}

// c20RunCursor drives parse.Input / buffer.Lexer through a seeded history inside the documented domain.
func c20RunCursor(impl string, op *c20Op, d *c20Dig) {
	r := newRand(op.Seed)
	var c cursorAPI
	var backing []byte
	data := c20Priv(op.Data, 0)
	fromBytes := func(b []byte) cursorAPI {
		if impl == "parse.Input" {
			return parse.NewInputBytes(b)
		}
		return buffer.NewLexerBytes(b)
	}
	fromReader := func(rd io.Reader) cursorAPI {
		if impl == "parse.Input" {
			return parse.NewInput(rd)
		}
		return buffer.NewLexer(rd)
	}
	L := len(data)
	switch op.i(0) {
	case 0:
		c = fromBytes(data[:L:L])
	case 1:
		backing = c20Priv(op.Data, 8)
		backing = backing[:cap(backing)]
		c = fromBytes(backing[:L])
	case 2:
		c = fromReader(&gen.SchedReader{Data: data, Chunks: gen.Schedule(r, L, 1+r.Intn(9)), ErrWithLast: r.Intn(2) == 0})
	case 3:
		backing = c20Priv(op.Data, 8)
		backing = backing[:cap(backing)]
		c = fromReader(&gen.BytesReader{B: backing[:L]})
	case 4:
		k := r.Intn(L + 1)
		c = fromReader(&gen.SchedReader{Data: data[:k], Chunks: gen.Schedule(r, k, 1+r.Intn(9)), Err: gen.ErrInjected})
		L = 0 // a failed reader yields the empty input (shared terminator buffer)
	default:
		if impl == "parse.Input" && L > 0 {
			c = parse.NewInputString(string(data))
		} else {
			c = fromReader(nil)
			L = 0
		}
	}
	pos, start := 0, 0
	d.e(c.Err())
	d.b(c.Bytes())
	for k := int(op.i(1)); k > 0; k-- {
		switch r.Intn(14) {
		case 0, 1:
			d.n(int(c.Peek(-pos + r.Intn(L+1))))
		case 2:
			d.e(c.PeekErr(r.Intn(L - pos + 3)))
		case 3, 4:
			for j := 0; pos+j <= L && j < 8; j++ {
				rn, n := c.PeekRune(j)
				d.n(int(rn))
				d.n(n)
			}
		case 5:
			n := r.Intn(L - pos + 1)
			c.Move(n)
			pos += n
		case 6:
			if mr, ok := c.(interface{ MoveRune() }); ok && pos < L {
				mr.MoveRune()
				pos = c.Offset()
				if pos > L { // outside the domain from here on: stop the history
					d.n(pos)
					return
				}
			}
		case 7:
			p := r.Intn(L - start + 1)
			c.Rewind(p)
			pos = start + p
		case 8:
			d.b(c.Lexeme())
		case 9:
			c.Skip()
			start = pos
		case 10, 11:
			d.b(c.Shift())
			start = pos
		case 12:
			d.b(c.Bytes())
			if l, ok := c.(interface{ Len() int }); ok {
				d.n(l.Len())
			}
		case 13:
			if r.Intn(4) == 0 {
				c.Reset()
				pos, start = 0, 0
			}
		}
		d.n(c.Pos())
		d.n(c.Offset())
		d.e(c.Err())
	}
	c.Restore()
	c.Restore()
	d.b(backing)
}

func c20RunStreamLexer(op *c20Op, d *c20Dig) {
	r := newRand(op.Seed)
	data := c20Priv(op.Data, 0)
	L := len(data)
	size := int(op.i(0))
	var rd io.Reader
	switch r.Intn(8) {
	case 0:
		rd = &gen.BytesReader{B: data}
	case 1:
		k := r.Intn(L + 1)
		data, L = data[:k], k
		rd = &gen.SchedReader{Data: data, Chunks: gen.Schedule(r, k, 1+r.Intn(2*size+4)), Err: gen.ErrInjected, ErrWithLast: r.Intn(2) == 0}
	default:
		rd = &gen.SchedReader{Data: data, Chunks: gen.Schedule(r, L, 1+r.Intn(2*size+4)), ErrWithLast: r.Intn(2) == 0}
	}
	var z *buffer.StreamLexer
	if size == 4096 && r.Intn(2) == 0 {
		z = buffer.NewStreamLexer(rd) // reads buffer.MinBuf
	} else {
		z = buffer.NewStreamLexerSize(rd, size)
	}
	pos, start, loaded, freed := 0, 0, 0, 0
	for k := int(op.i(1)); k > 0; k-- {
		switch r.Intn(12) {
		case 0, 1, 2:
			j := r.Intn(L - pos + 2)
			if r.Intn(3) == 0 {
				j = r.Intn(4)
			}
			d.n(int(z.Peek(j)))
			if e := min(pos+j+1, L); e > loaded {
				loaded = e
			}
		case 3:
			if pos < L {
				rn, n := z.PeekRune(0)
				d.n(int(rn))
				d.n(n)
				if e := min(pos+n, L); e > loaded {
					loaded = e
				}
			}
		case 4, 5, 6: // Move within what was peeked
			if hi := loaded - pos; hi > 0 {
				n := 1 + r.Intn(hi)
				z.Move(n)
				pos += n
			}
		case 7:
			p := r.Intn(pos - start + 1)
			z.Rewind(p)
			pos = start + p
		case 8:
			d.b(z.Lexeme())
		case 9:
			z.Skip()
			start = pos
		default:
			d.b(z.Shift())
			start = pos
			n := z.ShiftLen()
			d.n(n)
			if r.Intn(2) == 0 && freed+n <= start {
				z.Free(n)
				freed += n
			}
		}
		d.n(z.Pos())
		d.e(z.Err())
	}
}

func c20RunBinaryReader(op *c20Op, d *c20Dig) {
	rnd := newRand(op.Seed)
	data := c20Priv(op.Data, 0)
	n := int64(len(data))
	var r *parse.BinaryReader
	var err error
	cleanup := func() {}
	switch be := c20BinBackends[op.i(0)]; be {
	case "bytes":
		r = parse.NewBinaryReaderBytes(data)
	case "plain":
		r, err = parse.NewBinaryReaderReader(&c20PlainReader{bytes.NewReader(data)}, n)
	case "seeker":
		r, err = parse.NewBinaryReaderReader(&c20Seeker{bytes.NewReader(data)}, n)
	case "readerat":
		r, err = parse.NewBinaryReaderReader(&c20ReaderAt{bytes.NewReader(data)}, n)
	default: // a private file per execution
		f, ferr := os.CreateTemp(os.Getenv("VH_SCRATCH"), "c20-bin-*")
		if ferr != nil {
			d.s("env: no temp file") // environment trouble is not a library result; keep the digest stable
			return
		}
		name := f.Name()
		f.Write(data)
		f.Close()
		cleanup = func() { os.Remove(name) }
		if be == "file" {
			r, err = parse.NewBinaryReaderPath(name)
		} else {
			r, err = parse.NewBinaryReaderMmapPath(name)
		}
		if err != nil {
			err = fmt.Errorf("open failed") // the message holds a random file name
		}
	}
	defer cleanup()
	d.e(err)
	if r == nil || err != nil {
		return
	}
	d.i64(r.Len())
	for k := int(op.i(1)); k > 0; k-- {
		switch rnd.Intn(18) {
		case 0:
			d.u64(uint64(r.ReadUint8()))
		case 1:
			d.u64(uint64(r.ReadUint16()))
		case 2:
			d.u64(uint64(r.ReadUint24()))
		case 3:
			d.u64(uint64(r.ReadUint32()))
		case 4:
			d.u64(r.ReadUint64())
		case 5:
			d.i64(int64(r.ReadInt8()))
		case 6:
			d.i64(int64(r.ReadInt16()))
		case 7:
			d.i64(int64(r.ReadInt24()))
		case 8:
			d.i64(int64(r.ReadInt32()))
		case 9:
			d.i64(r.ReadInt64())
		case 10:
			b, e := r.ReadByte()
			d.n(int(b))
			d.e(e)
		case 11:
			d.b(r.ReadBytes(int64(rnd.Intn(12))))
		case 12:
			d.s(r.ReadString(int64(rnd.Intn(12))))
		case 13:
			p := make([]byte, rnd.Intn(12))
			m, e := r.Read(p)
			d.n(m)
			d.e(e)
			d.b(p)
		case 14:
			p := make([]byte, rnd.Intn(12))
			m, e := r.ReadAt(p, rnd.Int63n(n+2))
			d.n(m)
			d.e(e)
			d.b(p)
		case 15:
			o, e := r.Seek(rnd.Int63n(n+1), io.SeekStart)
			d.i64(o)
			d.e(e)
		case 16:
			c := r.Clone()
			d.i64(c.Pos())
			d.u64(uint64(c.ReadUint16()))
		case 17:
			o, e := r.Seek(-rnd.Int63n(n+1), io.SeekEnd)
			d.i64(o)
			d.e(e)
		}
		d.i64(r.Pos())
		d.e(r.Err())
	}
	d.e(r.Close())
}
