package props

import (
	"bytes"
	"fmt"
	"io"
	"runtime/metrics"
	"strings"

	"github.com/tdewolff/parse/v2"
	"github.com/tdewolff/parse/v2/js"

	"vh/fw"
	"vh/gen"
)

// C01 — no crash, hang or over-read.
//
// Monitors: recover() around the case (fw), child exit status (fw driver), pointer-range monitor on every
// slice handed out, call-count bound until the terminal report, stickiness of the terminal report,
// error-offset hook H1, canary after the caller's buffer, stack high-water for deep nesting.

type c01Case struct {
	Entry string `json:"entry"`
	Ctor  string `json:"ctor"`
	Data  fw.B   `json:"data"`
	Opts  string `json:"opts,omitempty"`
}

// driveToEnd runs a streaming entry point until its terminal report and checks the C01 clauses.
// It returns the number of calls made.
func driveToEnd(t *fw.T, name string, in *parse.Input, step stepFn, backing []byte, data []byte) int {
	L := in.Len()
	base := bufBase(in)
	maxCalls := 4*L + 64
	calls := 0
	sticky := 0
	var stickyErr string
	reached := false
	eofSeen, eofAt := false, 0
	// H1: every *parse.Error is built from an offset inside the input
	badOffset := ""
	parse.VerifOnNewError = func(off int, msg string) {
		t.Count("hook.newerror", 1)
		if off < 0 || off > L {
			badOffset = fmt.Sprintf("error %q built from offset %d outside [0,%d]", msg, off, L)
		}
	}
	defer func() { parse.VerifOnNewError = nil }()
	for calls < maxCalls+16 {
		before := in.Offset()
		isErr, _, slices, errFn := step()
		var err error
		if isErr {
			err = errFn()
		}
		calls++
		after := in.Offset()
		if after < 0 || after > L {
			t.Failf("%s: cursor offset %d outside the input of %d bytes after call %d", name, after, L, calls)
			return calls
		}
		for i, s := range slices {
			if sliceInside(s, base, L) == 2 {
				t.Failf("%s: call %d returned slice #%d %s that extends beyond the input (offset %d, len %d, input %d bytes)", name, calls, i, fw.Q(s), sliceOffset(s, base), len(s), L)
				return calls
			}
		}
		if badOffset != "" {
			t.Failf("%s: %s", name, badOffset)
			return calls
		}
		if err != nil {
			_ = err.Error() // building the message must not panic either
		}
		// once the end of the input has been reported (an error result whose Err() is io.EOF) every further call reports it again
		if eofSeen && !(isErr && err == io.EOF) {
			t.Failf("%s: the end of the input was reported at call %d (Err() == io.EOF), call %d reports something else (error result: %v, Err(): %v)", name, eofAt, calls, isErr, err)
			return calls
		}
		if isErr && err == io.EOF && !eofSeen {
			eofSeen, eofAt = true, calls
		}
		if isErr && after == before && err != nil {
			es := err.Error()
			if sticky > 0 && es != stickyErr {
				sticky = 0
			}
			sticky++
			stickyErr = es
			if sticky == 1 && !reached {
				t.Count("calls.until_terminal", calls)
			}
			if sticky >= 10 { // the terminal report repeated for 9 further calls
				reached = true
				break
			}
		} else {
			if reached {
				t.Failf("%s: after the terminal report, call %d returned something else", name, calls)
				return calls
			}
			sticky = 0
		}
	}
	if !reached {
		t.Failf("%s: no terminal report within %d calls on an input of %d bytes (bound 4*len+64)", name, calls, L)
		return calls
	}
	// the caller's bytes: only the borrowed terminator byte may differ, Restore puts it back
	if backing != nil {
		for i := L + 1; i < len(backing); i++ {
			if backing[i] != byte(0xC3+i*7) {
				t.Failf("%s: byte %d beyond the borrowed terminator was overwritten", name, i)
				return calls
			}
		}
		in.Restore()
		if backing[L] != byte(0xC3+L*7) {
			t.Failf("%s: Restore() did not put back the borrowed byte", name)
		}
	}
	return calls
}

func c01Stream(t *fw.T) {
	r := t.Rng
	ep := entryPoints[r.Intn(len(entryPoints))]
	li := langs[ep.lang]
	maxLen := 256
	if r.Intn(20) == 0 {
		maxLen = 65536
	}
	_ = li
	data := hostileInput(r, ep.lang, maxLen)
	ctor := gen.Pick(r, inputCtors)
	t.Desc(&c01Case{Entry: ep.name, Ctor: ctor, Data: data})
	in, backing := mkInput(r, data, ctor)
	step := ep.mk(in, r)
	calls := driveToEnd(t, ep.name, in, step, backing, data)
	t.Count("calls", calls)
	t.Seen("entry", ep.name)
	t.Seen("entry×ctor", ep.name+"/"+ctor)
	if len(data) >= 3 && calls >= 13 {
		t.Nontrivial(append([]byte(ep.name+ctor), data...))
	}
	t.Sample(map[string]any{"entry": ep.name, "ctor": ctor, "data": data, "calls": calls})
}

// --- js.Parse and the AST methods ---

type countVisitor struct{ n int }

func (v *countVisitor) Enter(n js.INode) js.IVisitor { v.n++; return v }
func (v *countVisitor) Exit(n js.INode)              {}

type pruneVisitor struct {
	r interface{ Intn(int) int }
}

func (v *pruneVisitor) Enter(n js.INode) js.IVisitor {
	if v.r.Intn(5) == 0 {
		return nil
	}
	return v
}
func (v *pruneVisitor) Exit(n js.INode) {}

// exerciseAST calls every printing/walking/conversion method on a tree; none may panic.
func exerciseAST(t *fw.T, ast *js.AST, r interface{ Intn(int) int }) {
	if p := fw.Guard(func() { _ = ast.String() }); p != "" {
		t.Failf("AST.String(): %s", p)
		return
	}
	if p := fw.Guard(func() { _ = ast.JSString() }); p != "" {
		t.Failf("AST.JSString(): %s", p)
		return
	}
	if p := fw.Guard(func() { ast.JS(parse.NewIndenter(io.Discard, r.Intn(9))) }); p != "" {
		t.Failf("AST.JS(Indenter): %s", p)
		return
	}
	// a visitor that skips subtrees (Enter returns nil): the documented way to prune
	if p := fw.Guard(func() { js.Walk(&pruneVisitor{r: r}, ast) }); p != "" {
		t.Failf("js.Walk with a pruning visitor: %s", p)
		return
	}
	v := &countVisitor{}
	if p := fw.Guard(func() { js.Walk(v, ast) }); p != "" {
		t.Failf("js.Walk: %s", p)
		return
	}
	t.Count("ast.nodes_walked", v.n)
	if p := fw.Guard(func() { _, _ = ast.JSONString() }); p != "" {
		t.Failf("AST.JSONString(): %s", p)
		return
	}
	if p := fw.Guard(func() { _ = ast.JSON(io.Discard) }); p != "" {
		t.Failf("AST.JSON(): %s", p)
		return
	}
	t.Count("ast.exercised", 1)
}

var jsOptions = []js.Options{{}, {WhileToFor: true}, {Inline: true}, {WhileToFor: true, Inline: true}}

func optName(o js.Options) string {
	return fmt.Sprintf("WhileToFor=%v,Inline=%v", o.WhileToFor, o.Inline)
}

func c01JSParse(t *fw.T) {
	r := t.Rng
	li := langs["js"]
	maxLen := 300
	if r.Intn(25) == 0 {
		maxLen = 65536
	}
	var data []byte
	if r.Intn(3) == 0 {
		// JSON-looking expressions reach the JSON converters
		data = hostileInput(r, "json", maxLen)
	} else {
		_ = li
		data = hostileInput(r, "js", maxLen)
	}
	o := jsOptions[r.Intn(4)]
	ctor := gen.Pick(r, inputCtors)
	t.Desc(&c01Case{Entry: "js.Parse", Ctor: ctor, Data: data, Opts: optName(o)})
	in, backing := mkInput(r, data, ctor)
	L := in.Len()
	badOffset := ""
	parse.VerifOnNewError = func(off int, msg string) {
		t.Count("hook.newerror", 1)
		if off < 0 || off > L {
			badOffset = fmt.Sprintf("error %q built from offset %d outside [0,%d]", msg, off, L)
		}
	}
	defer func() { parse.VerifOnNewError = nil }()
	ast, err := js.Parse(in, o)
	t.Count("js.parse", 1)
	if badOffset != "" {
		t.Failf("js.Parse: %s", badOffset)
		return
	}
	if in.Offset() > L {
		t.Failf("js.Parse left the cursor at %d beyond the input of %d bytes", in.Offset(), L)
		return
	}
	if err != nil {
		_ = err.Error()
		t.Count("js.parse.rejected", 1)
		if ast != nil {
			t.Failf("js.Parse returned an error (%v) together with a tree", oneLineErr(err))
		}
	} else {
		if ast == nil {
			t.Failf("js.Parse returned neither tree nor error")
			return
		}
		t.Count("js.parse.accepted", 1)
		exerciseAST(t, ast, r)
		if len(data) >= 3 {
			t.Nontrivial(append([]byte(optName(o)), data...))
		}
	}
	if backing != nil {
		for i := L + 1; i < len(backing); i++ {
			if backing[i] != byte(0xC3+i*7) {
				t.Failf("js.Parse: byte %d beyond the borrowed terminator was overwritten", i)
				return
			}
		}
	}
	t.Seen("entry", "js.Parse/"+optName(o))
	t.Sample(map[string]any{"entry": "js.Parse", "opts": optName(o), "data": data, "accepted": err == nil})
}

func oneLineErr(err error) string {
	s := err.Error()
	if i := strings.IndexByte(s, '\n'); i >= 0 {
		s = s[:i]
	}
	return s
}

// --- deep nesting ---

type deepConstruct struct {
	name, entry         string
	open, middle, close string
	prefix, suffix      string // written once around the nested part
}

var deepConstructs = []deepConstruct{
	{"js:paren", "js.Parse", "(", "a", ")", "", ""},
	{"js:array", "js.Parse", "[", "a", "]", "", ""},
	{"js:object", "js.Parse", "x={a:", "1", "}", "", ""},
	{"js:block", "js.Parse", "{", "", "}", "", ""},
	{"js:if", "js.Parse", "if(a)", "b", "", "", ""},
	{"js:else", "js.Parse", "if(a)b;else ", "c", "", "", ""},
	{"js:label", "js.Parse", "a:", "b", "", "", ""},
	{"js:unary-not", "js.Parse", "!", "a", "", "", ""},
	{"js:unary-minus", "js.Parse", "- ", "a", "", "", ""},
	{"js:typeof", "js.Parse", "typeof ", "a", "", "", ""},
	{"js:await", "js.Parse", "await ", "a", "", "", ""},
	{"js:new", "js.Parse", "new ", "a", "", "", ""},
	{"js:arrow", "js.Parse", "a=>", "b", "", "", ""},
	{"js:cond", "js.Parse", "a?b:", "c", "", "", ""},
	{"js:cond-mid", "js.Parse", "a?", "b", ":c", "", ""},
	{"js:assign", "js.Parse", "a=", "b", "", "", ""},
	{"js:template", "js.Parse", "`${", "a", "}`", "", ""},
	{"js:function", "js.Parse", "function f(){", "", "}", "", ""},
	{"js:funcexpr", "js.Parse", "x=function(){return ", "1", "}", "", ""},
	{"js:class-field", "js.Parse", "class A{a=", "1", "}", "", ""},
	{"js:class-expr", "js.Parse", "x=class{a=", "1", "}", "", ""},
	{"js:let-array-binding", "js.Parse", "[", "a", "]", "let ", "=b"},
	{"js:let-object-binding", "js.Parse", "{a:", "b", "}", "let ", "=c"},
	{"js:let-array-binding-open", "js.Parse", "[", "", "", "let ", ""},
	{"js:param-array-binding", "js.Parse", "[", "a", "]", "function f(", "){}"},
	{"js:param-object-binding", "js.Parse", "{a:", "b", "}", "function f(", "){}"},
	{"js:method-param-binding", "js.Parse", "[", "a", "]", "x={m(", "){}}"},
	{"js:arrow-async-param-binding", "js.Parse", "[", "a", "]", "async(", ")=>1"},
	{"js:for-binding", "js.Parse", "[", "a", "]", "for(const ", " of b);"},
	{"js:param-array-open", "js.Parse", "[", "", "", "function f(", ""},
	{"js:catch-binding", "js.Parse", "[", "a", "]", "try{}catch(", "){}"},
	{"js:catch-binding-open", "js.Parse", "[", "", "", "try{}catch(", ""},
	{"js:arrow-param-binding", "js.Parse", "[", "a", "]", "(", ")=>1"},
	{"js:binding-default", "js.Parse", "[a=", "1", "]", "let ", "=b"},
	{"js:binary-add", "js.Parse", "a+", "a", "", "", ""},
	{"js:binary-exp", "js.Parse", "a**", "a", "", "", ""},
	{"js:binary-nullish", "js.Parse", "a??", "a", "", "", ""},
	{"js:member", "js.Parse", "a", "", ".a", "", ""},
	{"js:call", "js.Parse", "a", "", "()", "", ""},
	{"js:index", "js.Parse", "a[", "b", "]", "", ""},
	{"js:comma", "js.Parse", "a,", "a", "", "", ""},
	{"js:optchain", "js.Parse", "a", "", "?.a", "", ""},
	{"js:spread-call", "js.Parse", "f(...", "a", ")", "", ""},
	{"js:while", "js.Parse", "while(a)", "b", "", "", ""},
	{"js:for", "js.Parse", "for(;;)", "b", "", "", ""},
	{"js:do", "js.Parse", "do ", "a", ";while(b)", "", ""},
	{"js:switch", "js.Parse", "switch(a){case 1:", "", "}", "", ""},
	{"js:try", "js.Parse", "try{", "", "}finally{}", "", ""},
	{"js:with", "js.Parse", "with(a)", "b", "", "", ""},
	{"js:yield", "js.Parse", "function*g(){yield ", "a", "}", "", ""},
	{"js:group-arrow-head", "js.Parse", "(a,(", "b", "))", "", ""},
	{"js:async-call", "js.Parse", "async(", "1", ")", "", ""},
	{"js:async-call-assigned", "js.Parse", "x=async(", "1", ")", "", ""},
	{"js:async-call-second-arg", "js.Parse", "async(a,async(", "1", "))", "", ""},
	{"js:async-arrow", "js.Parse", "async a=>", "b", "", "", ""},
	{"js:async-paren-arrow", "js.Parse", "async(a)=>", "b", "", "", ""},
	{"js:call-args", "js.Parse", "f(", "a", ")", "", ""},
	{"js:new-args", "js.Parse", "new a(", "b", ")", "", ""},
	{"js:optional-call", "js.Parse", "a?.(", "b", ")", "", ""},
	{"js:import-call", "js.Parse", "import(", "a", ")", "", ""},
	{"js:tagged-template", "js.Parse", "a`${", "b", "}`", "", ""},
	{"js:computed-key", "js.Parse", "x={[", "a", "]:1}", "", ""},
	{"js:object-method", "js.Parse", "x={m(){", "", "}}", "", ""},
	{"js:object-getter", "js.Parse", "x={get a(){return ", "1", "}}", "", ""},
	{"js:class-method", "js.Parse", "class A{m(){", "", "}}", "", ""},
	{"js:class-static-block", "js.Parse", "class A{static{", "", "}}", "", ""},
	{"js:class-extends", "js.Parse", "x=class extends ", "B", "{}", "", ""},
	{"js:class-computed", "js.Parse", "x=class{[", "a", "](){}}", "", ""},
	{"js:arrow-default", "js.Parse", "(a=", "b", ")=>1", "", ""},
	{"js:arrow-paren-body", "js.Parse", "a=>(", "b", ")", "", ""},
	{"js:arrow-block-body", "js.Parse", "a=>{", "", "}", "", ""},
	{"js:yield-star", "js.Parse", "function*g(){yield*", "a", "}", "", ""},
	{"js:delete", "js.Parse", "delete ", "a", "", "", ""},
	{"js:void", "js.Parse", "void ", "a", "", "", ""},
	{"js:prefix-incr", "js.Parse", "++", "a", "", "", ""},
	{"js:array-spread", "js.Parse", "[...", "a", "]", "", ""},
	{"js:object-spread", "js.Parse", "x={...", "a", "}", "", ""},
	{"js:object-in-arrow-head", "js.Parse", "({a:", "b", "})", "", ""},
	{"js:array-in-arrow-head", "js.Parse", "([", "a", "])", "", ""},
	{"js:pattern-default-in-arrow-head", "js.Parse", "({a=", "1", "})=>1", "", ""},
	{"js:async-await", "js.Parse", "async function f(){await ", "a", "}", "", ""},
	{"js:template-in-template", "js.Parse", "`a${`b${", "c", "}`}`", "", ""},
	{"js:for-of-nested", "js.Parse", "for(a of b)", "c", "", "", ""},
	{"js:for-await", "js.Parse", "async function f(){for await(a of b)", "c", "}", "", ""},
	{"js:export-default-arrow", "js.Parse", "export default a=>", "b", "", "", ""},
	{"js:in-operator", "js.Parse", "a in ", "b", "", "", ""},
	{"js:exp-unary-paren", "js.Parse", "(-", "a", ")**2", "", ""},
	{"js:lexer-template", "js.lexer.plain", "`${", "a", "}`", "", ""},
	{"js:lexer-braces", "js.lexer.plain", "{(", "a", ")}", "", ""},
	{"css:block", "css.parser.stylesheet", "a{", "b:c", "}", "", ""},
	{"css:block-open", "css.parser.stylesheet", "a{", "", "", "", ""},
	{"css:paren", "css.parser.stylesheet", "a{b:(", "c", ")}", "", ""},
	{"css:bracket", "css.parser.stylesheet", "a[", "b", "]{}", "", ""},
	{"css:func", "css.parser.inline", "a:f(", "1", ")", "", ""},
	{"css:media", "css.parser.stylesheet", "@media x{", "a{b:c}", "}", "", ""},
	{"css:unknown-at", "css.parser.stylesheet", "@x{", "", "}", "", ""},
	{"css:lexer", "css.lexer", "(", "x", ")", "", ""},
	{"json:array", "json.parser", "[", "1", "]", "", ""},
	{"json:object", "json.parser", `{"a":`, "1", "}", "", ""},
	{"json:array-open", "json.parser", "[", "", "", "", ""},
	{"html:tags", "html.lexer", "<div>", "x", "</div>", "", ""},
	{"html:svg", "html.lexer", "<svg>", "x", "</svg>", "", ""},
	{"html:tmpl", "html.template.go", "<a {{", "x", "}}>", "", ""},
	{"xml:tags", "xml.lexer", "<a>", "x", "</a>", "", ""},
	{"xml:doctype", "xml.lexer", "<!DOCTYPE a [", "x", "]>", "", ""},
}

var deepDepths = []int{1001, 10000, 100000, 1000000}

func stackBytes() uint64 {
	s := []metrics.Sample{{Name: "/memory/classes/heap/stacks:bytes"}}
	metrics.Read(s)
	if s[0].Value.Kind() == metrics.KindUint64 {
		return s[0].Value.Uint64()
	}
	return 0
}

func deepInput(c deepConstruct, depth int) []byte {
	var b bytes.Buffer
	b.Grow(depth*(len(c.open)+len(c.close)) + len(c.middle))
	b.WriteString(c.prefix)
	for i := 0; i < depth; i++ {
		b.WriteString(c.open)
	}
	b.WriteString(c.middle)
	for i := 0; i < depth; i++ {
		b.WriteString(c.close)
	}
	b.WriteString(c.suffix)
	return b.Bytes()
}

func runDeepOnce(t *fw.T, c deepConstruct, depth int, o js.Options) (stack uint64) {
	data := deepInput(c, depth)
	in := parse.NewInputBytes(data)
	if c.entry == "js.Parse" {
		ast, err := js.Parse(in, o)
		stack = stackBytes()
		if err == nil && ast != nil {
			t.Count("deep.accepted", 1)
			if depth <= 10000 {
				// String() of a tree is quadratic in its depth; deeper accepted trees are only walked
				exerciseAST(t, ast, t.Rng)
			} else {
				v := &countVisitor{}
				js.Walk(v, ast) // printing such a tree is quadratic or worse; walking it is linear
				t.Count("deep.accepted.walk_only", 1)
			}
			if s2 := stackBytes(); s2 > stack {
				stack = s2
			}
		} else {
			t.Count("deep.rejected", 1)
		}
		return stack
	}
	for _, ep := range entryPoints {
		if ep.name == c.entry {
			step := ep.mk(in, t.Rng)
			// drive to the end without the per-slice monitor cost: the call bound still applies
			L := in.Len()
			calls, sticky := 0, 0
			for ; calls < 4*L+64; calls++ {
				before := in.Offset()
				isErr, _, _, _ := step()
				if isErr && in.Offset() == before {
					sticky++
					if sticky >= 3 {
						break
					}
				} else {
					sticky = 0
				}
			}
			stack = stackBytes()
			if sticky < 3 {
				t.Failf("%s at depth %d: no terminal report within %d calls", c.name, depth, calls)
			}
			t.Count("deep.stream_calls", calls)
			return stack
		}
	}
	t.Failf("unknown entry %s", c.entry)
	return 0
}

func c01Deep(t *fw.T) {
	nd := len(deepDepths)
	c := deepConstructs[(t.Index/nd)%len(deepConstructs)]
	depth := deepDepths[t.Index%nd]
	o := jsOptions[(t.Index/(nd*len(deepConstructs)))%4]
	t.Desc(map[string]any{"construct": c.name, "prefix": c.prefix, "open": c.open, "middle": c.middle, "close": c.close, "suffix": c.suffix, "depth": depth, "opts": optName(o)})
	stack := runDeepOnce(t, c, depth, o)
	t.Count("deep.cases", 1)
	t.Seen("deep.construct", c.name)
	if t.Failed() {
		return
	}
	// M-stack: a construct whose recursion is not depth-limited uses stack proportional to the depth. The
	// verdict is an observed death: escalate the depth until the runtime kills the process (the driver
	// attributes the death to this case and confirms it in a fresh child).
	if stack > 64<<20 {
		t.Count("deep.escalated", 1)
		for _, d := range []int{4 * depth, 16 * depth} {
			s := runDeepOnce(t, c, d, o)
			if s > 900<<20 {
				break
			}
		}
		t.Failf("%s: stack high-water %d MiB at nesting depth %d grows with the depth (no nesting limit): fatal stack exhaustion is a matter of input size", c.name, stack>>20, depth)
		return
	}
	t.Nontrivial([]byte(fmt.Sprint(c.name, depth, optName(o))))
	if depth == 1000000 && t.Index < 400 {
		t.Sample(map[string]any{"construct": c.name, "depth": depth, "stack_bytes": stack})
	}
}

// --- fixed regression probes ---

var c01Probes = []struct{ name, entry, data string }{
	{"js-hash-at-eof", "js.lexer", "#"},
	{"js-hash-then-space", "js.lexer", "# a"},
	{"js-tilde-eq", "js.lexer", "~="},
	{"js-question-eq", "js.lexer", "?=x"},
	{"js-tilde-eq-parse", "js.Parse", "a~=b"},
	{"js-hash-parse", "js.Parse", "a.#"},
	{"js-unary-json", "js.Parse", "!a"},
	{"js-unary-json-minus", "js.Parse", "-a"},
	{"js-unary-json-num", "js.Parse", "-1"},
	{"js-truncated-utf8", "js.lexer", "a\xe2"},
	{"css-ie-hack-eof", "css.parser.stylesheet", "a{*"},
	{"html-svg-nul", "html.lexer", "<svg>\x00</svg>x"},
	{"xml-nul", "xml.lexer", "<a b=\x00>"},
	{"json-bad-key", "json.parser", "{[]}"},
}

// counters of the scope tables are 16 bits wide (Var.Uses, NumForDecls, NumFuncArgs, NumArgUses): inputs that make
// them wrap around
func init() {
	add := func(name, data string) {
		c01Probes = append(c01Probes, struct{ name, entry, data string }{name, "js.Parse", data})
	}
	many := func(n int, f func(i int) string) string {
		var sb strings.Builder
		for i := 0; i < n; i++ {
			sb.WriteString(f(i))
		}
		return sb.String()
	}
	use := func(n int) string { return strings.Repeat("a;", n) }
	add("js-uses-wrap-then-bare-arrow", "var a;"+use(65534)+"a=>1")
	add("js-uses-wrap-then-bare-arrow-2", "var a;"+use(65535)+"a=>1;a=>a")
	add("js-uses-wrap-undeclared-then-arrow", use(65535)+"a=>1")
	add("js-uses-wrap-undeclared-then-arrow-2", use(65536)+"a=>a;(a)=>a;(a);")
	add("js-uses-wrap-then-declare", use(65536)+"var a;"+use(3)+"let b;{"+use(65537)+"let a}")
	add("js-uses-wrap-in-parenthesised", "var a;("+strings.Repeat("a,", 65540)+"a);("+strings.Repeat("a,", 65540)+"a)=>1")
	add("js-65540-parameters", "function f("+many(65540, func(i int) string { return fmt.Sprintf("p%d,", i) })+"q=p1){var p2;return q}")
	add("js-65540-for-head-declarations", "for(var "+many(65540, func(i int) string { return fmt.Sprintf("v%d,", i) })+"w=0;w<v1;w++){let v2=w}")
	add("js-65540-undeclared-in-defaults", "function f(x=["+many(65540, func(i int) string { return fmt.Sprintf("u%d,", i) })+"]){var u1;u2;let u3}")
}

func c01Probe(t *fw.T) {
	p := c01Probes[t.Index%len(c01Probes)]
	t.Key("probe:" + p.name)
	t.Desc(&c01Case{Entry: p.entry, Ctor: "string+tight", Data: []byte(p.data)})
	ctors, options := []string{"string", "tight", "spare"}, jsOptions
	if len(p.data) > 100000 {
		// the 16-bit counter probes: scope handling is quadratic in the number of distinct names
		ctors, options = []string{"tight"}, []js.Options{{}, {WhileToFor: true, Inline: true}}
	}
	for _, ctor := range ctors {
		if p.entry == "js.Parse" {
			for _, o := range options {
				in, _ := mkInput(t.Rng, []byte(p.data), ctor)
				ast, err := js.Parse(in, o)
				if err == nil && ast != nil {
					exerciseAST(t, ast, t.Rng)
				}
			}
			continue
		}
		for _, ep := range entryPoints {
			if ep.name == p.entry {
				in, backing := mkInput(t.Rng, []byte(p.data), ctor)
				driveToEnd(t, ep.name, in, ep.mk(in, newRand(1)), backing, []byte(p.data))
			}
		}
	}
	t.Count("probes", 1)
	t.Nontrivial([]byte(p.name))
}

func init() {
	nDeep := len(deepConstructs) * len(deepDepths)
	fw.Register(&fw.Prop{
		ID: "C01",
		Rule: "streams: (a) hostile byte strings (mutated/spliced/truncated corpus entries, dictionary soup, random bytes, truncated UTF-8 tails, NUL, long runs; 5% up to 64 KiB) x 14 streaming entry points " +
			"(css lexer, css parser stylesheet/inline, html lexer plain + 6 template dialects, xml lexer, json parser, js lexer with and without RegExp() calls) x 4 Input constructors, each driven until the terminal report repeats 10 times; " +
			"(b) js.Parse x 4 Options with String/JSString/JS(Indenter)/Walk/JSON on every accepted tree; (c) every recursive construct at nesting depths 1001..10^6. " +
			"non-trivial = input >= 3 bytes and >= 13 calls (a), accepted tree (b), construct x depth completed (c); distinct by entry+constructor+bytes",
		Assume: []string{"terminal report = an Error token/grammar returned without advancing the cursor and with a non-nil Err(), repeated identically on every further call",
			"call bound 4*len+64", "a hang is decided by the CPU-time rule of DESIGN §2 (90 s in a batch, 600 s alone)"},
		Required: []string{"calls", "js.parse.accepted", "js.parse.rejected", "ast.exercised", "deep.cases", "hook.newerror", "probes"},
		Streams: []fw.Stream{
			{Name: "probes", Quick: len(c01Probes), Thorough: len(c01Probes), Run: c01Probe},
			{Name: "stream", Quick: 400000, Thorough: 72000000, Run: c01Stream},
			{Name: "jsparse", Quick: 200000, Thorough: 36000000, Run: c01JSParse},
			{Name: "deep", Quick: nDeep, Thorough: nDeep * 4, Run: c01Deep},
		},
	})
}
