package props

import (
	"math/rand"
	"strconv"
	"strings"
	"unicode/utf8"

	"vh/gen"
)

// ---------------------------------------------------------------------------------------------
// Texts for the Position clause
// ---------------------------------------------------------------------------------------------

var (
	c15Plain = []rune("abcdefgxyzABCXYZ0123456789     .,:;^-_()[]{}<>/*'\"@#·…")
	// multi-byte graphic characters of 2, 3 and 4 bytes, a combining mark, wide characters
	c15Multi = []rune{0xe9, 0xce, 0xdf, 0x3b1, 0x7ff, 0x800, 0x4e2d, 0x20ac, 0x2030, 0x301, 0xfffd, 0x10000, 0x1f600, 0x1d4b3, 0x2f800}
	// not graphic: controls, NEL, soft hyphen and other format characters, private use, noncharacters, unassigned
	c15NonPrint = []rune{0x01, 0x08, '\t', 0x0b, 0x0c, 0x1b, 0x7f, 0x80, 0x85, 0x9f, 0xad, 0x200b, 0x200d, 0xfeff, 0xe000, 0xffff, 0x378, 0xe0001, 0x10ffff}
	// space separators other than U+0020: graphic but not "printable" in Go's sense
	c15Spaces = []rune{0xa0, 0x1680, 0x2003, 0x3000}
	c15Breaks = []string{"\n", "\r", "\r\n", "\u2028", "\u2029"}
)

// c15LineLen draws a line length (code points) around the elision regimes of positionContext:
// no elision up to 60, front regime col <= 40, rear regime col >= len-23, both in between.
func c15LineLen(r *rand.Rand) int {
	switch r.Intn(12) {
	case 0:
		return 0
	case 1:
		return 1 + r.Intn(5)
	case 2:
		return 6 + r.Intn(34)
	case 3:
		return 40 + r.Intn(17)
	case 4, 5:
		return 57 + r.Intn(9) // 57..65: around the limit
	case 6, 7:
		return 61 + r.Intn(30) // regimes overlap or just separate
	case 8, 9:
		return 85 + r.Intn(40)
	default:
		return 100 + r.Intn(101)
	}
}

// c15Line appends n code points, none of them a line break. style 0: ASCII only, 1: mixed, 2: mostly special.
func c15Line(r *rand.Rand, b []byte, n, style int) []byte {
	for i := 0; i < n; i++ {
		var ru rune
		special := style == 2 && r.Intn(4) != 0 || style == 1 && r.Intn(5) == 0
		switch {
		case !special:
			ru = gen.Pick(r, c15Plain)
		case r.Intn(40) == 0:
			ru = 0 // NUL inside the text
		default:
			switch r.Intn(7) {
			case 0, 1, 2:
				ru = gen.Pick(r, c15Multi)
			case 3, 4:
				ru = gen.Pick(r, c15NonPrint)
			case 5:
				ru = gen.Pick(r, c15Spaces)
			default:
				ru = gen.Rune(r)
				for c15IsBreak(ru) {
					ru = gen.Rune(r)
				}
			}
		}
		b = utf8.AppendRune(b, ru)
	}
	return b
}

// c15Text builds a text of 1..maxLines lines with mixed break kinds. It returns the number of lines that are
// longer than the elision limit.
func c15Text(r *rand.Rand, maxLines, maxRunes int) (text []byte, longLines int) {
	nLines := 1 + r.Intn(maxLines)
	style := r.Intn(3)
	total := 0
	for i := 0; i < nLines; i++ {
		n := c15LineLen(r)
		if total+n > maxRunes {
			n = r.Intn(6)
		}
		total += n
		if n > 60 {
			longLines++
		}
		st := style
		if r.Intn(4) == 0 {
			st = r.Intn(3)
		}
		text = c15Line(r, text, n, st)
		if i < nLines-1 || r.Intn(2) == 0 {
			text = append(text, gen.Pick(r, c15Breaks)...)
		}
	}
	return
}

// c15ManyLines builds a text whose last lines have numbers around `around` (10^4, 10^5, 10^6): mostly empty or
// tiny lines, one or two long lines near the end. It returns the byte offset where the interesting tail begins.
func c15ManyLines(r *rand.Rand, around int) (text []byte, tailStart int) {
	nLines := around - 3 + r.Intn(20)
	text = make([]byte, 0, 3*nLines+2048)
	for i := 0; i < nLines; i++ {
		if i == nLines-40 {
			tailStart = len(text)
		}
		if i >= nLines-40 {
			switch r.Intn(4) {
			case 0:
				text = c15Line(r, text, c15LineLen(r), r.Intn(3))
			case 1:
				text = c15Line(r, text, r.Intn(8), 1)
			}
		} else if r.Intn(8) == 0 {
			text = append(text, byte('a'+r.Intn(26)))
		}
		if i < nLines-1 {
			brk := gen.Pick(r, c15Breaks)
			if len(text) > 0 && text[len(text)-1] == '\r' && brk[0] == '\n' {
				brk = "\u2028" // "\r" + "\n" would be ONE break
			}
			text = append(text, brk...)
		}
	}
	return
}

// ---------------------------------------------------------------------------------------------
// A small generator of valid JavaScript programs as a token list with known token boundaries
// ---------------------------------------------------------------------------------------------
//
// Every emitted element is exactly one lexical token of the language (punctuator, keyword, identifier, numeric
// literal, string literal, regular expression literal, or a template piece `..${ / }..${ / }..`); the speller
// puts white space, comments and line terminators between tokens:
//   - tokens other than the punctuators ( ) [ ] { } ; , : are always separated by at least one white-space
//     character (so no two tokens can merge and no "//", "<!--" or "-->" can form);
//   - line terminators (all five kinds), line comments and multi-line comments only follow ; { } , ( [
//     (never a place where automatic semicolon insertion or a restricted production could change the meaning);
//   - all statements are terminated explicitly.

type c15JSGen struct {
	r      *rand.Rand
	toks   []string
	budget int
	// noBrace: the next primary must not be an object literal (start of an arrow function's expression body)
	noBrace bool
	ndecl   int
}

// decl returns a fresh name for a declaration (redeclaring a let/const/class name is an early error).
func (g *c15JSGen) decl() string {
	g.ndecl++
	return gen.Pick(g.r, []string{"d", "$", "_v", "ünï", "名", "𝒳"}) + strconv.Itoa(g.ndecl)
}

func (g *c15JSGen) e(ts ...string) {
	g.toks = append(g.toks, ts...)
	g.budget -= len(ts)
	g.noBrace = false
}

var c15Idents = []string{"a", "b", "c", "x", "y", "foo", "bar", "$el", "_tmp", "i", "ünï", "名前", "𝒳", "v1", "use", "u2", "\\u0061bc", "of", "get", "async"}

func (g *c15JSGen) id() string {
	// the contextual keywords at the end of the pool are valid identifiers but make statement starts ambiguous
	return c15Idents[g.r.Intn(len(c15Idents)-3)]
}

func (g *c15JSGen) number() string {
	r := g.r
	switch r.Intn(9) {
	case 0:
		return "0"
	case 1:
		return strconv.Itoa(r.Intn(100000))
	case 2:
		return "0x" + strconv.FormatInt(int64(r.Intn(1<<20)), 16)
	case 3:
		return strconv.Itoa(r.Intn(100)) + "." + strconv.Itoa(r.Intn(1000))
	case 4:
		return "." + strconv.Itoa(r.Intn(100))
	case 5:
		return strconv.Itoa(1+r.Intn(9)) + "e" + gen.Pick(r, []string{"", "+", "-"}) + strconv.Itoa(r.Intn(30))
	case 6:
		return strconv.Itoa(r.Intn(1000)) + "n"
	case 7:
		return "0b1" + strconv.FormatInt(int64(r.Intn(64)), 2)
	default:
		return "1_000"
	}
}

var c15StrPieces = []string{"a", "b", "xyz", " ", "é", "中", "😀", "ß", "\\n", "\\\\", "\\t", "\\u00e9", "\\x41", "\\u{1F600}", "\\0", "//", "/*", "*/", "@", "${", "`", "<!--",
	"\\\n", "\\\r\n", "\\\r", "\\\u2028", "\\\u2029", "\u2028", "\u2029"}

func (g *c15JSGen) str() string {
	q := gen.Pick(g.r, []string{"'", "\""})
	var sb strings.Builder
	sb.WriteString(q)
	for n := g.r.Intn(6); n > 0; n-- {
		switch g.r.Intn(10) {
		case 0:
			sb.WriteString("\\" + q)
		case 1:
			if q == "'" {
				sb.WriteString("\"")
			} else {
				sb.WriteString("'")
			}
		default:
			sb.WriteString(gen.Pick(g.r, c15StrPieces))
		}
	}
	sb.WriteString(q)
	return sb.String()
}

var c15TplPieces = []string{"a", "bc", " ", "é", "中", "😀", "\n", "\r\n", "\r", "\u2028", "\u2029", "\\`", "$", "{", "}", "\\${", "'", "\"", "//", "/*", "@", "\\n", "\\u00e9"}

func (g *c15JSGen) tplChars() string {
	var sb strings.Builder
	last := ""
	for n := g.r.Intn(5); n > 0; n-- {
		p := gen.Pick(g.r, c15TplPieces)
		if last == "$" && p == "{" { // would open a substitution
			continue
		}
		sb.WriteString(p)
		last = p
	}
	return sb.String()
}

func (g *c15JSGen) template(d int) {
	n := 0
	if d > 0 && g.budget > 0 {
		n = g.r.Intn(3)
	}
	if n == 0 {
		g.e("`" + g.tplChars() + "`")
		return
	}
	head := "`" + g.tplChars()
	for i := 0; i < n; i++ {
		g.e(head + "${")
		g.expr(d - 1)
		head = "}" + g.tplChars()
	}
	g.e(head + "`")
}

var c15RegexPieces = []string{"a", "b+", "c*", "\\d+", "\\/", "[/]", "[^\\]a-z]", "(?:x|y)", ".", "é", "\\u00e9", "x{1,3}", "^", "$", "(?<n>z)", "\\\\", "'", "\"", "`", "@"}

func (g *c15JSGen) regex() string {
	s := "/" + gen.Pick(g.r, []string{"a", "\\d", "[/]", "(?:x)", "é", "="})
	for n := g.r.Intn(4); n > 0; n-- {
		s += gen.Pick(g.r, c15RegexPieces)
	}
	return s + "/" + gen.Pick(g.r, []string{"", "", "g", "gi", "u", "dgimsuy"})
}

func (g *c15JSGen) args(d int) {
	g.e("(")
	n := g.r.Intn(3)
	for i := 0; i < n; i++ {
		if i > 0 {
			g.e(",")
		}
		if g.r.Intn(8) == 0 {
			g.e("...")
		}
		g.expr(d - 1)
	}
	g.e(")")
}

func (g *c15JSGen) params() {
	g.e("(")
	n := g.r.Intn(3)
	for i := 0; i < n; i++ {
		if i > 0 {
			g.e(",")
		}
		switch g.r.Intn(8) {
		case 0:
			if i == n-1 {
				g.e("...", "rest")
				continue
			}
			fallthrough
		case 1:
			g.e("p"+strconv.Itoa(i), "=", g.number())
		case 2:
			g.e("{", "k"+strconv.Itoa(i), ",", "l"+strconv.Itoa(i), ":", "m"+strconv.Itoa(i), "}")
		case 3:
			g.e("[", "q"+strconv.Itoa(i), ",", ",", "r"+strconv.Itoa(i), "]")
		default:
			g.e("p" + strconv.Itoa(i))
		}
	}
	g.e(")")
}

func (g *c15JSGen) funcBody(d int, kind string) {
	g.e("{")
	if d > 0 {
		for n := g.r.Intn(3); n > 0; n-- {
			g.stmt(d-1, kind, false)
		}
	}
	if g.r.Intn(2) == 0 {
		g.e("return")
		if g.r.Intn(4) != 0 {
			g.expr(d - 1)
		}
		g.e(";")
	}
	g.e("}")
}

// primary emits a primary / member / call expression.
func (g *c15JSGen) primary(d int) {
	r := g.r
	c := r.Intn(20)
	if d <= 0 || g.budget <= 0 {
		c = r.Intn(8)
	}
	if g.noBrace && (c == 11 || c == 12) { // "function" at the start of an arrow body is fine, but keep it simple
		c = 0
	}
	switch c {
	case 0, 1, 2:
		g.e(g.id())
	case 3, 4:
		g.e(g.number())
	case 5:
		g.e(g.str())
	case 6:
		g.e(gen.Pick(r, []string{"true", "false", "null", "this", "undefined"}))
	case 7:
		g.e(g.regex())
	case 8:
		g.template(d)
	case 9:
		g.e("(")
		g.expr(d - 1)
		if r.Intn(4) == 0 {
			g.e(",")
			g.expr(d - 1)
		}
		g.e(")")
	case 10: // array literal
		g.e("[")
		for i, n := 0, r.Intn(4); i < n; i++ {
			if i > 0 {
				g.e(",")
			}
			switch r.Intn(8) {
			case 0: // hole
			case 1:
				g.e("...", g.id())
			default:
				g.expr(d - 1)
			}
		}
		g.e("]")
	case 11: // object literal
		g.e("{")
		for i, n := 0, r.Intn(4); i < n; i++ {
			if i > 0 {
				g.e(",")
			}
			switch r.Intn(8) {
			case 0:
				g.e(g.id())
			case 1:
				g.e(g.str(), ":")
				g.expr(d - 1)
			case 2:
				g.e("[")
				g.expr(d - 1)
				g.e("]", ":")
				g.expr(d - 1)
			case 3:
				g.e("...", g.id())
			case 4:
				g.e(gen.Pick(r, []string{"m", "get", "of", "async"}))
				g.params()
				g.funcBody(d-1, "")
			case 5:
				g.e(g.number(), ":")
				g.expr(d - 1)
			default:
				g.e(gen.Pick(r, c15Idents), ":")
				g.expr(d - 1)
			}
		}
		g.e("}")
	case 12: // function expression
		switch r.Intn(3) {
		case 0:
			g.e("function")
			if r.Intn(2) == 0 {
				g.e(g.id())
			}
			g.params()
			g.funcBody(d-1, "")
		case 1:
			g.e("async", "function")
			g.params()
			g.funcBody(d-1, "async")
		default:
			g.e("function", "*")
			g.params()
			g.funcBody(d-1, "gen")
		}
	case 13:
		g.e("new", g.id())
		g.args(d)
	case 14: // tagged template
		g.e(g.id())
		g.template(d)
	default: // member / call chain
		g.e(g.id())
		for n := 1 + r.Intn(3); n > 0; n-- {
			switch r.Intn(5) {
			case 0:
				g.e(".", gen.Pick(r, c15Idents))
			case 1:
				g.e("?.", g.id())
			case 2:
				g.e("[")
				g.expr(d - 1)
				g.e("]")
			case 3:
				g.args(d)
			default:
				g.e(".", gen.Pick(r, []string{"length", "x", "class", "if", "ünï"}))
			}
		}
	}
}

var (
	c15BinOps = []string{"+", "-", "*", "/", "%", "**", "==", "!=", "===", "!==", "<", ">", "<=", ">=", "&&", "||", "&", "|", "^", "<<", ">>", ">>>", "instanceof"}
	c15Unary  = []string{"!", "-", "+", "~", "typeof", "void", "++", "--"}
	c15Assign = []string{"=", "=", "+=", "-=", "*=", "/=", "%=", "**=", "<<=", ">>=", ">>>=", "&=", "|=", "^=", "&&=", "||=", "??="}
)

// operand: a primary, optionally under a unary operator (never when the next operator is "**").
func (g *c15JSGen) operand(d int, unaryOK bool, kind string) {
	if unaryOK && g.r.Intn(6) == 0 {
		op := gen.Pick(g.r, c15Unary)
		if kind == "async" && g.r.Intn(2) == 0 {
			op = "await"
		}
		g.e(op)
		if op == "++" || op == "--" {
			g.e(g.id())
			return
		}
	}
	g.primary(d)
}

// binary: operand (op operand)*; a chain either uses only "??" or never uses it.
func (g *c15JSGen) binary(d int, kind string) {
	n := 0
	if d > 0 && g.budget > 0 {
		n = g.r.Intn(4)
	}
	coalesce := g.r.Intn(10) == 0
	ops := make([]string, n)
	for i := range ops {
		if coalesce {
			ops[i] = "??"
		} else {
			ops[i] = gen.Pick(g.r, c15BinOps)
		}
	}
	for i := 0; i <= n; i++ {
		g.operand(d-1, i == n || ops[i] != "**", kind)
		if i < n {
			g.e(ops[i])
		}
	}
}

// expr emits an AssignmentExpression.
func (g *c15JSGen) expr(d int) { g.exprK(d, "") }

func (g *c15JSGen) exprK(d int, kind string) {
	r := g.r
	c := r.Intn(12)
	if d <= 0 || g.budget <= 0 {
		c = 11
	}
	switch c {
	case 0: // conditional
		g.binary(d-1, kind)
		g.e("?")
		g.exprK(d-1, kind)
		g.e(":")
		g.exprK(d-1, kind)
	case 1: // assignment
		g.e(g.id())
		if r.Intn(3) == 0 {
			g.e(".", g.id())
		}
		g.e(gen.Pick(r, c15Assign))
		g.exprK(d-1, kind)
	case 2: // arrow function
		if r.Intn(3) == 0 {
			g.e(g.id())
		} else {
			g.params()
		}
		g.e("=>")
		if r.Intn(3) == 0 {
			g.funcBody(d-1, "")
		} else if r.Intn(6) == 0 {
			g.e("(", "{", "}", ")")
		} else {
			g.noBrace = true // an expression body must not start with "{"
			g.binary(d-1, "")
			g.noBrace = false
		}
	case 3:
		if kind == "gen" {
			g.e("yield")
			g.exprK(d-1, kind)
			return
		}
		fallthrough
	default:
		g.binary(d, kind)
	}
}

func (g *c15JSGen) block(d int, kind string, inLoop bool) {
	g.e("{")
	if d > 0 {
		for n := g.r.Intn(3); n > 0; n-- {
			g.stmt(d-1, kind, inLoop)
		}
	}
	if inLoop && g.r.Intn(4) == 0 {
		g.e(gen.Pick(g.r, []string{"break", "continue"}), ";")
	}
	g.e("}")
}

// stmt emits one statement. kind: "" (module level or plain function), "async", "gen"; only used for await / yield.
func (g *c15JSGen) stmt(d int, kind string, inLoop bool) {
	r := g.r
	c := r.Intn(22)
	if d <= 0 || g.budget <= 0 {
		c = r.Intn(6)
	}
	switch c {
	case 0, 1:
		g.e(gen.Pick(r, []string{"var", "let", "const"}), g.decl(), "=")
		g.exprK(d, kind)
		if r.Intn(4) == 0 {
			g.e(",", g.decl(), "=")
			g.exprK(d-1, kind)
		}
		g.e(";")
	case 2: // assignment statement
		g.e(g.id(), gen.Pick(r, c15Assign))
		g.exprK(d, kind)
		g.e(";")
	case 3: // call statement
		g.e(g.id(), ".", g.id())
		g.args(d)
		g.e(";")
	case 4:
		g.e("(")
		g.exprK(d, kind)
		g.e(")", ";")
	case 5:
		switch r.Intn(3) {
		case 0:
			g.e(";")
		case 1:
			g.e(g.id(), gen.Pick(r, []string{"++", "--"}), ";")
		default:
			g.e("void")
			g.primary(d)
			g.e(";")
		}
	case 6, 7:
		g.e("if", "(")
		g.exprK(d-1, kind)
		g.e(")")
		g.block(d, kind, inLoop)
		if r.Intn(2) == 0 {
			g.e("else")
			if r.Intn(3) == 0 {
				g.e("if", "(")
				g.exprK(d-1, kind)
				g.e(")")
			}
			g.block(d, kind, inLoop)
		}
	case 8:
		iv := g.decl()
		g.e("for", "(", gen.Pick(r, []string{"let", "var"}), iv, "=", g.number(), ";")
		g.binary(d-1, kind)
		g.e(";", iv, gen.Pick(r, []string{"++", "--"}), ")")
		g.block(d, kind, true)
	case 9:
		g.e("for", "(", gen.Pick(r, []string{"const", "let", "var"}), g.decl(), gen.Pick(r, []string{"of", "in"}))
		g.primary(d - 1)
		g.e(")")
		g.block(d, kind, true)
	case 10:
		g.e("while", "(")
		g.exprK(d-1, kind)
		g.e(")")
		g.block(d, kind, true)
	case 11:
		g.e("do")
		g.block(d, kind, true)
		g.e("while", "(")
		g.exprK(d-1, kind)
		g.e(")", ";")
	case 12, 13:
		k := gen.Pick(r, []string{"", "", "async", "gen"})
		switch k {
		case "async":
			g.e("async", "function", g.decl())
		case "gen":
			g.e("function", "*", g.decl())
		default:
			g.e("function", g.decl())
		}
		g.params()
		g.funcBody(d, k)
	case 14:
		g.e("class", g.decl())
		if r.Intn(3) == 0 {
			g.e("extends", g.id())
		}
		g.e("{")
		for n, ctor := r.Intn(4), false; n > 0; n-- {
			switch r.Intn(6) {
			case 0:
				g.e("static", "s"+strconv.Itoa(n), "=")
				g.expr(d - 1)
				g.e(";")
			case 1:
				g.e("#priv"+strconv.Itoa(n), "=", g.number(), ";")
			case 2:
				if r.Intn(2) == 0 {
					g.e("get", "v"+strconv.Itoa(n), "(", ")")
				} else {
					g.e("set", "v"+strconv.Itoa(n), "(", "w", ")")
				}
				g.funcBody(d-1, "")
			case 3:
				if ctor {
					continue
				}
				ctor = true
				g.e("constructor")
				g.params()
				g.funcBody(d-1, "")
			default:
				g.e(g.id())
				g.params()
				g.funcBody(d-1, "")
			}
		}
		g.e("}")
	case 15:
		g.e("try")
		g.block(d, kind, inLoop)
		if r.Intn(4) != 0 {
			g.e("catch")
			if r.Intn(3) != 0 {
				g.e("(", "err", ")")
			}
			g.block(d, kind, inLoop)
			if r.Intn(3) == 0 {
				g.e("finally")
				g.block(d, kind, inLoop)
			}
		} else {
			g.e("finally")
			g.block(d, kind, inLoop)
		}
	case 16:
		g.e("switch", "(")
		g.exprK(d-1, kind)
		g.e(")", "{")
		for n := r.Intn(3); n > 0; n-- {
			g.e("case")
			g.binary(d-2, kind)
			g.e(":")
			if d > 0 && r.Intn(2) == 0 {
				g.stmt(d-1, kind, inLoop)
			}
			if r.Intn(2) == 0 {
				g.e("break", ";")
			}
		}
		if r.Intn(2) == 0 {
			g.e("default", ":")
			if d > 0 {
				g.stmt(d-1, kind, inLoop)
			}
		}
		g.e("}")
	case 17:
		g.e("throw")
		g.exprK(d-1, kind)
		g.e(";")
	case 18:
		l := "lbl" + strconv.Itoa(r.Intn(100))
		g.e(l, ":", "for", "(", ";", ";", ")", "{", "break", l, ";", "}")
	case 19:
		g.block(d, kind, inLoop)
	case 20:
		g.e("debugger", ";")
	default:
		g.e(g.id(), "=")
		g.exprK(d, kind)
		g.e(";")
	}
}

func c15JSProgram(r *rand.Rand) []string {
	g := &c15JSGen{r: r, budget: 20 + r.Intn(140)}
	depth := 1 + r.Intn(4)
	for n := 1 + r.Intn(5); n > 0 && g.budget > 0; n-- {
		g.stmt(depth, "", false)
	}
	return g.toks
}

var c15Tight = map[string]bool{"(": true, ")": true, "[": true, "]": true, "{": true, "}": true, ";": true, ",": true, ":": true}
var c15NLAfter = map[string]bool{";": true, "{": true, "}": true, ",": true, "(": true, "[": true}

var c15InlineWS = []string{" ", " ", " ", "\t", "  ", "\u00a0", "\ufeff", " \t "}
var c15InlineComment = []string{"/* c */", "/**/", "/* é 中 */", "/*@*/", "/* // */"}
var c15NLPieces = []string{"\n", "\n", "\r", "\r\n", "\u2028", "\u2029", "\n\n", "// line comment\n", "//@ é\r\n", "//\u2028", "/* multi\nline */", "/*\r\n * 中\r * x\u2029 */", "\n    ", "\r\n\t"}

// c15JSSpell writes the tokens with random separators. starts[i] / ends[i] are the byte offsets of token i.
func c15JSSpell(r *rand.Rand, toks []string) (doc []byte, starts, ends []int) {
	sep := func(prev, next string) {
		nlOK := prev == "" || c15NLAfter[prev]
		need := prev != "" && next != "" && !c15Tight[prev] && !c15Tight[next]
		if !need && r.Intn(2) == 0 {
			return
		}
		ws := func() {
			if nlOK && r.Intn(3) == 0 {
				doc = append(doc, gen.Pick(r, c15NLPieces)...)
				// a piece may end in a comment: finish with white space so that the next token cannot touch it
				doc = append(doc, ' ')
			} else {
				doc = append(doc, gen.Pick(r, c15InlineWS)...)
			}
		}
		ws()
		for r.Intn(5) == 0 {
			doc = append(doc, gen.Pick(r, c15InlineComment)...)
			if r.Intn(3) > 0 { // sometimes the next token directly follows the block comment
				ws()
			}
		}
	}
	prev := ""
	for _, t := range toks {
		sep(prev, t)
		starts = append(starts, len(doc))
		doc = append(doc, t...)
		ends = append(ends, len(doc))
		prev = t
	}
	if r.Intn(2) == 0 {
		sep(prev, "")
	}
	return
}
