package props

import (
	"bufio"
	"bytes"
	"fmt"
	"io"
	"strings"
	"unicode/utf8"

	"github.com/tdewolff/parse/v2"
	"github.com/tdewolff/parse/v2/buffer"

	"vh/fw"
	"vh/gen"
)

// C12 — parse.Input and buffer.Lexer are the documented cursor.
//
// Monitor: every method result is compared online with a reference cursor (data, start, pos,
// readerErr) driven by the same history. The history generator consults the model so that it never
// moves past the terminating 0 (the documented contract).

type cursorAPI interface {
	Err() error
	PeekErr(int) error
	Peek(int) byte
	PeekRune(int) (rune, int)
	Move(int)
	Pos() int
	Rewind(int)
	Lexeme() []byte
	Skip()
	Shift() []byte
	Offset() int
	Bytes() []byte
	Reset()
	Restore()
}

type refCursor struct {
	data       []byte
	start, pos int
	rerr       error
}

func (m *refCursor) peek(i int) byte {
	p := m.pos + i
	if p >= len(m.data) {
		return 0
	}
	return m.data[p]
}
func (m *refCursor) peekErr(i int) error {
	if m.rerr != nil {
		return m.rerr
	}
	if m.pos+i >= len(m.data) {
		return io.EOF
	}
	return nil
}

type c12Case struct {
	Impl   string `json:"impl"`          // input | lexer
	Ctor   string `json:"ctor"`          // string | bytes-tight | bytes-spare | reader | bytesreader | failreader
	Data   fw.B   `json:"data"`          // bytes the reader delivers / the slice holds
	FailAt int    `json:"failAt"`        // for failreader
	Std    string `json:"std,omitempty"` // for stdreader
	Ops    []string
}

func c12GenData(t *fw.T) []byte {
	r := t.Rng
	var b []byte
	switch r.Intn(10) {
	case 0:
		return nil
	case 1:
		b = gen.RawBytes(r, 1)
	case 2, 3:
		b = gen.UTF8(r, gen.SmallLen(r, 24))
	case 4, 5:
		b = gen.UTF8(r, gen.SmallLen(r, 24))
		b = gen.TruncatedTail(r, b)
	case 6:
		b = gen.RawBytes(r, gen.SmallLen(r, 40))
	case 7: // embedded NUL
		b = gen.UTF8(r, 1+r.Intn(10))
		b = append(b, 0)
		b = append(b, gen.UTF8(r, r.Intn(10))...)
	case 8:
		b = gen.UTF8(r, gen.SmallLen(r, 12))
		b = append(b, gen.RawBytes(r, 1+r.Intn(4))...)
	default:
		if r.Intn(20) == 0 {
			b = gen.UTF8(r, 20000+r.Intn(2000)) // ~64 KiB
		} else {
			b = gen.UTF8(r, gen.SmallLen(r, 300))
		}
	}
	return b
}

// c12EOFLike is a reader error that answers errors.Is(err, io.EOF) without being io.EOF.
type c12EOFLike struct{}

func (c12EOFLike) Error() string        { return "connection closed by peer" }
func (c12EOFLike) Is(target error) bool { return target == io.EOF }

func c12Run(t *fw.T) {
	r := t.Rng
	data := c12GenData(t)
	impl := gen.Pick(r, []string{"input", "lexer"})
	ctor := gen.Pick(r, []string{"string", "bytes-tight", "bytes-spare", "reader", "bytesreader", "bytesreader-spare", "failreader", "nilreader", "stdreader"})
	if impl == "lexer" && ctor == "string" {
		ctor = "bytes-tight"
	}
	cs := &c12Case{Impl: impl, Ctor: ctor, Data: data}
	t.Desc(cs)
	c12Exec(t, cs, true)
}

// c12Exec builds the cursor and runs a model-guided history. When gen is true the ops are drawn
// from t.Rng (and recorded); the history is a deterministic function of the case seed.
func c12Exec(t *fw.T, cs *c12Case, _ bool) {
	r := t.Rng
	data := []byte(cs.Data)
	model := &refCursor{data: append([]byte(nil), data...)}

	// caller-visible backing array with canary
	const spare = 8
	var backing, pristine []byte
	var caller []byte
	mk := func(tight bool) []byte {
		if tight {
			backing = make([]byte, len(data))
			copy(backing, data)
			pristine = append([]byte(nil), backing...)
			return backing[:len(data):len(data)]
		}
		backing = make([]byte, len(data)+spare)
		copy(backing, data)
		for i := len(data); i < len(backing); i++ {
			backing[i] = byte(0xA5 + i)
		}
		pristine = append([]byte(nil), backing...)
		if r.Intn(3) == 0 {
			return backing[: len(data) : len(data)+1] // exactly one spare byte: just enough for the terminator
		}
		return backing[:len(data)]
	}
	var c cursorAPI
	newFromBytes := func(b []byte) cursorAPI {
		if cs.Impl == "input" {
			return parse.NewInputBytes(b)
		}
		return buffer.NewLexerBytes(b)
	}
	newFromReader := func(rd io.Reader) cursorAPI {
		if cs.Impl == "input" {
			return parse.NewInput(rd)
		}
		return buffer.NewLexer(rd)
	}
	switch cs.Ctor {
	case "string":
		c = parse.NewInputString(string(data))
	case "bytes-tight":
		caller = mk(true)
		c = newFromBytes(caller)
	case "bytes-spare":
		caller = mk(false)
		c = newFromBytes(caller)
	case "reader":
		sr := &gen.SchedReader{Data: data, Chunks: gen.Schedule(r, len(data), 1+r.Intn(9)), ErrWithLast: r.Intn(2) == 0}
		c = newFromReader(sr)
	case "bytesreader":
		caller = mk(true)
		c = newFromReader(&gen.BytesReader{B: caller})
	case "bytesreader-spare":
		caller = mk(false)
		c = newFromReader(&gen.BytesReader{B: caller})
	case "failreader":
		k := 0
		if len(data) > 0 {
			k = r.Intn(len(data) + 1)
		}
		cs.FailAt = k
		// the reader's own error, whatever it is: also errors that wrap or claim to be io.EOF without being it
		rerr := gen.Pick(r, []error{gen.ErrInjected, gen.ErrInjected, fmt.Errorf("read /dev/fd/3: %w", io.EOF), c12EOFLike{}, io.ErrUnexpectedEOF})
		sr := &gen.SchedReader{Data: data[:k], Chunks: gen.Schedule(r, k, 1+r.Intn(9)), Err: rerr, ErrWithLast: r.Intn(2) == 0}
		c = newFromReader(sr)
		model.data = nil
		model.rerr = rerr
	case "nilreader":
		c = newFromReader(nil)
		model.data = nil
	case "stdreader":
		// a standard-library reader of which the caller has already consumed a prefix: the cursor is over what the
		// reader still delivers, whatever Size()/Len()/Bytes() shortcuts the reader type offers
		pre := []byte(gen.Pick(r, []string{"", "x", "prefix--", "\x00\x00\x00"}))
		all := append(append([]byte(nil), pre...), data...)
		kind := gen.Pick(r, []string{"bytes.Reader", "strings.Reader", "io.SectionReader", "bytes.Buffer", "bufio.Reader", "bytes.Reader+ReadByte"})
		cs.Std = fmt.Sprintf("%s after %d bytes were read", kind, len(pre))
		var rd io.Reader
		switch kind {
		case "bytes.Reader", "bytes.Reader+ReadByte":
			rd = bytes.NewReader(all)
		case "strings.Reader":
			rd = strings.NewReader(string(all))
		case "io.SectionReader":
			rd = io.NewSectionReader(bytes.NewReader(all), 0, int64(len(all)))
		case "bytes.Buffer":
			rd = bytes.NewBuffer(all)
		case "bufio.Reader":
			rd = bufio.NewReaderSize(bytes.NewReader(all), 16)
		}
		if kind == "bytes.Reader+ReadByte" {
			for range pre {
				rd.(*bytes.Reader).ReadByte()
			}
		} else if len(pre) > 0 {
			io.ReadFull(rd, make([]byte, len(pre)))
		}
		c = newFromReader(rd)
	}
	t.Seen("ctor", cs.Impl+"/"+cs.Ctor)

	type lener interface{ Len() int }
	type runeMover interface{ MoveRune() }

	checkCaller := func(when string, restored bool) {
		if caller == nil {
			return
		}
		n := len(data)
		for i := range backing {
			want := pristine[i]
			if i == n && !restored && i < len(backing) {
				continue // the borrowed terminator byte
			}
			if backing[i] != want {
				t.Failf("%s: caller byte %d changed from %#x to %#x (len=%d cap=%d)", when, i, want, backing[i], n, len(backing))
				return
			}
		}
	}

	nops := 1 + r.Intn(60)
	if r.Intn(8) == 0 {
		nops = 100 + r.Intn(100)
	}
	var ops []string
	rec := func(s string) {
		if len(ops) < 400 {
			ops = append(ops, s)
		}
	}
	fail := func(format string, a ...any) {
		cs.Ops = ops
		t.Desc(cs)
		t.Failf(format, a...)
	}
	L := len(model.data)
	calls := 0
	checkState := func(after string) bool {
		calls += 3
		if got, want := c.Pos(), model.pos-model.start; got != want {
			fail("after %s: Pos()=%d want %d", after, got, want)
			return false
		}
		if got := c.Offset(); got != model.pos {
			fail("after %s: Offset()=%d want %d", after, got, model.pos)
			return false
		}
		if c.Offset()-c.Pos() > c.Offset() || c.Pos() < 0 {
			fail("after %s: start > pos (Offset=%d Pos=%d)", after, c.Offset(), c.Pos())
			return false
		}
		if got, want := c.Err(), model.peekErr(0); got != want {
			fail("after %s: Err()=%v want %v (pos=%d len=%d)", after, got, want, model.pos, L)
			return false
		}
		return true
	}
	if !checkState("construction") {
		return
	}
	if l, ok := c.(lener); ok {
		if l.Len() != L {
			fail("Len()=%d want %d", l.Len(), L)
			return
		}
	}
	checkCaller("after construction", false)

	for i := 0; i < nops && !t.Failed(); i++ {
		switch op := r.Intn(16); op {
		case 0, 1: // Peek(i) for a random legal i (may be negative down to -pos)
			lo, hi := -model.pos, L-model.pos
			k := lo + r.Intn(hi-lo+1)
			rec(fmt.Sprintf("Peek(%d)", k))
			calls++
			if got, want := c.Peek(k), model.peek(k); got != want {
				fail("Peek(%d)=%#x want %#x at pos %d", k, got, want, model.pos)
			}
		case 2: // PeekErr
			k := r.Intn(L - model.pos + 3)
			if model.pos > 0 && r.Intn(4) == 0 {
				k = -1 - r.Intn(model.pos) // look-behind: never the end, wherever the cursor stands
			}
			rec(fmt.Sprintf("PeekErr(%d)", k))
			calls++
			if got, want := c.PeekErr(k), model.peekErr(k); got != want {
				fail("PeekErr(%d)=%v want %v at pos %d len %d", k, got, want, model.pos, L)
			}
		case 3, 4, 5: // PeekRune at every legal offset from here
			rec("PeekRune(all)")
			for k := 0; model.pos+k <= L && k < 70; k++ {
				calls++
				var gr rune
				var gn int
				if p := fw.Guard(func() { gr, gn = c.PeekRune(k) }); p != "" {
					fail("PeekRune(%d) at pos %d of %d bytes read beyond the terminator: %s", k, model.pos, L, p)
					break
				}
				rem := L - (model.pos + k)
				if rem == 0 {
					if gr != 0 || gn != 1 {
						fail("PeekRune(%d) at the end = (%d,%d) want (0,1)", k, gr, gn)
					}
					continue
				}
				if gn < 1 || gn > rem {
					fail("PeekRune(%d) at pos %d reports length %d but only %d bytes remain", k, model.pos, gn, rem)
					break
				}
				if wr, wn := utf8.DecodeRune(model.data[model.pos+k:]); wr != utf8.RuneError || wn > 1 {
					t.Count("peekrune.valid", 1)
					if gr != wr || gn != wn {
						fail("PeekRune(%d) at pos %d = (%#x,%d), utf8.DecodeRune = (%#x,%d)", k, model.pos, gr, gn, wr, wn)
						break
					}
				} else {
					t.Count("peekrune.invalid", 1)
				}
			}
		case 6: // Move
			n := r.Intn(L - model.pos + 1)
			if r.Intn(3) == 0 && n > 3 {
				n = r.Intn(3)
			}
			rec(fmt.Sprintf("Move(%d)", n))
			c.Move(n)
			model.pos += n
			checkState("Move")
		case 7: // MoveRune (parse.Input only; never at the end)
			if mr, ok := c.(runeMover); ok && model.pos < L {
				rec("MoveRune")
				_, n := c.PeekRune(0)
				mr.MoveRune()
				// documented: advances by the length of the current rune
				if n < 1 || n > L-model.pos {
					fail("PeekRune(0) length %d with %d bytes left", n, L-model.pos)
					break
				}
				model.pos += n
				checkState("MoveRune")
			}
		case 8: // Rewind
			p := r.Intn(L - model.start + 1)
			rec(fmt.Sprintf("Rewind(%d)", p))
			c.Rewind(p)
			model.pos = model.start + p
			checkState("Rewind")
		case 9: // Lexeme
			rec("Lexeme")
			calls++
			got := c.Lexeme()
			if !bytes.Equal(got, model.data[model.start:model.pos]) {
				fail("Lexeme()=%s want %s", fw.Q(got), fw.Q(model.data[model.start:model.pos]))
			} else if cap(got) != len(got) {
				fail("Lexeme() has spare capacity %d > len %d: append would overwrite the input", cap(got), len(got))
			}
		case 10: // Skip
			rec("Skip")
			c.Skip()
			model.start = model.pos
			checkState("Skip")
		case 11, 12: // Shift
			rec("Shift")
			calls++
			got := c.Shift()
			want := model.data[model.start:model.pos]
			if !bytes.Equal(got, want) {
				fail("Shift()=%s want %s", fw.Q(got), fw.Q(want))
			} else if cap(got) != len(got) {
				fail("Shift() has spare capacity: append would overwrite the input")
			} else if len(got) > 0 {
				// appending to the token must not disturb the input
				_ = append(got, 'X')
				if !bytes.Equal(c.Bytes(), model.data) {
					fail("append to shifted token changed the input")
				}
			}
			model.start = model.pos
			checkState("Shift")
		case 13: // Bytes / Len
			rec("Bytes")
			calls++
			got := c.Bytes()
			if !bytes.Equal(got, model.data) {
				fail("Bytes()=%s want %s", fw.Q(got), fw.Q(model.data))
			} else if cap(got) != len(got) {
				fail("Bytes() exposes capacity %d beyond length %d", cap(got), len(got))
			}
			if l, ok := c.(lener); ok && l.Len() != L {
				fail("Len()=%d want %d", l.Len(), L)
			}
		case 14: // Reset
			if r.Intn(4) == 0 {
				rec("Reset")
				c.Reset()
				model.start, model.pos = 0, 0
				checkState("Reset")
			}
		case 15:
			checkCaller("mid-history", false)
		}
	}
	t.Count("calls", calls)
	if t.Failed() {
		return
	}
	checkCaller("before Restore", false)
	c.Restore()
	checkCaller("after Restore", true)
	if n := len(data); caller != nil && n < len(backing) {
		// the byte is the caller's again: it writes there (an append into its own spare capacity) before a second,
		// e.g. deferred, Restore
		backing[n] ^= 0x3C
		pristine[n] = backing[n]
	}
	c.Restore() // idempotent: nothing is borrowed any more
	checkCaller("after second Restore", true)
	if caller != nil && len(backing) > len(data) {
		t.Count("restore.borrowed", 1)
	}
	if L >= 2 && nops >= 5 {
		key := append([]byte(cs.Impl+cs.Ctor), data...)
		key = append(key, fmt.Sprint(ops)...)
		t.Nontrivial(key)
	}
	cs.Ops = ops
	t.Sample(cs)
}

// fixed regression probes for the defects that were repaired
func c12Probes(t *fw.T) {
	probes := []struct {
		name string
		data string
		pos  int
		k    int
	}{
		{"peekrune-truncated-4byte-at-2", "ab\xf0", 0, 2},
		{"peekrune-truncated-3byte-at-1", "a\xe2", 0, 1},
		{"peekrune-truncated-4byte-two-cont", "xy\xf0\x9f\x98", 0, 2},
		{"peekrune-valid-at-end", "ab\xc3\xa9", 0, 2},
		{"peekrune-after-move", "ab\xf0\x9f", 1, 1},
	}
	p := probes[t.Index%len(probes)]
	t.Key("probe:" + p.name)
	t.Desc(map[string]any{"probe": p.name, "data": []byte(p.data), "pos": p.pos, "k": p.k})
	for _, mk := range []func() cursorAPI{
		func() cursorAPI { return parse.NewInputString(p.data) },
		func() cursorAPI { return buffer.NewLexerBytes([]byte(p.data)) },
	} {
		c := mk()
		c.Move(p.pos)
		var gr rune
		var gn int
		if pm := fw.Guard(func() { gr, gn = c.PeekRune(p.k) }); pm != "" {
			t.Failf("PeekRune(%d) on %q: %s", p.k, p.data, pm)
			return
		}
		rem := len(p.data) - p.pos - p.k
		if gn > rem {
			t.Failf("PeekRune(%d) on %q reports length %d, %d bytes remain", p.k, p.data, gn, rem)
			return
		}
		if wr, wn := utf8.DecodeRuneInString(p.data[p.pos+p.k:]); (wr != utf8.RuneError || wn > 1) && (gr != wr || gn != wn) {
			t.Failf("PeekRune(%d) on %q = (%#x,%d) want (%#x,%d)", p.k, p.data, gr, gn, wr, wn)
			return
		}
	}
	t.Count("probes", 1)
	t.Nontrivial([]byte(p.name))
}

func init() {
	fw.Register(&fw.Prop{
		ID: "C12",
		Rule: "case = (implementation parse.Input|buffer.Lexer, constructor, data, random contract-respecting history of 1-200 cursor operations); " +
			"every result is compared online with a reference cursor; PeekRune is called at every offset from the current position each time it is drawn; " +
			"non-trivial = data of >= 2 bytes and >= 5 operations; distinct by (impl, ctor, data, op script)",
		Assume: []string{"the history generator never moves past the terminating 0 (documented contract)",
			"for invalid UTF-8 only the length bound and absence of over-read are demanded of PeekRune"},
		Required: []string{"calls", "peekrune.valid", "peekrune.invalid", "restore.borrowed", "probes"},
		Streams: []fw.Stream{
			{Name: "probes", Quick: 5, Thorough: 5, Run: c12Probes},
			{Name: "history", Quick: 1000000, Thorough: 90000000, Run: c12Run},
		},
	})
}
