package props

import (
	"fmt"
	"strconv"
	"strings"
	"unicode"
	"unicode/utf8"
)

// Reference model and context oracle of C15 (valid UTF-8 texts only).

func c15IsBreak(r rune) bool { return r == '\n' || r == '\r' || r == '\u2028' || r == '\u2029' }

// c15RefPos is the reference for parse.Position on valid UTF-8: the 1-based line obtained by counting the
// breaks (\n, \r, \r\n, U+2028, U+2029) that END at or before the offset, the 1-based column in code points
// from the start of that line, and the byte offset of that line start. Offsets are clamped to [0, len]; an
// offset inside a multi-byte character or between \r and \n maps to the start of that character.
func c15RefPos(text []byte, off int) (line, col, lineStart int) {
	if off < 0 {
		off = 0
	}
	if off > len(text) {
		off = len(text)
	}
	line = 1
	i := 0
	for i < len(text) {
		r, n := utf8.DecodeRune(text[i:])
		if r == '\r' && i+1 < len(text) && text[i+1] == '\n' {
			n = 2
		}
		if i+n > off { // the character at i is the one at the offset
			break
		}
		i += n
		if c15IsBreak(r) {
			line++
			lineStart = i
		}
	}
	return line, utf8.RuneCount(text[lineStart:i]) + 1, lineStart
}

// c15ShownOK: how a character of the line may be rendered in the context. "Non-printable" is read as Go's
// unicode.IsPrint; the library uses unicode.IsGraphic, which differs from IsPrint only on the space
// separators other than U+0020 (U+00A0, U+3000 ...): for those both renderings are accepted.
func c15ShownOK(orig, shown rune) bool {
	switch {
	case unicode.IsPrint(orig):
		return shown == orig
	case !unicode.IsGraphic(orig):
		return shown == '·'
	}
	return shown == orig || shown == '·'
}

// c15CheckContext decides the context clause for Position(text, off) = (line, col, ctx), given that line and
// col already equal the reference. Demanded (statement + DESIGN §4 C15), everything else is layout:
//
//	ctx    = first "\n" second, with exactly one "\n"
//	first  = spaces* <decimal line number> ": " ["..."] shown ["..."]
//	second = spaces* "^"
//	shown  = rendering of a contiguous piece [s,e) of the line (code points; see c15ShownOK), at most 64 code points;
//	         "..." in front iff s > 0; "..." behind iff the piece stops before the end of the line; when
//	         anything is elided the displayed text (shown + ellipses) has at least 40 code points ("roughly 60")
//	caret  : the rune index of "^" in second equals the rune index in first of the rendered character at the
//	         offset (line index col-1), or of the position one past shown when the offset is at the end of the line.
//
// "The line" runs from the line start to the next \n or \r (what positionContext does); an implementation that
// ended it at U+2028/U+2029 as well would also be accepted (end = eAny below), because the statement does not
// say how the context line ends for those breaks.
func c15CheckContext(text []byte, line, col, lineStart int, ctx string) string {
	nl := strings.IndexByte(ctx, '\n')
	if nl < 0 || strings.IndexByte(ctx[nl+1:], '\n') >= 0 {
		return "context does not consist of exactly two lines"
	}
	first, second := ctx[:nl], ctx[nl+1:]
	if !strings.HasSuffix(second, "^") || strings.Trim(second[:len(second)-1], " ") != "" {
		return fmt.Sprintf("second context line %q is not spaces followed by one caret", second)
	}
	caret := len(second) - 1
	// prefix
	p := 0
	for p < len(first) && first[p] == ' ' {
		p++
	}
	d := p
	for d < len(first) && first[d] >= '0' && first[d] <= '9' {
		d++
	}
	if d == p || !strings.HasPrefix(first[d:], ": ") {
		return fmt.Sprintf("first context line %q does not start with \"<line number>: \"", first)
	}
	if n, err := strconv.Atoi(first[p:d]); err != nil || n != line {
		return fmt.Sprintf("context shows line number %s, Position returned line %d", first[p:d], line)
	}
	prefix := d + 2 // ASCII, bytes == runes
	body := []rune(first[prefix:])

	// the line in code points: up to \n / \r (full) and up to any of the five breaks (eAny)
	var full []rune
	eAny := -1
	for i := lineStart; i < len(text); {
		r, n := utf8.DecodeRune(text[i:])
		if r == '\n' || r == '\r' {
			break
		}
		if c15IsBreak(r) && eAny < 0 {
			eAny = len(full)
		}
		full = append(full, r)
		i += n
	}
	if eAny < 0 {
		eAny = len(full)
	}
	at := col - 1 // index in full of the character at the offset (== len(full) at the end of the line)

	hasDots := func(rs []rune) bool { return len(rs) >= 3 && rs[0] == '.' && rs[1] == '.' && rs[2] == '.' }
	why := ""
	for _, ef := range []bool{false, true} {
		for _, er := range []bool{false, true} {
			shown := body
			if ef {
				if !hasDots(shown) {
					continue
				}
				shown = shown[3:]
			}
			if er {
				if len(shown) < 3 || !hasDots(shown[len(shown)-3:]) {
					continue
				}
				shown = shown[:len(shown)-3]
			}
			k := caret - prefix
			if ef {
				k -= 3
			}
			fail := func(format string, a ...any) {
				if why == "" || ef == hasDots(body) { // prefer the natural parse for the message
					why = fmt.Sprintf(format, a...)
				}
			}
			if k < 0 || k > len(shown) {
				fail("caret at rune index %d is not under the shown text (prefix %d, shown %d code points)", caret, prefix, len(shown))
				continue
			}
			if k == len(shown) && er {
				fail("caret points at the rear ellipsis")
				continue
			}
			s := at - k
			e := s + len(shown)
			if s < 0 || e > len(full) {
				fail("caret at rune index %d: character #%d of the line would be at index %d of the shown text, which does not fit the line of %d code points", caret, at, k, len(full))
				continue
			}
			ok := true
			for i, r := range shown {
				if !c15ShownOK(full[s+i], r) {
					fail("shown text differs from the line at line index %d: shown %q, line has %q (caret at rune %d => shown = line[%d:%d])", s+i, r, full[s+i], caret, s, e)
					ok = false
					break
				}
			}
			if !ok {
				continue
			}
			if ef != (s > 0) {
				fail("front ellipsis=%v but the shown piece starts at line index %d", ef, s)
				continue
			}
			if er && e >= len(full) || !er && e != len(full) && e != eAny {
				fail("rear ellipsis=%v but the shown piece ends at line index %d of %d", er, e, len(full))
				continue
			}
			if len(shown) > 64 {
				fail("shown text has %d code points (limit roughly 60)", len(shown))
				continue
			}
			if (ef || er) && len(body) < 40 {
				fail("line of %d code points elided to %d displayed code points (roughly 60 demanded)", len(full), len(body))
				continue
			}
			return ""
		}
	}
	if why == "" {
		why = "context cannot be parsed"
	}
	return why
}
