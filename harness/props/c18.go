package props

import (
	"fmt"
	"reflect"
	"strings"

	"github.com/tdewolff/parse/v2"
	"github.com/tdewolff/parse/v2/js"

	"vh/fw"
	"vh/gen"
)

// C18 — Walk visits every node of the tree once with balanced Enter/Exit.
//
// Ground truth: a reflection walk over the same tree (jsTreePositions) lists the positions Walk must visit
// (statements, expressions, bindings, identifiers, blocks) with their parent position; the addresses of all
// addressable structs of the tree are collected for the "nothing outside the tree" clause.

type c18Event struct {
	enter  bool
	node   js.INode
	pruned bool // this Enter returned nil
	recv   int  // identity of the visitor object that received the call
	ret    int  // Enter: identity of the visitor object it returned
}

type c18Visitor struct {
	events []c18Event
	policy int
	rng    interface{ Intn(int) int }
	pruned map[nodeKey]bool
	other  *c18Visitor
	errs   []string
	id     int // identity of this visitor object (0 = the one handed to Walk)
	nextID int
}

func (v *c18Visitor) root() *c18Visitor {
	if v.other != nil && v.other.other == nil && v.policy == 99 {
		return v.other
	}
	return v
}

func (v *c18Visitor) Enter(n js.INode) js.IVisitor {
	r := v.root()
	r.events = append(r.events, c18Event{enter: true, node: n, recv: v.id, ret: v.id})
	switch r.policy {
	case 1: // stop at a random subset
		if r.rng.Intn(7) == 0 {
			if k := ptrKey(n); k != (nodeKey{}) && !zeroSized(n) {
				if _, isVar := n.(*js.Var); !isVar {
					r.pruned[k] = true
				}
				r.events[len(r.events)-1].pruned = true
				return nil
			}
		}
	case 2: // hand back a different visitor object that records into the same log
		if r.rng.Intn(3) == 0 {
			r.nextID++
			r.events[len(r.events)-1].ret = r.nextID
			return &c18Visitor{policy: 99, other: r, id: r.nextID}
		}
	}
	return v
}

func (v *c18Visitor) Exit(n js.INode) {
	r := v.root()
	r.events = append(r.events, c18Event{enter: false, node: n, recv: v.id})
}

// nodeKey identifies a node by address and type (an embedded first field shares its address with its parent).
type nodeKey struct {
	p uintptr
	t reflect.Type
}

func ptrKey(n any) nodeKey {
	rv := reflect.ValueOf(n)
	if rv.Kind() == reflect.Ptr {
		return nodeKey{rv.Pointer(), rv.Type()}
	}
	return nodeKey{}
}

func zeroSized(n any) bool {
	rv := reflect.ValueOf(n)
	return rv.Kind() == reflect.Ptr && rv.Type().Elem().Size() == 0
}

func isRequiredKind(n any) bool {
	if _, ok := n.(*js.LiteralExpr); ok {
		return false // literals are embedded by value in names; Walk may hand out the address of a copy
	}
	switch n.(type) {
	case js.IStmt, js.IExpr, js.IBinding:
		return reflect.ValueOf(n).Kind() == reflect.Ptr
	}
	return false
}

// treeAddresses collects the addresses of every addressable struct inside the tree (excluding scope tables).
func treeAddresses(ast *js.AST) map[uintptr]bool {
	out := map[uintptr]bool{}
	var walk func(v reflect.Value, depth int)
	walk = func(v reflect.Value, depth int) {
		if depth > 5000 {
			return
		}
		switch v.Kind() {
		case reflect.Interface:
			if !v.IsNil() {
				walk(v.Elem(), depth+1)
			}
		case reflect.Ptr:
			if v.IsNil() || v.Type() == jsScopePtrType {
				return
			}
			out[v.Pointer()] = true
			if v.Type() == jsVarPtrType {
				return
			}
			walk(v.Elem(), depth+1)
		case reflect.Struct:
			if v.Type() == jsScopeType {
				return
			}
			if v.CanAddr() {
				out[v.Addr().Pointer()] = true
			}
			for i := 0; i < v.NumField(); i++ {
				if v.Type().Field(i).PkgPath == "" {
					walk(v.Field(i), depth+1)
				}
			}
		case reflect.Slice:
			if v.Type().Elem().Kind() == reflect.Uint8 {
				return
			}
			for i := 0; i < v.Len(); i++ {
				walk(v.Index(i), depth+1)
			}
		}
	}
	out[reflect.ValueOf(ast).Pointer()] = true
	walk(reflect.ValueOf(ast).Elem(), 0)
	return out
}

func c18Check(t *fw.T, ast *js.AST, policy int) bool {
	pos := jsTreePositionsOpt(ast, true)
	addrs := treeAddresses(ast)
	v := &c18Visitor{policy: policy, rng: t.Rng, pruned: map[nodeKey]bool{}}
	if p := fw.Guard(func() { js.Walk(v, ast) }); p != "" {
		t.Failf("Walk: %s", p)
		return false
	}
	// balanced Enter/Exit with stack discipline; nothing entered below a pruned node
	var stack []js.INode
	var vstack []int // the visitor object each open Enter returned
	entered := map[nodeKey]int{}
	order := map[nodeKey]int{}
	for i, ev := range v.events {
		k := ptrKey(ev.node)
		if ev.enter {
			// the children of a node are walked with the visitor its Enter returned (the root with the one given to Walk)
			if want := 0; len(vstack) == 0 && ev.recv != want || len(vstack) > 0 && ev.recv != vstack[len(vstack)-1] {
				t.Failf("Enter(%T) was delivered to a visitor other than the one the enclosing node's Enter returned", ev.node)
				return false
			}
			if isRequiredKind(ev.node) && !addrs[k.p] {
				t.Failf("Enter(%T) with a node that is not part of the tree (reachable only outside it, e.g. through scope tables)", ev.node)
				return false
			}
			// the same for the sub-structures Walk enters (case clauses, parameters, elements, properties, arguments, …):
			// what is handed to the visitor is the structure inside the tree, not a copy of it
			if _, lit := ev.node.(*js.LiteralExpr); !lit && k != (nodeKey{}) && !zeroSized(ev.node) && !addrs[k.p] {
				t.Failf("Enter(%T) with a pointer that does not point into the tree (a copy of the node?)", ev.node)
				return false
			}
			entered[k]++
			if _, ok := order[k]; !ok {
				order[k] = i
			}
			if !ev.pruned {
				stack = append(stack, ev.node)
				vstack = append(vstack, ev.ret)
			} else {
				// a pruned node: the next event must not be an Enter of one of its descendants; checked below through
				// the reflection parents
			}
		} else {
			if len(stack) == 0 || ptrKey(stack[len(stack)-1]) != k && k != (nodeKey{}) {
				t.Failf("Exit(%T) does not match the innermost entered node", ev.node)
				return false
			}
			if ev.recv != vstack[len(vstack)-1] {
				t.Failf("Exit(%T) was delivered to a visitor other than the one Enter returned for that node", ev.node)
				return false
			}
			stack = stack[:len(stack)-1]
			vstack = vstack[:len(vstack)-1]
		}
	}
	if len(stack) != 0 {
		t.Failf("%d nodes were entered (with a visitor returned) but never exited", len(stack))
		return false
	}
	// required positions
	need := map[nodeKey]int{}
	prunedAddr := map[nodeKey]bool{}
	for k := range v.pruned {
		prunedAddr[k] = true
	}
	underPruned := make([]bool, len(pos))
	for i, p := range pos {
		k := ptrKey(p.node)
		if p.parent >= 0 && (underPruned[p.parent] || prunedAddr[ptrKey(pos[p.parent].node)]) {
			underPruned[i] = true
		}
		if underPruned[i] {
			if entered[k] > 0 && reflect.TypeOf(p.node) != jsVarPtrType && !zeroSized(p.node) {
				t.Failf("%T was entered although an ancestor's Enter returned nil", p.node)
				return false
			}
			continue
		}
		need[k]++
	}
	if policy != 1 {
		for i, p := range pos {
			k := ptrKey(p.node)
			if entered[k] < need[k] {
				t.Failf("tree position %d (%T %s) was passed to Enter %d times, the tree contains it %d times", i, p.node, nodeSnippet(p.node), entered[k], need[k])
				return false
			}
			if reflect.TypeOf(p.node) != jsVarPtrType && !zeroSized(p.node) && entered[k] != 1 {
				t.Failf("%T %s was entered %d times", p.node, nodeSnippet(p.node), entered[k])
				return false
			}
			if p.parent >= 0 {
				pk := ptrKey(pos[p.parent].node)
				if order[k] < order[pk] && reflect.TypeOf(p.node) != jsVarPtrType && !zeroSized(p.node) {
					t.Failf("%T was entered before its parent %T", p.node, pos[p.parent].node)
					return false
				}
			}
		}
		// identifiers: total number of *Var visits equals the number of *Var positions
		for k, n := range need {
			if entered[k] > n {
				t.Failf("a node was entered %d times but occurs %d times in the tree", entered[k], n)
				return false
			}
		}
	} else {
		for _, p := range pos {
			k := ptrKey(p.node)
			if entered[k] > need[k] && need[k] >= 0 && reflect.TypeOf(p.node) != jsVarPtrType && !zeroSized(p.node) && entered[k] > 1 {
				t.Failf("%T entered %d times", p.node, entered[k])
				return false
			}
		}
	}
	t.Count("walk.events", len(v.events))
	t.Count("walk.positions", len(pos))
	for _, p := range pos {
		t.Seen("node types", fmt.Sprintf("%T", p.node))
		if _, ok := p.node.(*js.Comment); ok {
			t.Count("walk.comment.nodes", 1)
		}
	}
	return true
}

func nodeSnippet(n any) string {
	if s, ok := n.(interface{ String() string }); ok {
		if p := fw.Guard(func() { _ = s.String() }); p == "" {
			str := s.String()
			if len(str) > 60 {
				str = str[:60] + "…"
			}
			return str
		}
	}
	return ""
}

func c18Run(t *fw.T) {
	r := t.Rng
	var src []byte
	if r.Intn(3) > 0 {
		ctx := r.Intn(2) == 0
		prog := gen.JSProgram(r, gen.JSOpts{CtxNames: ctx, YieldName: ctx && r.Intn(2) == 0, NoModuleItems: r.Intn(2) == 0})
		s, _ := gen.JSSpell(prog, gen.JSStyle{Parens: r.Intn(3), Semi: r.Intn(3), WS: r.Intn(2), Seed: r.Int63(), Bang: []int{0, 0, 10, 40}[r.Intn(4)]})
		if r.Intn(10) == 0 {
			s = "#!/usr/bin/env node\n" + s // kept as a Comment statement (module goal only)
		}
		src = []byte(s)
	} else {
		li := langs["js"]
		_ = li
		src = gen.ToValidUTF8(hostileInput(r, "js", 400))
	}
	op := jsOptions[r.Intn(2)]
	policy := r.Intn(3)
	t.Desc(map[string]any{"src": src, "opts": optName(op), "policy": policy})
	ast, err := js.Parse(parse.NewInputBytes(append([]byte(nil), src...)), op)
	if err != nil {
		t.Count("rejected", 1)
		return
	}
	if !c18Check(t, ast, policy) {
		return
	}
	t.Count("trees", 1)
	t.Seen("policy", fmt.Sprint(policy))
	t.Nontrivial(append([]byte{byte(policy)}, src...))
	if t.Index < 5 {
		t.Sample(map[string]any{"src": src, "policy": policy})
	}
}

var c18Probes = []string{
	"class A{[k](){} #p=1; static #q(){} get [a+b](){return 1}}",
	"x={[k]:1, m(){}, get [y](){return 2}}",
	"for(const {a,b:[c]} of d){ try{e}catch({f}){g} }",
	"label: while(a){ if(b) continue label; else break label }",
	"export default class extends B { static { init() } }",
	"class A { x = 1; static y; [k] = z; #p }",
	"switch (a) { case 1: b; case 2: default: c }",
	"tag`a${b}c${d}`; o.f`x`; try {} catch ({e}) {}",
	"({a = 1} = o); [{b = f(1)}] = arr; for ({c = 1} of l); ({p: {q = x+1}} = o)",
	"[a, , b = 2, ...c.d] = e; ({k: [m = n], ...r} = s)",
	"x = [1,,2]; [,a] = y; f([,]); for ([b,,c] of d);",
	"class A { #p = 1; m(o) { return this.#p + o?.#p + o.#f() } #f(){} }",
	"for (;;) break; for (; a < b; a++);",
	"a: b: c: for (;;) { break b }",
}

func init() {
	// trees deeper than 1000 nodes (the parser's limits count levels of source nesting, a level is two or three nodes) and
	// left-deep operator chains of 100 and 300 operands
	c18Probes = append(c18Probes,
		"x = "+strings.Repeat("[", 520)+"leaf"+strings.Repeat("]", 520),
		"y = "+strings.Repeat("f(", 360)+"leaf"+strings.Repeat(")", 360),
		strings.Repeat("{", 700)+"leaf"+strings.Repeat("}", 700),
		"z = a0"+func() string {
			var sb strings.Builder
			for i := 1; i <= 100; i++ {
				fmt.Fprintf(&sb, "+a%d", i)
			}
			return sb.String()
		}(),
		"w = b0"+func() string {
			var sb strings.Builder
			for i := 1; i <= 300; i++ {
				fmt.Fprintf(&sb, "*b%d", i)
			}
			return sb.String()
		}())
}

// c18Future: programs in syntax newer than the pinned grammar. As long as js.Parse rejects them nothing is claimed; a
// tree that is returned for one of them is checked like any other.
var c18Future = []string{
	"import d from \"./d.json\" with { type: \"json\" }", "export * from \"m\" with {}", "export {a} from \"m\" with { type: \"json\" }", "import \"m\" with { type: \"css\" }",
	"@dec class A {}", "class A { @dec m() {} }", "class A { accessor x = 1 }", "using x = f();", "await using y = g();", "x = /[\\p{L}--[a-z]]/v", "import defer * as ns from \"m\"",
	"import source s from \"m\"", "x = a |> f", "x = #{a: 1}", "x = do { 1 }", "function f(a, b = a?.[0] ?? c) {}", "x = y satisfies z", "enum E { A }", "x = <div/>",
}

func c18FutureProbe(t *fw.T) {
	src := c18Future[t.Index%len(c18Future)]
	t.Desc(map[string]any{"src": []byte(src)})
	for _, op := range jsOptions {
		ast, err := js.Parse(parse.NewInputString(src), op)
		if err != nil {
			t.Count("future.rejected", 1)
			continue
		}
		for policy := 0; policy < 3; policy++ {
			if !c18Check(t, ast, policy) {
				return
			}
		}
		t.Count("future.accepted", 1)
	}
	t.Nontrivial([]byte(src))
}

func c18Probe(t *fw.T) {
	src := c18Probes[t.Index%len(c18Probes)]
	t.Key(fmt.Sprintf("probe:%d", t.Index%len(c18Probes)))
	t.Desc(map[string]any{"src": []byte(src)})
	for policy := 0; policy < 3; policy++ {
		ast, err := js.Parse(parse.NewInputString(src), js.Options{})
		if err != nil {
			t.Failf("probe rejected: %v", oneLineErr(err))
			return
		}
		if !c18Check(t, ast, policy) {
			return
		}
	}
	t.Count("probes", 1)
	t.Nontrivial([]byte(src))
}

func init() {
	fw.Register(&fw.Prop{
		ID: "C18",
		Rule: "case = a tree returned by js.Parse (random spelling of a generated ES2022 program, or a mutated corpus entry that parses) x visitor policy {descend everywhere, return nil at a random subset, return a different visitor object}; the Enter/Exit log of a recording visitor is compared with a reflection walk over the same tree: " +
			"every statement/expression/binding/identifier/block position entered (exactly once per position when descending everywhere), a child never before its parent, Exit exactly once per non-nil Enter in stack order, nothing entered below a node whose Enter returned nil, every entered node an addressable part of the tree. non-trivial = accepted input; distinct by policy+bytes",
		Assume:   []string{"required positions are the non-nil IStmt/IExpr/IBinding interface values, *Var and *BlockStmt reachable through exported fields other than Scope, and the addressable structs of the tree whose pointer type implements INode (Element, Property, PropertyName, Params, BindingElement, Arg, CaseClause, Field, Alias, …; a zero struct in a field is an absent part, a zero element of a list is present); LiteralExpr values (embedded by value) and the ClassElement wrapper, which Walk passes over, are not required"},
		Required: []string{"trees", "walk.events", "walk.positions", "walk.comment.nodes", "probes"},
		Streams: []fw.Stream{
			{Name: "probes", Quick: len(c18Probes), Thorough: len(c18Probes), Run: c18Probe},
			{Name: "future-syntax", Quick: len(c18Future), Thorough: len(c18Future), Run: c18FutureProbe},
			{Name: "walk", Quick: 200000, Thorough: 10000000, Run: c18Run},
		},
	})
}
