package props

import (
	"bytes"
	"encoding/json"
	"fmt"
	"math"
	"math/big"
	"strconv"
	"strings"
	"unicode/utf8"

	pstrconv "github.com/tdewolff/parse/v2/strconv"

	"vh/fw"
	"vh/gen"
)

// C14 — strconv parses and formats numbers consistently with the standard library.
//
// Monitors (all at the public API): differential against strconv / math/big for the parsers and
// AppendInt/LenInt; grammar + parse-back windows for AppendFloat/AppendDecimal (tolerances of DESIGN
// §4 C14 "Reading of the tolerances"); AppendNumber->ParseNumber round trip; a prefix canary around
// every destination slice, once without and once with spare capacity.

// c14F prints a float argument exactly (shortest round-trip text and bit pattern).
type c14F float64

func (f c14F) MarshalJSON() ([]byte, error) {
	return json.Marshal(map[string]string{"g": strconv.FormatFloat(float64(f), 'g', -1, 64),
		"bits": fmt.Sprintf("%#016x", math.Float64bits(float64(f)))})
}

type c14Case struct {
	Fn        string `json:"fn"`
	In        fw.B   `json:"in,omitempty"`   // parser input
	Int       int64  `json:"int,omitempty"`  // AppendInt/LenInt/AppendNumber argument
	F         c14F   `json:"f"`              // AppendFloat/AppendDecimal argument
	Prec      int    `json:"prec,omitempty"` // precision / decimals
	GroupSize int    `json:"groupSize,omitempty"`
	GroupSym  string `json:"groupSym,omitempty"` // %U
	DecSym    string `json:"decSym,omitempty"`
	Dst       string `json:"dst,omitempty"` // shape of the destination slice
}

// c14Mon carries the per-case state: description, local counters, canary buffers.
type c14Mon struct {
	t  *fw.T
	cs c14Case
	n  map[string]int
}

func newC14Mon(t *fw.T) *c14Mon {
	m := &c14Mon{t: t, n: map[string]int{}}
	t.Desc(&m.cs)
	return m
}
func (m *c14Mon) count(k string) { m.n[k]++ }
func (m *c14Mon) flush() {
	for k, v := range m.n { // sums only: order does not matter
		m.t.Count(k, v)
	}
}

// call runs one library call; a panic is a violation.
func (m *c14Mon) call(f func()) bool {
	if p := fw.Guard(f); p != "" {
		m.t.Failf("%s: %s", m.cs.Fn, p)
		return false
	}
	return true
}

// ---------------------------------------------------------------------------------------------
// destination slices with canaries

// appendBoth runs an Append* function on two destination slices — one without spare capacity (nil
// or a prefix with cap == len) and one with spare capacity (too little for the output, or ample and
// filled with 0xA5) — checks that the bytes already present survive both in the returned slice and
// in the caller's array, and hands each appended part to check.
func (m *c14Mon) appendBoth(app func(dst []byte) []byte, check func(out []byte) bool) bool {
	r := m.t.Rng
	for pass := 0; pass < 2; pass++ {
		plen, spare := 0, 0
		if pass == 0 {
			if r.Intn(3) > 0 {
				plen = 1 + r.Intn(8)
			}
			m.cs.Dst = fmt.Sprintf("len=%d cap=%d", plen, plen)
			m.count("dst.tight")
		} else {
			plen = r.Intn(9)
			spare = gen.Pick(r, []int{1, 2, 3, 5, 8, 64})
			m.cs.Dst = fmt.Sprintf("len=%d cap=%d", plen, plen+spare)
			m.count("dst.spare")
		}
		var backing, dst []byte
		if plen+spare > 0 {
			backing = make([]byte, plen+spare)
			for i := range backing {
				if i < plen {
					backing[i] = gen.Pick(r, []byte("0123456789-.,e+ \x00\xffab"))
				} else {
					backing[i] = 0xA5
				}
			}
			dst = backing[:plen]
		}
		pre := string(backing[:plen])
		var res []byte
		if !m.call(func() { res = app(dst) }) {
			return false
		}
		if len(res) < plen || string(res[:plen]) != pre {
			m.t.Failf("%s (dst %s): bytes already in dst not preserved in the result: dst=%q result=%q", m.cs.Fn, m.cs.Dst, pre, res)
			return false
		}
		if string(backing[:plen]) != pre {
			m.t.Failf("%s (dst %s): the caller's bytes dst[:len(dst)] were overwritten: %q -> %q", m.cs.Fn, m.cs.Dst, pre, backing[:plen])
			return false
		}
		if !check(res[plen:]) {
			return false
		}
	}
	return true
}

// ---------------------------------------------------------------------------------------------
// reference syntax

func c14Digs(b []byte, i int) int {
	for i < len(b) && '0' <= b[i] && b[i] <= '9' {
		i++
	}
	return i
}

// c14IntPrefix: longest prefix matching [+-]?d+ (0 when there are no digits).
func c14IntPrefix(b []byte) int {
	i := 0
	if i < len(b) && (b[i] == '+' || b[i] == '-') {
		i++
	}
	if j := c14Digs(b, i); j > i {
		return j
	}
	return 0
}

// c14NumPrefix: longest prefix matching [signs]?(d+(.d*)?|.d+)([eE][+-]?d+)? (the exponent part only
// when exp is set); expDigits is the digit string of the exponent that was matched.
func c14NumPrefix(b []byte, signs string, exp bool) (n int, expDigits []byte) {
	i := 0
	if i < len(b) && strings.IndexByte(signs, b[i]) >= 0 {
		i++
	}
	j := c14Digs(b, i)
	nd := j - i
	i = j
	if i < len(b) && b[i] == '.' {
		if k := c14Digs(b, i+1); nd > 0 || k > i+1 {
			nd += k - (i + 1)
			i = k
		}
	}
	if nd == 0 {
		return 0, nil
	}
	if exp && i < len(b) && (b[i] == 'e' || b[i] == 'E') {
		k := i + 1
		if k < len(b) && (b[k] == '+' || b[k] == '-') {
			k++
		}
		if e := c14Digs(b, k); e > k {
			expDigits = b[k:e]
			i = e
		}
	}
	return i, expDigits
}

// c14Q quotes an input for a message, abbreviating long zero runs (the case record has all bytes).
func c14Q(b []byte) string {
	if len(b) <= 80 {
		return fmt.Sprintf("%q", b)
	}
	return fmt.Sprintf("%q…(%d bytes)…%q", b[:24], len(b)-64, b[len(b)-40:])
}

// c14RefFloat is the correctly rounded value of a literal of the ParseFloat syntax: strconv.ParseFloat
// (its only possible error here is ErrRange, ±Inf is kept), except for literals of more than 800
// bytes: strconv's decimal fallback keeps 800 digits and mis-scales longer integer parts (observed:
// "703"+1165 zeros+"e-1162" parses as 0), so those go through math/big with 300 bits.
func c14RefFloat(lit []byte) float64 {
	if len(lit) <= 800 {
		f, _ := strconv.ParseFloat(string(lit), 64)
		return f
	}
	mant, exp := lit, []byte(nil)
	if i := bytes.IndexAny(lit, "eE"); i >= 0 {
		mant, exp = lit[:i], bytes.TrimLeft(lit[i+1:], "+-0")
	}
	neg := mant[0] == '-'
	zero, inf := 0.0, math.Inf(1)
	if neg {
		zero, inf = math.Copysign(0, -1), math.Inf(-1)
	}
	if len(bytes.Trim(mant, "+-.0")) == 0 {
		return zero
	}
	if len(exp) > 6 { // |exponent| >= 10^6 dwarfs any mantissa the generators build (< 10^5 digits)
		if bytes.Contains(lit, []byte("e-")) || bytes.Contains(lit, []byte("E-")) {
			return zero
		}
		return inf
	}
	x, _, err := big.ParseFloat(string(lit), 10, 300, big.ToNearestEven)
	if err != nil {
		panic("c14RefFloat: " + err.Error())
	}
	f, _ := x.Float64()
	return f
}

const c14Tiny = 4 * math.SmallestNonzeroFloat64 // four subnormal ulps of absolute slack

// c14Close: |got-want| <= 1e-14*|want| + 4*2^-1074. An infinite reference demands the same
// infinity; at the very edge of the range (within 1e-14 of MaxFloat64) either side may overflow.
func c14Close(got, want float64) bool {
	if math.IsNaN(got) {
		return false
	}
	if math.IsInf(got, 0) || math.IsInf(want, 0) {
		if got == want {
			return true
		}
		edge := math.MaxFloat64 * (1 - 1e-14)
		return math.Signbit(got) == math.Signbit(want) && math.Abs(got) >= edge && math.Abs(want) >= edge
	}
	return math.Abs(got-want) <= 1e-14*math.Abs(want)+c14Tiny
}

// ---------------------------------------------------------------------------------------------
// parsers

// evalParse runs the four parsers on b.
func (m *c14Mon) evalParse(b []byte) bool {
	t := m.t
	m.cs.In = b
	in := append([]byte(nil), b...)

	// ParseInt: [+-]?d+, exact, (0,0) on overflow or without digits
	m.cs.Fn = "ParseInt"
	var gi int64
	var gn int
	if !m.call(func() { gi, gn = pstrconv.ParseInt(in) }) {
		return false
	}
	m.count("parseint.evals")
	var wi int64
	wn := c14IntPrefix(b)
	if wn > 0 {
		x, _ := new(big.Int).SetString(strings.TrimPrefix(string(b[:wn]), "+"), 10)
		if x.IsInt64() {
			wi = x.Int64()
			m.count("parseint.value")
		} else {
			wn = 0
			m.count("parseint.overflow")
		}
	} else {
		m.count("parseint.nodigits")
	}
	if gi != wi || gn != wn {
		t.Failf("ParseInt(%s) = (%d,%d), want (%d,%d)", c14Q(b), gi, gn, wi, wn)
		return false
	}

	// ParseUint: d+
	m.cs.Fn = "ParseUint"
	var gu uint64
	if !m.call(func() { gu, gn = pstrconv.ParseUint(in) }) {
		return false
	}
	m.count("parseuint.evals")
	var wu uint64
	wn = c14Digs(b, 0)
	if wn > 0 {
		x, _ := new(big.Int).SetString(string(b[:wn]), 10)
		if x.IsUint64() {
			wu = x.Uint64()
			m.count("parseuint.value")
		} else {
			wn = 0
			m.count("parseuint.overflow")
		}
	}
	if gu != wu || gn != wn {
		t.Failf("ParseUint(%s) = (%d,%d), want (%d,%d)", c14Q(b), gu, gn, wu, wn)
		return false
	}

	// ParseFloat: [+-]?(d+(.d*)?|.d+)([eE][+-]?d+)?
	m.cs.Fn = "ParseFloat"
	var gf float64
	if !m.call(func() { gf, gn = pstrconv.ParseFloat(in) }) {
		return false
	}
	wn, expDigits := c14NumPrefix(b, "+-", true)
	m.count("parsefloat.evals")
	wf := 0.0
	if wn > 0 {
		wf = c14RefFloat(b[:wn])
		switch a := math.Abs(wf); {
		case math.IsInf(wf, 0):
			m.count("parsefloat.inf")
		case a != 0 && a < 2.2250738585072014e-308:
			m.count("parsefloat.subnormal")
		case a >= 1e-299 && a <= 1e-290:
			m.count("parsefloat.window-1e-299..1e-290")
		}
		if expDigits != nil {
			m.count("parsefloat.exponent")
			if len(bytes.TrimLeft(expDigits, "0")) > 18 {
				m.count("parsefloat.exponent-beyond-int64")
			}
		}
	} else {
		m.count("parsefloat.nodigits")
	}
	if gn != wn {
		t.Failf("ParseFloat(%s) consumed %d bytes, the longest literal prefix has %d", c14Q(b), gn, wn)
		return false
	}
	if !c14Close(gf, wf) {
		t.Failf("ParseFloat(%s) = %v (%d bytes), reference value of the first %d bytes = %v: relative error %.3g > 1e-14", c14Q(b), gf, gn, wn, wf, math.Abs(gf-wf)/math.Abs(wf))
		return false
	}

	// ParseDecimal: -?(d+(.d*)?|.d+); only inputs that begin with such a number are in its domain
	if wn, _ = c14NumPrefix(b, "-", false); wn > 0 {
		m.cs.Fn = "ParseDecimal"
		if !m.call(func() { gf, gn = pstrconv.ParseDecimal(in) }) {
			return false
		}
		m.count("parsedecimal.evals")
		wf = c14RefFloat(b[:wn])
		if gn != wn {
			t.Failf("ParseDecimal(%s) consumed %d bytes, the longest decimal prefix has %d", c14Q(b), gn, wn)
			return false
		}
		if !c14Close(gf, wf) {
			t.Failf("ParseDecimal(%s) = %v (%d bytes), reference value of the first %d bytes = %v: relative error %.3g > 1e-14", c14Q(b), gf, gn, wn, wf, math.Abs(gf-wf)/math.Abs(wf))
			return false
		}
	}
	if !bytes.Equal(in, b) {
		t.Failf("a parser modified its input %q -> %q", b, in)
		return false
	}
	return true
}

// ---------------------------------------------------------------------------------------------
// AppendInt / LenInt

func (m *c14Mon) evalInt(v int64) bool {
	m.cs.Fn, m.cs.Int = "AppendInt", v
	want := strconv.AppendInt(nil, v, 10)
	ok := m.appendBoth(func(dst []byte) []byte { return pstrconv.AppendInt(dst, v) }, func(out []byte) bool {
		m.count("appendint.evals")
		if !bytes.Equal(out, want) {
			m.t.Failf("AppendInt(%d) (dst %s) appended %q, strconv.AppendInt gives %q", v, m.cs.Dst, out, want)
			return false
		}
		return true
	})
	if !ok {
		return false
	}
	m.cs.Fn = "LenInt"
	n := 0
	if !m.call(func() { n = pstrconv.LenInt(v) }) {
		return false
	}
	m.count("lenint.evals")
	m.t.Seen("lenint.lengths", strconv.Itoa(len(want)))
	if n != len(want) {
		m.t.Failf("LenInt(%d) = %d, strconv gives %d bytes", v, n, len(want))
		return false
	}
	return true
}

// ---------------------------------------------------------------------------------------------
// AppendFloat

// c14Exp10 returns floor(log10 |f|) exactly for finite non-zero f.
func c14Exp10(f float64) int {
	var buf [32]byte
	s := strconv.AppendFloat(buf[:0], math.Abs(f), 'e', -1, 64)
	e, _ := strconv.Atoi(string(s[bytes.IndexByte(s, 'e')+1:]))
	return e
}

func (m *c14Mon) evalAppendFloat(f float64, prec int) bool {
	m.cs.Fn, m.cs.F, m.cs.Prec = "AppendFloat", c14F(f), prec
	return m.appendBoth(func(dst []byte) []byte { return pstrconv.AppendFloat(dst, f, prec) }, func(out []byte) bool {
		t := m.t
		m.count("appendfloat.evals")
		if math.IsNaN(f) || math.IsInf(f, 0) {
			m.count("appendfloat.nan-inf")
			if len(out) != 0 {
				t.Failf("AppendFloat(%v,%d) appended %q, want nothing", f, prec, out)
				return false
			}
			return true
		}
		// well-formed: the whole output is one literal of the ParseFloat syntax
		if n, _ := c14NumPrefix(out, "+-", true); n != len(out) || n == 0 {
			t.Failf("AppendFloat(%v,%d) (dst %s) appended %q: not a well-formed number literal", f, prec, m.cs.Dst, out)
			return false
		}
		g, _ := strconv.ParseFloat(string(out), 64)
		if g != 0 && (g < 0) != (f < 0) {
			t.Failf("AppendFloat(%v,%d) appended %q: wrong sign", f, prec, out)
			return false
		}
		p := prec
		if p < 0 || 17 < p {
			p = 17
		}
		if p == 0 { // one digit promised, zero guaranteed by the tolerated exponent estimate: syntax and sign only
			m.count("appendfloat.prec0")
			return true
		}
		af, ag := math.Abs(f), math.Abs(g)
		if math.IsInf(ag, 0) && af >= math.MaxFloat64*(1-1e-14) {
			ag = math.MaxFloat64 // the literal is within 1e-14 of the argument but beyond the rounding boundary of MaxFloat64
		}
		if af == 0 {
			if ag != 0 {
				t.Failf("AppendFloat(%v,%d) appended %q, want zero", f, prec, out)
				return false
			}
			return true
		}
		// truncation window: at least p correct leading digits, never above |f|
		if math.IsInf(ag, 0) || ag > af*(1+1e-14)+c14Tiny {
			t.Failf("AppendFloat(%v,%d) appended %q = %v: magnitude above the argument (truncation expected)", f, prec, out, g)
			return false
		}
		if E := c14Exp10(f); af-ag >= math.Pow10(E-p+1)+1e-14*af+c14Tiny {
			t.Failf("AppendFloat(%v,%d) appended %q = %v: fewer than %d correct leading digits (|f|-|g| = %.3g >= 1e%d)", f, prec, out, g, p, af-ag, E-p+1)
			return false
		}
		if bytes.IndexByte(out, 'e') >= 0 {
			m.count("appendfloat.exponent-form")
		}
		return true
	})
}

// ---------------------------------------------------------------------------------------------
// AppendDecimal

// c14DecimalLiteral: -?d+(.d+)?
func c14DecimalLiteral(b []byte) bool {
	i := 0
	if i < len(b) && b[i] == '-' {
		i++
	}
	j := c14Digs(b, i)
	if j == i {
		return false
	}
	if j == len(b) {
		return true
	}
	return b[j] == '.' && j+1 < len(b) && c14Digs(b, j+1) == len(b)
}

// evalAppendDecimal: want != "" is the exact expected spelling of an exact tie (see c14Tie).
func (m *c14Mon) evalAppendDecimal(f float64, dec int, want string) bool {
	m.cs.Fn, m.cs.F, m.cs.Prec = "AppendDecimal", c14F(f), dec
	d := dec
	if d < 0 || 17 < d {
		d = 17
	}
	if math.Abs(f)*math.Pow10(d) >= 9.2e18 { // int64 conversion: outside the documented domain (finite f only; NaN/Inf compare false)
		m.count("appenddecimal.skipped-beyond-int64")
		return true
	}
	return m.appendBoth(func(dst []byte) []byte { return pstrconv.AppendDecimal(dst, f, dec) }, func(out []byte) bool {
		t := m.t
		m.count("appenddecimal.evals")
		if math.IsNaN(f) || math.IsInf(f, 0) {
			m.count("appenddecimal.nan-inf")
			if len(out) != 0 {
				t.Failf("AppendDecimal(%v,%d) appended %q, want nothing", f, dec, out)
				return false
			}
			return true
		}
		if !c14DecimalLiteral(out) {
			t.Failf("AppendDecimal(%v,%d) (dst %s) appended %q: not a well-formed decimal literal", f, dec, m.cs.Dst, out)
			return false
		}
		dot := bytes.IndexByte(out, '.')
		if dot >= 0 && out[len(out)-1] == '0' {
			t.Failf("AppendDecimal(%v,%d) appended %q: trailing zeros not dropped", f, dec, out)
			return false
		}
		if dot >= 0 {
			m.count("appenddecimal.fraction")
			if len(out)-dot-1 > d {
				t.Failf("AppendDecimal(%v,%d) appended %q: more than %d decimals", f, dec, out, d)
				return false
			}
		}
		g, _ := strconv.ParseFloat(string(out), 64)
		if g != 0 && (g < 0) != (f < 0) {
			t.Failf("AppendDecimal(%v,%d) appended %q: wrong sign", f, dec, out)
			return false
		}
		if -1 < f && f < 0 && g != 0 {
			m.count("appenddecimal.negative-fraction")
		}
		if math.Abs(g-f) > 0.5*math.Pow10(-d)*(1+1e-9)+1e-14*math.Abs(f) {
			t.Failf("AppendDecimal(%v,%d) appended %q: off by %.3g, more than half a unit of the last decimal", f, dec, out, math.Abs(g-f))
			return false
		}
		if want != "" {
			m.count("appenddecimal.ties")
			if w, _ := strconv.ParseFloat(want, 64); g != w {
				t.Failf("AppendDecimal(%v,%d) appended %q: exact tie must round half away from zero to %s", f, dec, out, want)
				return false
			}
		}
		return true
	})
}

// c14Tie builds an argument that is an exact tie at dec decimals: f = ±mant/2^(dec+1) with mant odd
// and mant*5^dec < 2^53, so that f*10^dec = mant*5^dec/2 exactly (also in float64 arithmetic).
// Rounding half away from zero gives N = (mant*5^dec+1)/2 units of 10^-dec.
func c14Tie(mant uint64, dec int, neg bool) (f float64, want string) {
	n := new(big.Int).Exp(big.NewInt(5), big.NewInt(int64(dec)), nil)
	n.Mul(n, new(big.Int).SetUint64(mant)).Add(n, big.NewInt(1)).Rsh(n, 1)
	s := n.String()
	for len(s) <= dec {
		s = "0" + s
	}
	if dec > 0 {
		s = strings.TrimRight(s[:len(s)-dec]+"."+s[len(s)-dec:], "0")
		s = strings.TrimSuffix(s, ".")
	}
	f = math.Ldexp(float64(mant), -(dec + 1))
	if neg {
		f, s = -f, "-"+s
	}
	return f, s
}

// ---------------------------------------------------------------------------------------------
// AppendNumber -> ParseNumber

func (m *c14Mon) evalNumber(num int64, dec, groupSize int, groupSym, decSym rune) bool {
	m.cs.Fn, m.cs.Int, m.cs.Prec, m.cs.GroupSize = "AppendNumber", num, dec, groupSize
	m.cs.GroupSym, m.cs.DecSym = fmt.Sprintf("%U", groupSym), fmt.Sprintf("%U", decSym)
	return m.appendBoth(func(dst []byte) []byte { return pstrconv.AppendNumber(dst, num, dec, groupSize, groupSym, decSym) }, func(out []byte) bool {
		m.count("number.evals")
		if utf8.RuneLen(groupSym) > 1 || utf8.RuneLen(decSym) > 1 {
			m.count("number.multibyte-symbol")
		}
		if groupSize > 0 && groupSym != 0 && bytes.ContainsRune(out, groupSym) {
			m.count("number.grouped")
		}
		var gnum int64
		var gdec, gn int
		cp := append([]byte(nil), out...)
		if !m.call(func() { gnum, gdec, gn = pstrconv.ParseNumber(cp, groupSym, decSym) }) {
			return false
		}
		if gnum != num || gdec != dec || gn != len(out) {
			m.t.Failf("AppendNumber(%d, dec=%d, group=%d, %U, %U) (dst %s) appended %q; ParseNumber returns (%d,%d,%d), want (%d,%d,%d)",
				num, dec, groupSize, groupSym, decSym, m.cs.Dst, out, gnum, gdec, gn, num, dec, len(out))
			return false
		}
		return true
	})
}

// ---------------------------------------------------------------------------------------------
// streams

// sampled non-triviality marking keeps the thorough tier's distinct set bounded
func c14Mark(t *fw.T, key string) {
	if !t.Thorough() || t.Index%16 == 0 {
		t.Nontrivial([]byte(key))
	}
}

func c14RunParse(t *fw.T) {
	m := newC14Mon(t)
	defer m.flush()
	b := c14GenNumStr(t.Rng)
	if m.evalParse(b) {
		if n, _ := c14NumPrefix(b, "+-", true); n >= 3 {
			c14Mark(t, string(b))
		}
		if t.Index%50000 == 0 {
			t.Sample(map[string]any{"input": b})
		}
	}
}

func c14RunInt(t *fw.T) {
	m := newC14Mon(t)
	defer m.flush()
	v := c14GenInt(t.Rng)
	if m.evalInt(v) && (v <= -10 || v >= 10) {
		c14Mark(t, strconv.FormatInt(v, 10))
	}
	if t.Index%50000 == 0 {
		t.Sample(map[string]any{"int": strconv.FormatInt(v, 10)})
	}
}

// one float argument x every precision -1..18, for both formatters; plus one exact tie
func c14RunFloat(t *fw.T) {
	m := newC14Mon(t)
	defer m.flush()
	r := t.Rng
	f := c14GenFloat(r)
	for prec := -1; prec <= 18; prec++ {
		if !m.evalAppendFloat(f, prec) || !m.evalAppendDecimal(f, prec, "") {
			return
		}
	}
	dec := r.Intn(18)
	pow5 := math.Pow(5, float64(dec))
	mant := uint64(r.Int63n(int64(math.Ldexp(1, 53)/pow5)/2))*2 + 1
	if r.Intn(3) == 0 {
		mant = uint64(r.Intn(50))*2 + 1
	}
	tf, want := c14Tie(mant, dec, r.Intn(2) == 0)
	req := dec
	if dec == 17 {
		req = gen.Pick(r, []int{17, -1, 18}) // out-of-range requests mean 17
	}
	if !m.evalAppendDecimal(tf, req, want) {
		return
	}
	if !math.IsNaN(f) && !math.IsInf(f, 0) && f != 0 {
		c14Mark(t, strconv.FormatUint(math.Float64bits(f), 16))
		t.Seen("float.exp10/10", strconv.Itoa(c14Exp10(f)/10))
	}
	if t.Index%50000 == 0 {
		t.Sample(map[string]any{"f": c14F(f), "tie": c14F(tf), "tieDec": req})
	}
}

func c14RunNumber(t *fw.T) {
	m := newC14Mon(t)
	defer m.flush()
	r := t.Rng
	num := c14GenInt(r)
	dec, groupSize := r.Intn(19), r.Intn(7)
	groupSym := c14GenSym(r)
	decSym := c14GenSym(r)
	for decSym == groupSym {
		decSym = c14GenSym(r)
	}
	if r.Intn(40) == 0 {
		groupSym = 0 // documented: no grouping
	}
	if m.evalNumber(num, dec, groupSize, groupSym, decSym) && (dec > 0 || num <= -1000 || num >= 1000) {
		c14Mark(t, fmt.Sprint(num, dec, groupSize, groupSym, decSym))
	}
	t.Seen("number.symbol-lengths", fmt.Sprint(utf8.RuneLen(groupSym), utf8.RuneLen(decSym)))
	if t.Index%50000 == 0 {
		t.Sample(map[string]any{"num": strconv.FormatInt(num, 10), "dec": dec, "groupSize": groupSize, "groupSym": fmt.Sprintf("%U", groupSym), "decSym": fmt.Sprintf("%U", decSym)})
	}
}

func init() {
	fw.Register(&fw.Prop{
		ID: "C14",
		Rule: "parse: one hostile numeric byte string (boundary integers, 17-21 digit mantissas, zero runs of up to 1200 digits, exponent windows around 0, ±22, ±37, ±308, ±323, " +
			"missing/zero-padded/up to 25-digit exponents, numeric-alphabet soup, junk tails) evaluated by ParseInt, ParseUint, ParseFloat and (when it begins with a decimal number) ParseDecimal " +
			"against math/big and strconv.ParseFloat of the longest documented prefix; non-trivial = float prefix of >= 3 bytes. " +
			"int: one int64 (limits, 10^k±2, uniform digit count) through AppendInt and LenInt vs strconv; non-trivial = |v| >= 10. " +
			"float: one float64 (bit patterns, powers of ten and neighbours, few-digit decimals, (-1,0), subnormals, 9.99…/1.00…01, dyadic ties) x precisions -1..18 through AppendFloat and AppendDecimal, " +
			"plus one exact tie m/2^(dec+1) through AppendDecimal; non-trivial = finite non-zero argument. " +
			"number: (int64, dec 0..18, group size 0..6, distinct symbols of 1-4 UTF-8 bytes) through AppendNumber then ParseNumber; non-trivial = dec > 0 or |num| >= 1000. " +
			"Every Append* call runs twice: dst without spare capacity and dst with spare capacity (0xA5 filled), prefix canary checked in the result and in the caller's array. " +
			"In the thorough tier only every 16th case is entered in the distinct non-trivial set.",
		Assume:   c14Assume,
		Required: c14Required,
		Streams: []fw.Stream{
			{Name: "probes", Quick: len(c14Probes), Thorough: len(c14Probes), Run: c14RunProbe},
			{Name: "parse", Quick: 800000, Thorough: 72000000, Run: c14RunParse},
			{Name: "int", Quick: 200000, Thorough: 12000000, Run: c14RunInt},
			{Name: "float", Quick: 200000, Thorough: 15000000, Run: c14RunFloat},
			{Name: "number", Quick: 400000, Thorough: 30000000, Run: c14RunNumber},
		},
	})
}

var c14Required = []string{"probes", "dst.tight", "dst.spare",
	"parseint.evals", "parseint.value", "parseint.overflow", "parseint.nodigits", "parseuint.evals", "parseuint.value", "parseuint.overflow",
	"parsefloat.evals", "parsefloat.exponent", "parsefloat.exponent-beyond-int64", "parsefloat.inf", "parsefloat.subnormal", "parsefloat.window-1e-299..1e-290", "parsefloat.nodigits", "parsedecimal.evals",
	"appendint.evals", "lenint.evals", "appendfloat.evals", "appendfloat.nan-inf", "appendfloat.exponent-form",
	"appenddecimal.evals", "appenddecimal.nan-inf", "appenddecimal.fraction", "appenddecimal.negative-fraction", "appenddecimal.ties",
	"number.evals", "number.multibyte-symbol", "number.grouped"}

var c14Assume = []string{
	"ParseFloat syntax: [+-]?(d+(.d*)?|.d+)([eE][+-]?d+)?; ParseInt: [+-]?d+; ParseUint: d+; ParseDecimal: -?(d+(.d*)?|.d+), evaluated only on inputs that begin with such a number",
	"ParseFloat/ParseDecimal value: |got-want| <= 1e-14*|want| + 4*2^-1074 against strconv.ParseFloat of the prefix (math/big with 300 bits for prefixes longer than 800 bytes, where strconv.ParseFloat itself mis-scales integer parts of more than 800 digits); an infinite reference demands the same infinity, except within 1e-14 of MaxFloat64 where either side may overflow; the sign of a zero result is not compared",
	"AppendFloat: well-formed = the whole output matches the ParseFloat syntax; for prec' = prec (17 when prec < 0 or > 17) >= 1 the value g parsed back satisfies |g| <= |f|(1+1e-14) and |f|-|g| < 10^(floor(log10|f|)-prec'+1) + 1e-14|f| (+ 4*2^-1074 absolute), i.e. at least prec' correct leading digits, truncated; prec' = 0: syntax and sign only",
	"AppendDecimal: well-formed = -?d+(.d+)? without trailing zeros and at most dec' decimals; |g-f| <= 0.5*10^-dec'(1+1e-9) + 1e-14|f|; arguments with |f|*10^dec' >= 9.2e18 are outside the domain; exact ties m/2^(dec'+1) with m*5^dec' < 2^53 must parse back to the value rounded half away from zero",
	"sign: a non-zero output must carry the sign of the argument; how a result that rounds to zero is spelled is not constrained",
	"AppendNumber symbols are valid runes other than ASCII digits and '-'; group symbol 0 means no grouping (documented by the code); dec in 0..18",
	"bytes written into spare capacity beyond the returned length are not constrained (append semantics)",
}
