package props

import (
	"bytes"
	"fmt"
	"io"
	"unicode/utf8"
	"unsafe"

	"github.com/tdewolff/parse/v2"
	"github.com/tdewolff/parse/v2/css"
	"github.com/tdewolff/parse/v2/html"
	"github.com/tdewolff/parse/v2/js"
	"github.com/tdewolff/parse/v2/xml"

	"vh/fw"
	"vh/gen"
)

// C02 — tokens are faithful, ordered, non-empty slices of the input (tiling monitor M-tile).

type c02Case struct {
	Lang string `json:"lang"`
	Ctor string `json:"ctor"`
	Data fw.B   `json:"data"`
}

// tileMon follows (token, offset-after-call) events.
type tileMon struct {
	t        *fw.T
	lang     string
	in       *parse.Input
	pristine []byte
	prevEnd  int
	strict   bool // no lexical error seen yet (CSS/JS: exact tiling + re-lex)
	ntok     int
	kinds    map[int]bool
	// regions in which the lexer may rewrite bytes: [a,b) pairs
	lowerOK [][2]int
	spaceOK [][2]int
}

func ptrOf(s []byte) uintptr { return uintptr(unsafe.Pointer(unsafe.SliceData(s))) }

// token checks the generic clauses for one returned token and returns its [a,b) span.
func (m *tileMon) token(kind int, isErr bool, tok []byte) (a, b int, ok bool) {
	b = m.in.Offset()
	L := m.in.Len()
	if b < m.prevEnd || b > L {
		m.t.Failf("%s: cursor offset %d after the call, previous token ended at %d, input has %d bytes", m.lang, b, m.prevEnd, L)
		return 0, 0, false
	}
	if isErr {
		if len(tok) > 0 {
			// an error token with text (JS): must still be the piece ending at the cursor
			if a = b - len(tok); a < m.prevEnd || !bytes.Equal(tok, m.in.Bytes()[a:b]) {
				m.t.Failf("%s: error token %s is not the input piece ending at offset %d (previous end %d)", m.lang, fw.Q(tok), b, m.prevEnd)
				return 0, 0, false
			}
		}
		// bytes moved over but not shifted by a failing call (JS "identifier after number") stay part of the
		// next token: the covered end is the start of the current selection
		return b - m.in.Pos(), b - m.in.Pos(), true
	}
	if len(tok) == 0 {
		m.t.Failf("%s: empty non-error token of kind %d at offset %d", m.lang, kind, b)
		return 0, 0, false
	}
	a = b - len(tok)
	if a < m.prevEnd {
		m.t.Failf("%s: token %s [%d,%d) overlaps the previous token ending at %d", m.lang, fw.Q(tok), a, b, m.prevEnd)
		return 0, 0, false
	}
	cur := m.in.Bytes()
	if !bytes.Equal(tok, cur[a:b]) {
		m.t.Failf("%s: token %s is not the input piece [%d,%d) = %s", m.lang, fw.Q(tok), a, b, fw.Q(cur[a:b]))
		return 0, 0, false
	}
	// appending to the token must not overwrite input bytes
	if b < L {
		saved := cur[b]
		_ = append(tok, saved^0xFF)
		if cur[b] != saved {
			cur[b] = saved
			m.t.Failf("%s: appending to token %s overwrote input byte %d (token has spare capacity into the input)", m.lang, fw.Q(tok), b)
			return 0, 0, false
		}
	}
	m.ntok++
	m.kinds[kind] = true
	return a, b, true
}

func (m *tileMon) sub(name string, tok, s []byte) bool {
	if len(s) == 0 {
		return true
	}
	if ptrOf(s) < ptrOf(tok) || ptrOf(s)+uintptr(len(s)) > ptrOf(tok)+uintptr(len(tok)) {
		m.t.Failf("%s: %s %s is not a sub-slice of its token %s", m.lang, name, fw.Q(s), fw.Q(tok))
		return false
	}
	return true
}

// finish compares the buffer with the pristine input: only the allowed rewrites, only in the allowed regions.
func (m *tileMon) finish() {
	cur := m.in.Bytes()
	if len(cur) != len(m.pristine) {
		m.t.Failf("%s: input length changed from %d to %d", m.lang, len(m.pristine), len(cur))
		return
	}
	inRegion := func(rs [][2]int, i int) bool {
		for _, r := range rs {
			if r[0] <= i && i < r[1] {
				return true
			}
		}
		return false
	}
	for i := range cur {
		if cur[i] == m.pristine[i] {
			continue
		}
		o, n := m.pristine[i], cur[i]
		switch {
		case m.lang == "html" && 'A' <= o && o <= 'Z' && n == o+('a'-'A') && inRegion(m.lowerOK, i):
			m.t.Count("html.bytes_lowercased", 1)
		case m.lang == "xml" && (o == '\t' || o == '\n' || o == '\r') && n == ' ' && inRegion(m.spaceOK, i):
			m.t.Count("xml.bytes_spaced", 1)
		default:
			m.t.Failf("%s: input byte %d changed from %#x to %#x (not an allowed rewrite / outside a name or quoted attribute value)", m.lang, i, o, n)
			return
		}
	}
}

func isTagWS(c byte) bool { return c == ' ' || c == '\t' || c == '\n' || c == '\r' || c == '\f' }

func c02Run(lang string) func(t *fw.T) {
	return func(t *fw.T) {
		r := t.Rng
		li := langs[lang]
		maxLen := 200
		if r.Intn(30) == 0 {
			maxLen = 20000
		}
		_ = li
		data := hostileInput(r, lang, maxLen)
		if lang == "js" {
			data = gen.ToValidUTF8(data)
		}
		ctor := gen.Pick(r, inputCtors)
		t.Desc(&c02Case{Lang: lang, Ctor: ctor, Data: data})
		c02Check(t, lang, data, ctor, r.Intn(7))
	}
}

func c02Check(t *fw.T, lang string, data []byte, ctor string, variant int) {
	in, _ := mkInput(t.Rng, data, ctor)
	m := &tileMon{t: t, lang: lang, in: in, pristine: append([]byte(nil), data...), strict: true, kinds: map[int]bool{}}
	maxCalls := 4*len(data) + 64
	switch lang {
	case "css":
		l := css.NewLexer(in)
		for i := 0; i < maxCalls; i++ {
			tt, tok := l.Next()
			a, b, ok := m.token(int(tt), tt == css.ErrorToken, tok)
			if !ok {
				return
			}
			if tt == css.ErrorToken {
				if l.Err() != io.EOF || b != in.Len() {
					m.strict = false // not reachable for the CSS lexer; kept for symmetry
				}
				break
			}
			if a != m.prevEnd {
				t.Failf("css: bytes [%d,%d) = %s skipped before token %s", m.prevEnd, a, fw.Q(in.Bytes()[m.prevEnd:a]), fw.Q(tok))
				return
			}
			// re-lex the token text alone
			l2 := css.NewLexer(parse.NewInputBytes(append(make([]byte, 0, len(tok)), tok...)))
			tt2, tok2 := l2.Next()
			tt3, _ := l2.Next()
			if tt2 != tt || !bytes.Equal(tok2, tok) || tt3 != css.ErrorToken {
				t.Failf("css: token %s(%s) lexed alone gives %s(%s) then %s", tt, fw.Q(tok), tt2, fw.Q(tok2), tt3)
				return
			}
			t.Count("relex", 1)
			m.prevEnd = b
		}
	case "js":
		l := js.NewLexer(in)
		useRegExp := variant%2 == 1
		prevSignificant := js.ErrorToken
		for i := 0; i < maxCalls; i++ {
			tt, tok := l.Next()
			viaRegExp := false
			if useRegExp && m.strict && (tt == js.DivToken || tt == js.DivEqToken) && !jsEndsExpr(prevSignificant) {
				tt, tok = l.RegExp()
				viaRegExp = true
			}
			isErr := tt == js.ErrorToken
			a, b, ok := m.token(int(tt), isErr, tok)
			if !ok {
				return
			}
			if isErr {
				if l.Err() == io.EOF && b == in.Len() && len(tok) == 0 {
					break
				}
				m.strict = false
				m.prevEnd = b
				if len(tok) == 0 && viaRegExp {
					// RegExp() failed without consuming a token: lexing goes on
				}
				continue
			}
			if m.strict {
				if a != m.prevEnd {
					t.Failf("js: bytes [%d,%d) = %s skipped before token %s", m.prevEnd, a, fw.Q(in.Bytes()[m.prevEnd:a]), fw.Q(tok))
					return
				}
				if !c02RelexJS(t, tt, tok, viaRegExp, a, in.Bytes()) {
					return
				}
			}
			if tt != js.WhitespaceToken && tt != js.LineTerminatorToken && tt != js.CommentToken && tt != js.CommentLineTerminatorToken {
				prevSignificant = tt
			}
			m.prevEnd = b
		}
	case "html":
		var l *html.Lexer
		if variant == 0 || variant > 3 {
			l = html.NewLexer(in)
		} else {
			l = html.NewTemplateLexer(in, [][2]string{html.GoTemplate, html.EJSTemplate, html.PHPTemplate}[variant-1])
		}
		inTag := false
		for i := 0; i < maxCalls; i++ {
			before := in.Offset()
			tt, tok := l.Next()
			a, b, ok := m.token(int(tt), tt == html.ErrorToken, tok)
			if !ok {
				return
			}
			if tt == html.ErrorToken {
				if b == in.Len() && before == b {
					break
				}
				// an error report covers the bytes the failing call consumed; when they begin with a start tag
				// (foreign element cut short by NUL) its name may have been lower-cased
				if cur := in.Bytes(); m.prevEnd < b && cur[m.prevEnd] == '<' {
					e := m.prevEnd + 1
					for e < b && !isTagWS(cur[e]) && cur[e] != '>' && cur[e] != '/' && cur[e] != 0 {
						e++
					}
					m.lowerOK = append(m.lowerOK, [2]int{m.prevEnd + 1, e})
				}
				m.strict = false
				m.prevEnd = b
				inTag = false
				continue
			}
			if !m.sub("Text()", tok, l.Text()) || !m.sub("AttrVal()", tok, l.AttrVal()) {
				return
			}
			if a != m.prevEnd {
				gap := in.Bytes()[m.prevEnd:a]
				for _, c := range gap {
					if !isTagWS(c) {
						t.Failf("html: bytes [%d,%d) = %s before token %s(%s) are covered by no token and are not whitespace", m.prevEnd, a, fw.Q(gap), tt, fw.Q(tok))
						return
					}
				}
				if !inTag && m.strict {
					t.Failf("html: whitespace %s skipped outside a tag before %s(%s)", fw.Q(gap), tt, fw.Q(tok))
					return
				}
				t.Count("html.gaps", 1)
			}
			switch tt {
			case html.StartTagToken, html.SVGToken, html.MathToken, html.XMLToken:
				n := len(l.Text())
				if tt != html.StartTagToken {
					// the name of a foreign element: letters after '<'
					n = 0
					for 1+n < len(tok) && isASCIILetter(tok[1+n]) {
						n++
					}
				}
				m.lowerOK = append(m.lowerOK, [2]int{a + 1, a + 1 + n})
				inTag = tt == html.StartTagToken
			case html.AttributeToken:
				if k := l.AttrKey(); len(k) > 0 {
					ka := a + int(ptrOf(k)-ptrOf(tok))
					m.lowerOK = append(m.lowerOK, [2]int{ka, ka + len(k)})
				}
			case html.EndTagToken:
				m.lowerOK = append(m.lowerOK, [2]int{a, b})
			case html.StartTagCloseToken, html.StartTagVoidToken:
				inTag = false
			}
			m.prevEnd = b
		}
	case "xml":
		l := xml.NewLexer(in)
		inTag := false
		for i := 0; i < maxCalls; i++ {
			before := in.Offset()
			tt, tok := l.Next()
			a, b, ok := m.token(int(tt), tt == xml.ErrorToken, tok)
			if !ok {
				return
			}
			if tt == xml.ErrorToken {
				if before == b {
					break // end of input or the sticky NUL error
				}
				m.strict = false
				m.prevEnd = b
				continue
			}
			if !m.sub("Text()", tok, l.Text()) || !m.sub("AttrVal()", tok, l.AttrVal()) {
				return
			}
			if a != m.prevEnd {
				gap := in.Bytes()[m.prevEnd:a]
				for _, c := range gap {
					if !(c == ' ' || c == '\t' || c == '\n' || c == '\r') {
						t.Failf("xml: bytes [%d,%d) = %s before token %s(%s) are covered by no token and are not whitespace", m.prevEnd, a, fw.Q(gap), tt, fw.Q(tok))
						return
					}
				}
				if !inTag {
					t.Failf("xml: whitespace %s skipped outside a tag before %s(%s)", fw.Q(gap), tt, fw.Q(tok))
					return
				}
				t.Count("xml.gaps", 1)
			}
			switch tt {
			case xml.StartTagToken, xml.StartTagPIToken:
				inTag = true
			case xml.AttributeToken:
				if v := l.AttrVal(); len(v) >= 2 && (v[0] == '"' || v[0] == '\'') {
					va := a + int(ptrOf(v)-ptrOf(tok))
					m.spaceOK = append(m.spaceOK, [2]int{va + 1, va + len(v)})
				}
			case xml.StartTagCloseToken, xml.StartTagCloseVoidToken, xml.StartTagClosePIToken:
				inTag = false
			}
			m.prevEnd = b
		}
	}
	if t.Failed() {
		return
	}
	m.finish()
	t.Count("tokens."+lang, m.ntok)
	for k := range m.kinds {
		t.Seen("kinds."+lang, fmt.Sprint(k))
	}
	if m.ntok >= 3 && len(m.kinds) >= 2 {
		t.Nontrivial(append([]byte(lang+ctor), data...))
	}
	t.Sample(map[string]any{"lang": lang, "ctor": ctor, "data": data, "tokens": m.ntok})
}

func isASCIILetter(c byte) bool { return 'a' <= c && c <= 'z' || 'A' <= c && c <= 'Z' }

// jsEndsExpr: after these tokens a '/' is a division in well-formed code; used only to decide when the
// harness asks for RegExp() (a failed RegExp() ends the strict clauses, it is never a violation by itself).
func jsEndsExpr(tt js.TokenType) bool {
	switch tt {
	case js.IdentifierToken, js.CloseParenToken, js.CloseBracketToken, js.CloseBraceToken, js.StringToken, js.TemplateToken, js.TemplateEndToken,
		js.RegExpToken, js.PrivateIdentifierToken, js.ThisToken, js.SuperToken, js.NullToken, js.TrueToken, js.FalseToken, js.IncrToken, js.DecrToken:
		return true
	}
	return js.IsNumeric(tt) || (js.IsIdentifierName(tt) && !js.IsReservedWord(tt))
}

// c02RelexJS lexes the text of one token on its own under the goal symbol it belongs to.
func c02RelexJS(t *fw.T, tt js.TokenType, tok []byte, viaRegExp bool, a int, buf []byte) bool {
	cp := func(prefix string) *parse.Input {
		b := make([]byte, 0, len(prefix)+len(tok))
		b = append(append(b, prefix...), tok...)
		return parse.NewInputBytes(b)
	}
	var tt2, tt3 js.TokenType
	var tok2 []byte
	switch {
	case viaRegExp:
		l2 := js.NewLexer(cp(""))
		if ft, _ := l2.Next(); ft != js.DivToken && ft != js.DivEqToken {
			t.Failf("js: regexp %s alone does not start with / or /=", fw.Q(tok))
			return false
		}
		tt2, tok2 = l2.RegExp()
		tt3, _ = l2.Next()
	case tt == js.TemplateMiddleToken || tt == js.TemplateEndToken:
		l2 := js.NewLexer(cp("`${"))
		l2.Next()
		tt2, tok2 = l2.Next()
		if tt == js.TemplateMiddleToken {
			tt3 = js.ErrorToken // what follows an open substitution is not constrained
		} else {
			tt3, _ = l2.Next()
		}
	case tt == js.CommentToken && bytes.HasPrefix(tok, []byte("-->")):
		// an HTML-like close comment is a comment only at the start of a line; the start of the input is one, so the
		// token lexed on its own is the same comment again
		l2 := js.NewLexer(cp(""))
		tt2, tok2 = l2.Next()
		tt3, _ = l2.Next()
	case tt == js.TemplateStartToken:
		l2 := js.NewLexer(cp(""))
		tt2, tok2 = l2.Next()
		tt3 = js.ErrorToken
	default:
		l2 := js.NewLexer(cp(""))
		tt2, tok2 = l2.Next()
		tt3, _ = l2.Next()
	}
	if tt2 != tt || !bytes.Equal(tok2, tok) || tt3 != js.ErrorToken {
		t.Failf("js: token %s(%s) at offset %d lexed alone gives %s(%s) then %s", tt, fw.Q(tok), a, tt2, fw.Q(tok2), tt3)
		return false
	}
	t.Count("relex", 1)
	return true
}

// c02Generated feeds the tiling monitor with documents of the grammar generators, so that every token kind occurs.
func c02Generated(t *fw.T) {
	r := t.Rng
	var lang string
	var src []byte
	variant := 0
	switch r.Intn(4) {
	case 0:
		lang = "css"
		s, _ := gen.CSSSequence(r, 1+gen.SmallLen(r, 40))
		src = []byte(s)
	case 1:
		lang = "js"
		s, _ := gen.JSSequence(r, 1+gen.SmallLen(r, 60))
		src = gen.ToValidUTF8([]byte(s))
		variant = r.Intn(2) * 0 // RegExp() is exercised by C06; here the plain Next() sequence is tiled
	case 2:
		lang = "html"
		variant = r.Intn(4)
		o := gen.HTMLOpts{}
		if variant >= 1 && variant <= 3 {
			o.Tmpl = [][2]string{htmlDialects["go"], htmlDialects["ejs"], htmlDialects["php"]}[variant-1]
		}
		s, _ := gen.HTMLDoc(r, o)
		src = []byte(s)
	default:
		lang = "xml"
		s, _ := gen.XMLDoc(r)
		src = []byte(s)
	}
	ctor := gen.Pick(r, inputCtors)
	t.Desc(&c02Case{Lang: lang + " (generated)", Ctor: ctor, Data: src})
	c02Check(t, lang, src, ctor, variant)
	t.Count("generated."+lang, 1)
}

var c02Probes = []struct{ name, lang, data string }{
	{"js-hash-sentinel", "js", "#"},
	{"js-tilde-eq", "js", "a~=b"},
	{"js-number-ident", "js", "0xg 1_.a"},
	{"html-endtag-case", "html", "<A HREF=x></A FOO>"},
	{"xml-attr-ws", "xml", "<a b=\"c\td\ne\">"},
	{"css-bad-url", "css", "a{b:url(x y)}"},
}

func c02Probe(t *fw.T) {
	p := c02Probes[t.Index%len(c02Probes)]
	t.Key("probe:" + p.name)
	t.Desc(&c02Case{Lang: p.lang, Ctor: "all", Data: []byte(p.data)})
	for _, ctor := range inputCtors {
		for v := 0; v < 4; v++ {
			c02Check(t, p.lang, []byte(p.data), ctor, v)
		}
	}
	t.Count("probes", 1)
	t.Nontrivial([]byte(p.name))
}

func init() {
	fw.Register(&fw.Prop{
		ID: "C02",
		Rule: "case = (lexer css|js|html(+3 template dialects)|xml, Input constructor, hostile byte string; valid UTF-8 for js); every token is checked against the input buffer at the offset reported after the call " +
			"(content, order, non-emptiness, no spare capacity into the input), css/js tokens before the first lexical error must tile exactly and re-lex to themselves under their goal symbol, html/xml gaps must be tag-internal whitespace, " +
			"Text/AttrKey/AttrVal must be sub-slices (pointer range), and the buffer is diffed with a pristine copy for rewrites outside the allowed regions. non-trivial = >= 3 tokens of >= 2 kinds; distinct by lexer+constructor+bytes",
		Assume: []string{"html: A-Z->a-z is allowed inside a start-tag name, an attribute key and anywhere in an end-tag token (the lexer lower-cases the whole end tag)",
			"xml: tab/newline/CR -> space strictly inside a quoted attribute value",
			"bytes consumed by a call that reports an error are covered by that report; after the first error only the generic clauses (content, order, inside the input) apply",
			"js RegExp() is requested where a regular expression can start in well-formed code; a failing RegExp() counts as the first lexical error"},
		Required: []string{"generated.css", "generated.js", "generated.html", "generated.xml", "tokens.css", "tokens.js", "tokens.html", "tokens.xml", "relex", "html.bytes_lowercased", "xml.bytes_spaced", "html.gaps", "xml.gaps", "probes"},
		Streams: []fw.Stream{
			{Name: "probes", Quick: len(c02Probes), Thorough: len(c02Probes), Run: c02Probe},
			{Name: "css", Quick: 500000, Thorough: 36000000, Run: c02Run("css")},
			{Name: "js", Quick: 500000, Thorough: 36000000, Run: c02Run("js")},
			{Name: "html", Quick: 600000, Thorough: 42000000, Run: c02Run("html")},
			{Name: "xml", Quick: 400000, Thorough: 30000000, Run: c02Run("xml")},
			{Name: "generated", Quick: 300000, Thorough: 24000000, Run: c02Generated},
		},
	})
}

var _ = utf8.RuneError
