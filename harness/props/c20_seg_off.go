//go:build race

package props

// The data-segment monitor needs address arithmetic that checkptr (implied by -race) forbids; the segment
// stream is NoRace. These stubs keep the race build compiling.

type c20Seg struct {
	syms    []struct{ name string }
	bytes   int
	slide   uintptr
	vars    []struct{ name string }
	regions int
	deepErr string
	err     string
}

func c20SegAvailable() bool                            { return false }
func c20SegBaseline() *c20Seg                          { return &c20Seg{err: "race build"} }
func (s *c20Seg) diff(includeOwn bool) []string        { return nil }
func (s *c20Seg) selfTest(k int) (ok bool, why string) { return false, "race build" }
