//go:build race

package props

import (
	"fmt"
	"os"
	"path/filepath"
	"runtime"
	"syscall"
)

// c19RaceCount is the number of data races the race detector has reported in this process so far.
func c19RaceCount() int { return runtime.RaceErrors() }

// c19CaptureStderr points file descriptor 2 (where the race detector writes its reports) at a scratch file
// and returns a function that restores it, forwards the captured text to the real stderr and returns it.
func c19CaptureStderr() func() string {
	dir := os.Getenv("VH_SCRATCH")
	if dir == "" {
		dir = os.TempDir()
	}
	name := filepath.Join(dir, fmt.Sprintf("c19-stderr-%d", os.Getpid()))
	f, err := os.OpenFile(name, os.O_CREATE|os.O_TRUNC|os.O_RDWR, 0o600)
	if err != nil {
		return func() string { return "" }
	}
	saved, err := syscall.Dup(2)
	if err != nil {
		f.Close()
		os.Remove(name)
		return func() string { return "" }
	}
	syscall.Dup3(int(f.Fd()), 2, 0)
	return func() string {
		syscall.Dup3(saved, 2, 0)
		syscall.Close(saved)
		f.Close()
		b, _ := os.ReadFile(name)
		os.Remove(name)
		os.Stderr.Write(b)
		return string(b)
	}
}
