package props

import (
	"math"
	"math/big"
	"math/rand"
	"strconv"

	"vh/gen"
)

// Workload generators of C14. Everything is drawn from the *rand.Rand of the case.

var c14Alphabet = []byte("0123456789+-.eE")

func c14RandDigits(r *rand.Rand, b []byte, n int) []byte {
	for i := 0; i < n; i++ {
		b = append(b, byte('0'+r.Intn(10)))
	}
	return b
}

// c14BoundaryInt returns the decimal spelling (with sign for negative values) of an integer at a
// digit-count or word-size boundary, +-3.
func c14BoundaryInt(r *rand.Rand) string {
	x := new(big.Int)
	switch r.Intn(7) {
	case 0:
		x.SetInt64(math.MaxInt64)
	case 1:
		x.SetInt64(math.MinInt64)
	case 2:
		x.SetUint64(math.MaxUint64)
	case 3:
		x.Lsh(big.NewInt(1), uint(r.Intn(70))) // 2^k, includes 2^53, 2^63, 2^64
	case 4:
		x.SetUint64(math.MaxUint64 / 10) // the guard value of the multiply-add overflow test
	case 5:
		x.SetInt64(math.MaxInt64 / 10)
	default:
		x.Exp(big.NewInt(10), big.NewInt(int64(r.Intn(23))), nil) // 10^k: LenUint switch
	}
	x.Add(x, big.NewInt(int64(r.Intn(7)-3)))
	if r.Intn(4) == 0 {
		x.Neg(x)
	}
	if r.Intn(6) == 0 { // one more digit appended: overflow by a factor ten
		x.Mul(x, big.NewInt(10)).Add(x, big.NewInt(int64(r.Intn(10))))
	}
	return x.String()
}

// c14ExpWindow returns a decimal exponent of the result at which the scaling code changes path.
func c14ExpWindow(r *rand.Rand) int {
	switch r.Intn(12) {
	case 0:
		return r.Intn(5) - 2
	case 1:
		return gen.Pick(r, []int{15, 22, 23, 37, 38}) + r.Intn(3) - 1
	case 2:
		return -gen.Pick(r, []int{15, 22, 23, 37, 38}) + r.Intn(3) - 1
	case 3:
		return 300 + r.Intn(12) // 308: overflow
	case 4:
		return -(285 + r.Intn(25)) // 1e-291 (AppendFloat), 1e-299..1e-290, -308 (end of the normal range)
	case 5:
		return -(318 + r.Intn(10)) // -323/-324: end of the subnormal range
	case 6:
		return r.Intn(801) - 400
	default:
		return r.Intn(61) - 30
	}
}

// c14GenNumStr returns a hostile numeric byte string for the four parsers.
func c14GenNumStr(r *rand.Rand) []byte {
	var b []byte
	switch r.Intn(10) {
	case 0: // soup over the numeric alphabet
		n := gen.SmallLen(r, 24)
		for i := 0; i < n; i++ {
			b = append(b, gen.Pick(r, c14Alphabet))
		}
		return b
	case 1, 2: // integer at a boundary, optional explicit plus, optional fraction/exponent/tail below
		s := c14BoundaryInt(r)
		if s[0] != '-' && r.Intn(5) == 0 {
			b = append(b, '+')
		}
		b = append(b, s...)
		if r.Intn(3) > 0 {
			return c14Tail(r, b)
		}
		if r.Intn(2) == 0 {
			b = append(b, '.')
			b = c14RandDigits(r, b, r.Intn(4))
		}
		return c14Tail(r, c14Exponent(r, b, len(s)-1))
	}
	// sign
	switch r.Intn(8) {
	case 0:
		b = append(b, '+')
	case 1, 2:
		b = append(b, '-')
	}
	// mantissa; lead = decimal exponent of its first significant digit (approximately)
	lead := 0
	switch r.Intn(8) {
	case 0, 1, 2: // plain: li integer digits, lf fraction digits
		li := gen.Pick(r, []int{0, 1, 1, 2, 3, 5, 9, 15, 16, 17, 18, 19, 20, 21, 22, 25, 30, 40})
		if r.Intn(3) == 0 {
			b = append(b, '0')
			b = c14RandDigits(r, b, li)
		} else if li > 0 {
			b = append(b, byte('1'+r.Intn(9)))
			b = c14RandDigits(r, b, li-1)
		}
		lead = li - 1
		lf := gen.Pick(r, []int{-1, -1, 0, 1, 2, 3, 6, 14, 15, 16, 17, 18, 19, 20, 21, 22, 30})
		if li == 0 && lf < 1 && r.Intn(4) > 0 {
			lf = 1 + r.Intn(5)
		}
		if lf >= 0 {
			b = append(b, '.')
			b = c14RandDigits(r, b, lf)
		}
	case 3: // leading zeros behind the dot: 0.000ddd
		z := r.Intn(31)
		if k := r.Intn(30); k == 0 {
			z = 1000 + r.Intn(200) // beyond ParseDecimal's own exponent guard (-1022)
		} else if k < 6 {
			z = 280 + r.Intn(70)
		}
		if r.Intn(2) == 0 {
			b = append(b, '0')
		}
		b = append(b, '.')
		for i := 0; i < z; i++ {
			b = append(b, '0')
		}
		b = append(b, byte('1'+r.Intn(9)))
		b = c14RandDigits(r, b, gen.Pick(r, []int{0, 1, 5, 16, 17, 18, 19, 25}))
		lead = -z - 1
	case 4: // trailing zeros: ddd000…0[.][0…]
		n := 1 + r.Intn(20)
		b = append(b, byte('1'+r.Intn(9)))
		b = c14RandDigits(r, b, n-1)
		z := r.Intn(46)
		if k := r.Intn(30); k == 0 {
			z = 1000 + r.Intn(200) // beyond ParseDecimal's own exponent guard (1023)
		} else if k < 6 {
			z = 280 + r.Intn(70)
		}
		for i := 0; i < z; i++ {
			b = append(b, '0')
		}
		lead = n + z - 1
		if r.Intn(2) == 0 {
			b = append(b, '.')
			b = c14RandDigits(r, b, r.Intn(4))
		}
	case 5: // word-size boundary as mantissa
		s := c14BoundaryInt(r)
		if s[0] == '-' {
			s = s[1:]
		}
		b = append(b, s...)
		lead = len(s) - 1
		if r.Intn(2) == 0 {
			b = append(b, '.')
			b = c14RandDigits(r, b, r.Intn(4))
		}
	case 6: // all nines / one followed by zeros and a one: rounding at digit-count boundaries
		n := 1 + r.Intn(24)
		d := byte('9')
		if r.Intn(2) == 0 {
			d = '0'
			b = append(b, '1')
		}
		dot := r.Intn(n + 1)
		for i := 0; i < n; i++ {
			if i == dot {
				b = append(b, '.')
			}
			b = append(b, d)
		}
		if d == '0' {
			b = append(b, '1')
		}
		lead = dot
	default: // short decimal
		b = c14RandDigits(r, b, 1+r.Intn(4))
		lead = 1
		if r.Intn(2) == 0 {
			b = append(b, '.')
			b = c14RandDigits(r, b, 1+r.Intn(4))
		}
	}
	return c14Tail(r, c14Exponent(r, b, lead))
}

// c14Exponent appends an exponent part (or none) chosen so that the value lands in an interesting
// window; lead is the decimal exponent of the mantissa's leading digit.
func c14Exponent(r *rand.Rand, b []byte, lead int) []byte {
	k := r.Intn(20)
	if k < 6 {
		return b
	}
	b = append(b, gen.Pick(r, []byte("eE")))
	sign := func(e int) {
		if e < 0 {
			b = append(b, '-')
		} else if r.Intn(3) == 0 {
			b = append(b, '+')
		}
	}
	switch {
	case k == 6: // no exponent digits: the 'e' is not part of the number
		if r.Intn(2) == 0 {
			b = append(b, gen.Pick(r, []byte("+-")))
		}
	case k == 7: // long exponents, within and beyond int64 (MaxInt64 has 19 digits)
		sign(r.Intn(2) - 1)
		if r.Intn(3) == 0 {
			b = append(b, gen.Pick(r, []string{"9223372036854775807", "9223372036854775808", "9223372036854775809", "18446744073709551616", "99999999999999999999"})...)
		} else {
			b = append(b, byte('1'+r.Intn(9)))
			b = c14RandDigits(r, b, 3+r.Intn(22))
		}
	case k == 8: // zero padded
		e := c14ExpWindow(r) - lead
		sign(e)
		for i := r.Intn(25); i >= 0; i-- {
			b = append(b, '0')
		}
		b = strconv.AppendInt(b, int64(c14abs(e)), 10)
	default:
		e := c14ExpWindow(r) - lead
		sign(e)
		b = strconv.AppendInt(b, int64(c14abs(e)), 10)
	}
	return b
}

func c14abs(x int) int {
	if x < 0 {
		return -x
	}
	return x
}

// c14Tail appends nothing, bytes of the numeric alphabet, or junk.
func c14Tail(r *rand.Rand, b []byte) []byte {
	switch r.Intn(8) {
	case 0, 1:
		for i := 1 + r.Intn(3); i > 0; i-- {
			b = append(b, gen.Pick(r, c14Alphabet))
		}
	case 2:
		b = append(b, gen.Pick(r, []byte("ax ,_/:\x00\xff\x80pP")))
		b = c14RandDigits(r, b, r.Intn(3))
	}
	return b
}

// c14GenInt returns an int64 for AppendInt/LenInt/AppendNumber.
func c14GenInt(r *rand.Rand) int64 {
	var v int64
	switch r.Intn(8) {
	case 0:
		return gen.Pick(r, []int64{0, 1, -1, 9, 10, -9, -10, math.MaxInt64, math.MinInt64, math.MinInt64 + 1})
	case 1:
		v = math.MaxInt64 - int64(r.Intn(4))
	case 2:
		return math.MinInt64 + int64(r.Intn(4))
	case 3, 4: // 10^k + {-2..2}: every arm of the digit-count switch from both sides
		v = 1
		for k := r.Intn(19); k > 0; k-- {
			v *= 10
		}
		v += int64(r.Intn(5) - 2)
	case 5:
		v = int64(r.Uint64())
		return v
	default: // uniform digit count
		v = int64(r.Uint64() >> 1)
		for k := r.Intn(19); k > 0; k-- {
			v /= 10
		}
	}
	if r.Intn(2) == 0 {
		v = -v
	}
	return v
}

// c14GenFloat returns a float64 argument for AppendFloat/AppendDecimal.
func c14GenFloat(r *rand.Rand) float64 {
	var f float64
	switch r.Intn(13) {
	case 0: // any bit pattern (NaN and infinities included)
		return math.Float64frombits(r.Uint64())
	case 1: // bit patterns with a moderate exponent: the domain of AppendDecimal
		bits := r.Uint64()&^(0x7ff<<52) | uint64(1023-64+r.Intn(130))<<52
		return math.Float64frombits(bits)
	case 2: // powers of ten and their neighbours
		f = math.Pow10(r.Intn(308+323+1) - 323)
		for k := r.Intn(4); k > 0; k-- {
			f = math.Nextafter(f, math.Inf(r.Intn(2)*2-1))
		}
	case 3, 4: // few-digit decimals k/10^d, also with fewer digits than decimals requested
		m := 1 + r.Intn(17)
		k := r.Int63n(int64(math.Pow10(m)))
		d := r.Intn(21)
		f, _ = strconv.ParseFloat(strconv.FormatInt(k, 10)+"e-"+strconv.Itoa(d), 64)
	case 5: // (0,1) at several scales
		f = r.Float64() * math.Pow10(-r.Intn(20))
	case 6: // integers around 2^53, 2^63, 10^k
		switch r.Intn(3) {
		case 0:
			f = float64(c14GenInt(r))
		case 1:
			f = math.Ldexp(1, 50+r.Intn(16)) + float64(r.Intn(9)-4)
		default:
			f = math.Pow10(r.Intn(23)) + float64(r.Intn(5)-2)
		}
	case 7: // subnormals
		switch r.Intn(3) {
		case 0:
			f = math.Float64frombits(r.Uint64() >> uint(12+r.Intn(52)))
		case 1:
			f = math.Float64frombits(uint64(1 + r.Intn(2000)))
		default:
			f = math.Float64frombits(1<<52 - uint64(r.Intn(3))) // around the smallest normal
		}
	case 8: // windows of the scaling code
		f, _ = strconv.ParseFloat(strconv.Itoa(1+r.Intn(9999))+"e"+strconv.Itoa(c14ExpWindow(r)), 64)
		if math.IsInf(f, 0) {
			f = math.MaxFloat64
		}
	case 9: // specials
		return gen.Pick(r, []float64{0, math.Copysign(0, -1), math.NaN(), math.Inf(1), math.Inf(-1), 1, -1, 0.1, -0.1, 0.5, -0.5,
			math.MaxFloat64, -math.MaxFloat64, math.SmallestNonzeroFloat64, -math.SmallestNonzeroFloat64, 1e18, 1e19, 9.223372036854775807e18, 0.001, 0.0001, 123.456, -75.8077501})
	case 10: // 9.99…e±k and 1.00…01e±k: digit-count boundaries of the mantissa
		n := 1 + r.Intn(17)
		s := "9."
		if r.Intn(2) == 0 {
			s = "1."
			for i := 1; i < n; i++ {
				s += "0"
			}
			s += "1"
		} else {
			for i := 0; i < n; i++ {
				s += "9"
			}
		}
		f, _ = strconv.ParseFloat(s+"e"+strconv.Itoa(r.Intn(61)-30), 64)
	case 11: // random significant digits, exponent windows
		s := strconv.Itoa(1+r.Intn(9)) + "."
		for i := r.Intn(17); i > 0; i-- {
			s += strconv.Itoa(r.Intn(10))
		}
		f, _ = strconv.ParseFloat(s+"e"+strconv.Itoa(c14ExpWindow(r)), 64)
		if math.IsInf(f, 0) {
			f = math.MaxFloat64
		}
	default: // dyadic rationals m/2^j: exact ties of the decimal rounding
		f = math.Ldexp(float64(1+2*r.Intn(1<<uint(1+r.Intn(20)))), -(1 + r.Intn(18)))
	}
	if r.Intn(3) == 0 {
		f = -f
	}
	return f
}

// c14GenSym returns a group/decimal symbol: a valid rune of 1-4 UTF-8 bytes that is not an ASCII
// digit or the minus sign (those are part of the number itself).
func c14GenSym(r *rand.Rand) rune {
	for {
		var s rune
		if r.Intn(3) > 0 {
			s = gen.Pick(r, []rune{'.', ',', ' ', '\'', '_', '+', 0x7f, 0x80, 0xa0, 0xb7, 0x66b, 0x66c, 0x7ff, 0x800, 0x2009, 0x202f, 0x2019, 0xfffd, 0xffff, 0x10000, 0x1f600, 0x10ffff})
		} else {
			s = gen.Rune(r)
		}
		if ('0' <= s && s <= '9') || s == '-' {
			continue
		}
		return s
	}
}
