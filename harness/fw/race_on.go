//go:build race

package fw

const RaceEnabled = true
