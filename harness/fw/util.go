package fw

import (
	"encoding/base64"
	"fmt"
	"unicode/utf8"
)

// B renders a byte string for replay files / samples: a %q text for the reader and base64 for
// exact reproduction.
type B []byte

func (b B) MarshalJSON() ([]byte, error) {
	if utf8.Valid(b) && len(b) <= 400 {
		return []byte(fmt.Sprintf(`{"q":%q,"b64":%q}`, fmt.Sprintf("%q", []byte(b)), base64.StdEncoding.EncodeToString(b))), nil
	}
	n := len(b)
	head := b
	if n > 200 {
		head = b[:200]
	}
	return []byte(fmt.Sprintf(`{"len":%d,"q_head":%q,"b64":%q}`, n, fmt.Sprintf("%q", []byte(head)), base64.StdEncoding.EncodeToString(b))), nil
}

// Printable converts raw []byte / nested maps of them to values that marshal readably.
func Printable(v any) any {
	switch x := v.(type) {
	case []byte:
		return B(x)
	case map[string]any:
		m := map[string]any{}
		for k, e := range x {
			m[k] = Printable(e)
		}
		return m
	case []any:
		r := make([]any, len(x))
		for i, e := range x {
			r[i] = Printable(e)
		}
		return r
	}
	return v
}

// Q is a short %q with length cap, for messages.
func Q(b []byte) string {
	if len(b) > 300 {
		return fmt.Sprintf("%q…(%d bytes)", b[:300], len(b))
	}
	return fmt.Sprintf("%q", b)
}
