// Package fw is the small runtime-monitoring framework shared by all property checks:
// deterministic case derivation from (seed, property, stream, index), child-process workers with
// crash attribution, three-valued verdicts, evidence and replay files.
package fw

import (
	"crypto/sha256"
	"encoding/binary"
	"encoding/json"
	"fmt"
	"hash/fnv"
	"math/rand"
	"os"
	"runtime/debug"
	"sort"
	"strings"
	"sync"
	"syscall"
	"time"
)

// Stream is one named workload of a property. Case i of a stream is fully determined by
// (VERIF_SEED, property, stream name, i).
type Stream struct {
	Name     string
	Quick    int // number of cases in the quick tier
	Thorough int // number of cases in the thorough tier
	Run      func(t *T)
	// Serial streams run in one worker only (e.g. memory measurements that must not share a process
	// with 15 siblings fighting for RAM). Default: sharded over all workers.
	Serial bool
	// Race streams only run in the -race build; NoRace streams only in the plain build.
	Race   bool
	NoRace bool
	// MinNontrivial: the run is INCONCLUSIVE if fewer non-trivial cases than this were seen (quick tier;
	// scaled for thorough). 0 = at least 1.
	MinNontrivial int
}

// Prop is a property check.
type Prop struct {
	ID      string
	Rule    string // how cases are generated and what makes one non-trivial
	Assume  []string
	Streams []Stream
	// Required counters: the run is INCONCLUSIVE when one of these is zero at the end (a monitor that saw
	// nothing, a hook never reached).
	Required []string
}

var registry = map[string]*Prop{}

func Register(p *Prop) { registry[p.ID] = p }
func Lookup(id string) *Prop {
	return registry[id]
}
func IDs() []string {
	var ids []string
	for id := range registry {
		ids = append(ids, id)
	}
	sort.Strings(ids)
	return ids
}

// Violation is one refuting observation.
type Violation struct {
	Property string          `json:"property"`
	Stream   string          `json:"stream"`
	Index    int             `json:"index"`
	Seed     int64           `json:"seed"`
	Tier     string          `json:"tier"`
	Key      string          `json:"key,omitempty"` // stable name for fixed probes
	Message  string          `json:"message"`
	Case     json.RawMessage `json:"case,omitempty"`
}

// Stats is what a worker reports.
type Stats struct {
	Cases      int64               `json:"cases"`
	Counters   map[string]int64    `json:"counters"`
	Distinct   map[string][]uint64 `json:"distinct"` // set name -> hashes
	Nontrivial []uint64            `json:"nontrivial"`
	Samples    map[string][]any    `json:"samples"`
	Violations []Violation         `json:"violations"`
	Known      []Violation         `json:"known"`
}

// W is the per-worker accumulator.
type W struct {
	Prop *Prop
	Tier string
	Seed int64

	mu         sync.Mutex
	cases      int64
	counters   map[string]int64
	distinct   map[string]map[uint64]struct{}
	nontrivial map[uint64]struct{}
	samples    map[string][]any
	violations []Violation
	known      []Violation

	cur      *T
	curStart time.Time
	curCPU   time.Duration
	progress *os.File
}

func NewW(p *Prop, tier string, seed int64) *W {
	return &W{Prop: p, Tier: tier, Seed: seed,
		counters: map[string]int64{}, distinct: map[string]map[uint64]struct{}{},
		nontrivial: map[uint64]struct{}{}, samples: map[string][]any{}}
}

// T is the handle a stream's Run function gets for one case.
type T struct {
	w      *W
	Stream string
	Index  int
	Tier   string
	Rng    *rand.Rand
	desc   any
	key    string
	failed bool
	nmsgs  int
	ntDone bool
}

func caseSeed(seed int64, prop, stream string, index int) int64 {
	h := sha256.New()
	fmt.Fprintf(h, "%d|%s|%s|%d", seed, prop, stream, index)
	s := h.Sum(nil)
	return int64(binary.LittleEndian.Uint64(s[:8]) &^ (1 << 63))
}

// Thorough reports whether the thorough tier is running.
func (t *T) Thorough() bool { return t.Tier == "thorough" }

// Desc records the description of the case (input bytes, configuration, op script) used for the
// replay file and evidence samples. Call it before touching the library.
func (t *T) Desc(d any) { t.desc = d }

// Key gives a fixed probe its stable name (matched against known_findings.jsonl).
func (t *T) Key(k string) { t.key = k }

// Failf records a violation for the current case.
func (t *T) Failf(format string, a ...any) {
	t.nmsgs++
	if t.failed {
		return // one violation per case is enough
	}
	t.failed = true
	msg := fmt.Sprintf(format, a...)
	if len(msg) > 4000 {
		msg = msg[:4000] + "…"
	}
	var raw json.RawMessage
	if t.desc != nil {
		raw, _ = json.Marshal(Printable(t.desc))
	}
	v := Violation{Property: t.w.Prop.ID, Stream: t.Stream, Index: t.Index, Seed: t.w.Seed, Tier: t.w.Tier,
		Key: t.key, Message: msg, Case: raw}
	t.w.mu.Lock()
	t.w.violations = append(t.w.violations, v)
	t.w.mu.Unlock()
}

func (t *T) Failed() bool { return t.failed }

// Count adds n to a named counter (events observed by a monitor).
func (t *T) Count(name string, n int) {
	t.w.mu.Lock()
	t.w.counters[name] += int64(n)
	t.w.mu.Unlock()
}

// Seen records membership of key in a named set (distinct token kinds, states, pairs …).
func (t *T) Seen(set, key string) {
	h := fnv.New64a()
	h.Write([]byte(key))
	t.w.mu.Lock()
	m := t.w.distinct[set]
	if m == nil {
		m = map[uint64]struct{}{}
		t.w.distinct[set] = m
	}
	m[h.Sum64()] = struct{}{}
	t.w.mu.Unlock()
}

// Nontrivial marks the current case as non-trivial; key identifies the case content for distinctness.
func (t *T) Nontrivial(key []byte) {
	if t.ntDone {
		return // one entry per case: distinct_nontrivial never exceeds the number of cases
	}
	t.ntDone = true
	h := fnv.New64a()
	h.Write([]byte(t.Stream))
	h.Write([]byte{0})
	h.Write(key)
	t.w.mu.Lock()
	t.w.nontrivial[h.Sum64()] = struct{}{}
	t.w.mu.Unlock()
}

// Sample keeps up to 3 samples per stream for the evidence file.
func (t *T) Sample(v any) {
	t.w.mu.Lock()
	if len(t.w.samples[t.Stream]) < 3 {
		t.w.samples[t.Stream] = append(t.w.samples[t.Stream], Printable(v))
	}
	t.w.mu.Unlock()
}

// Guard runs f and converts a panic into a violation message (returned, not recorded).
func Guard(f func()) (panicked string) {
	defer func() {
		if r := recover(); r != nil {
			st := string(debug.Stack())
			// keep the library frames
			lines := strings.Split(st, "\n")
			var keep []string
			for i := 0; i < len(lines) && len(keep) < 12; i++ {
				if l := strings.TrimSpace(lines[i]); strings.HasPrefix(l, "github.com/tdewolff/parse") {
					if j := strings.IndexByte(l, '('); j > 0 && !strings.Contains(l[:j], ".go") {
						if k := strings.LastIndex(l[:j], "/"); k >= 0 {
							l = l[k+1 : j]
						}
					}
					if len(keep) < 6 {
						keep = append(keep, l)
					}
				}
			}
			panicked = fmt.Sprintf("panic: %v [%s]", r, strings.Join(keep, " <- "))
		}
	}()
	f()
	return ""
}

// cpuNow returns the CPU time used by this process.
func cpuNow() time.Duration {
	var ru syscall.Rusage
	syscall.Getrusage(syscall.RUSAGE_SELF, &ru)
	return time.Duration(ru.Utime.Nano() + ru.Stime.Nano())
}

// RunCase executes one case of a stream with panic capture.
func (w *W) RunCase(s *Stream, index int) {
	t := &T{w: w, Stream: s.Name, Index: index, Tier: w.Tier,
		Rng: rand.New(rand.NewSource(caseSeed(w.Seed, w.Prop.ID, s.Name, index)))}
	w.mu.Lock()
	w.cur = t
	w.curStart = time.Now()
	w.curCPU = cpuNow()
	w.cases++
	w.mu.Unlock()
	if w.progress != nil {
		var b [96]byte
		line := fmt.Sprintf("%s %d\n", s.Name, index)
		copy(b[:], line)
		for i := len(line); i < len(b); i++ {
			b[i] = ' '
		}
		b[len(b)-1] = '\n'
		w.progress.WriteAt(b[:], 0)
	}
	if p := Guard(func() { s.Run(t) }); p != "" {
		t.Failf("%s", p)
	}
	w.mu.Lock()
	w.cur = nil
	w.mu.Unlock()
}

// Current returns the running case and how much CPU it used so far.
func (w *W) Current() (stream string, index int, cpu time.Duration, wall time.Duration, ok bool) {
	w.mu.Lock()
	defer w.mu.Unlock()
	if w.cur == nil {
		return "", 0, 0, 0, false
	}
	return w.cur.Stream, w.cur.Index, cpuNow() - w.curCPU, time.Since(w.curStart), true
}

func (w *W) SetProgressFile(f *os.File) { w.progress = f }

func (w *W) NViolations() int {
	w.mu.Lock()
	defer w.mu.Unlock()
	return len(w.violations)
}

func (w *W) Stats() *Stats {
	w.mu.Lock()
	defer w.mu.Unlock()
	st := &Stats{Cases: w.cases, Counters: w.counters, Distinct: map[string][]uint64{}, Samples: w.samples,
		Violations: w.violations, Known: w.known}
	for k, m := range w.distinct {
		for h := range m {
			st.Distinct[k] = append(st.Distinct[k], h)
		}
	}
	for h := range w.nontrivial {
		st.Nontrivial = append(st.Nontrivial, h)
	}
	return st
}

// N returns the number of cases of s in tier.
func (s *Stream) N(tier string) int {
	if tier == "thorough" {
		if s.Thorough > 0 {
			return s.Thorough
		}
		return s.Quick
	}
	return s.Quick
}

// DescBytes returns the JSON form of the recorded case description (used as distinctness key).
func (t *T) DescBytes() []byte {
	b, _ := json.Marshal(Printable(t.desc))
	return b
}
