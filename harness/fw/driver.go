package fw

import (
	"bufio"
	"bytes"
	"crypto/sha1"
	"encoding/json"
	"fmt"
	"os"
	"os/exec"
	"path/filepath"
	"runtime"
	"sort"
	"strconv"
	"strings"
	"sync"
	"time"
)

// Main dispatches the vh sub-commands.
func Main() {
	if len(os.Args) < 2 {
		usage()
	}
	switch os.Args[1] {
	case "run": // vh run <ID> <tier>
		if len(os.Args) < 4 {
			usage()
		}
		os.Exit(parent(os.Args[2], os.Args[3]))
	case "worker": // vh worker <ID> <tier> <seed> <shard> <nshards> <outdir> <streams csv> [fromStream fromIndex]
		os.Exit(worker(os.Args[2:]))
	case "one": // vh one <ID> <tier> <seed> <stream> <index>
		os.Exit(one(os.Args[2:]))
	case "replay": // vh replay <file>
		os.Exit(replay(os.Args[2]))
	case "list":
		for _, id := range IDs() {
			fmt.Println(id)
		}
	default:
		usage()
	}
}

func usage() {
	fmt.Fprintln(os.Stderr, "usage: vh run <ID> <quick|thorough> | vh replay <file> | vh one <ID> <tier> <seed> <stream> <index>")
	os.Exit(64)
}

func envInt(name string, def int64) int64 {
	if s := os.Getenv(name); s != "" {
		if v, err := strconv.ParseInt(s, 10, 64); err == nil {
			return v
		}
	}
	return def
}

func scale() float64 {
	if s := os.Getenv("VH_SCALE"); s != "" {
		if v, err := strconv.ParseFloat(s, 64); err == nil && v > 0 {
			return v
		}
	}
	return 1
}

func (s *Stream) count(tier string) int {
	if s.N(tier) <= 2000 && scale() < 1 {
		return s.N(tier) // fixed probes and small enumerations are never scaled down
	}
	n := float64(s.N(tier)) * scale()
	if n < 1 && s.N(tier) > 0 {
		n = 1
	}
	return int(n)
}

// outDir is where evidence and replay files go: the verification directory, except in self-test runs against a
// scratch copy of the repository (VERIF_REPO in ./check), which must not overwrite the evidence of the real tree.
func outDir() string {
	if d := os.Getenv("VH_OUT_DIR"); d != "" {
		return d
	}
	return verifDir()
}

func verifDir() string {
	if d := os.Getenv("VERIF_DIR"); d != "" {
		return d
	}
	return "/verif"
}

// CPU-time rule (see DESIGN §2): a single case may burn this much CPU before it is re-run alone.
var caseCPULimit = envSeconds("VH_CASE_CPU", 90)
var soloCPULimit = envSeconds("VH_SOLO_CPU", 600)

// envSeconds: the CPU limits can be lowered for the mutation self-test (tools/mutate.py), where hanging mutants are
// frequent; the registered commands do not set these variables.
func envSeconds(name string, def int) time.Duration {
	if s := os.Getenv(name); s != "" {
		if v, err := strconv.Atoi(s); err == nil && v > 0 {
			return time.Duration(v) * time.Second
		}
	}
	return time.Duration(def) * time.Second
}

func worker(a []string) int {
	if len(a) < 7 {
		usage()
	}
	p := Lookup(a[0])
	if p == nil {
		fmt.Fprintln(os.Stderr, "unknown property", a[0])
		return 64
	}
	tier := a[1]
	seed, _ := strconv.ParseInt(a[2], 10, 64)
	shard, _ := strconv.Atoi(a[3])
	nshards, _ := strconv.Atoi(a[4])
	outdir := a[5]
	want := map[string]bool{}
	for _, s := range strings.Split(a[6], ",") {
		want[s] = true
	}
	fromStream, fromIndex := "", -1
	if len(a) >= 9 {
		fromStream = a[7]
		fromIndex, _ = strconv.Atoi(a[8])
	}
	w := NewW(p, tier, seed)
	pf, err := os.OpenFile(filepath.Join(outdir, fmt.Sprintf("progress-%d", shard)), os.O_CREATE|os.O_WRONLY, 0o644)
	if err != nil {
		fmt.Fprintln(os.Stderr, err)
		return 70
	}
	w.SetProgressFile(pf)
	limit := caseCPULimit
	if os.Getenv("VH_SOLO") != "" {
		limit = soloCPULimit
	}
	go func() { // CPU watchdog
		for {
			time.Sleep(500 * time.Millisecond)
			if st, idx, cpu, wall, ok := w.Current(); ok && (cpu > limit || wall > 4*limit) {
				os.WriteFile(filepath.Join(outdir, fmt.Sprintf("hang-%d", shard)), []byte(fmt.Sprintf("%s %d cpu=%v wall=%v\n", st, idx, cpu, wall)), 0o644)
				writeStats(w, outdir, shard)
				os.Exit(3)
			}
		}
	}()
	skipping := fromStream != ""
	for i := range p.Streams {
		s := &p.Streams[i]
		if !want[s.Name] {
			continue
		}
		start := 0
		if skipping {
			if s.Name != fromStream {
				continue
			}
			skipping = false
			start = fromIndex + 1
		}
		n := s.count(tier)
		for idx := start; idx < n; idx++ {
			if idx%nshards != shard {
				continue
			}
			w.RunCase(s, idx)
			if w.NViolations() >= 25 {
				goto done
			}
		}
	}
done:
	writeStats(w, outdir, shard)
	return 0
}

func writeStats(w *W, outdir string, shard int) {
	b, _ := json.Marshal(w.Stats())
	// several generations if the worker was restarted after a crash
	for g := 0; ; g++ {
		name := filepath.Join(outdir, fmt.Sprintf("stats-%d-%d.json", shard, g))
		if _, err := os.Stat(name); err == nil {
			continue
		}
		os.WriteFile(name, b, 0o644)
		return
	}
}

func one(a []string) int {
	if len(a) < 5 {
		usage()
	}
	p := Lookup(a[0])
	if p == nil {
		fmt.Fprintln(os.Stderr, "unknown property", a[0])
		return 64
	}
	seed, _ := strconv.ParseInt(a[2], 10, 64)
	idx, _ := strconv.Atoi(a[4])
	w := NewW(p, a[1], seed)
	limit := soloCPULimit
	go func() {
		for {
			time.Sleep(500 * time.Millisecond)
			if _, _, cpu, wall, ok := w.Current(); ok && (cpu > limit || wall > 4*limit) {
				fmt.Println("HANG cpu", cpu, "wall", wall)
				os.Exit(3)
			}
		}
	}()
	for i := range p.Streams {
		s := &p.Streams[i]
		if s.Name == a[3] {
			if (s.Race && !RaceEnabled) || (s.NoRace && RaceEnabled) {
				fmt.Println("SKIP wrong build for stream")
				return 4
			}
			w.RunCase(s, idx)
			st := w.Stats()
			b, _ := json.Marshal(st.Violations)
			fmt.Printf("ONE-RESULT %s\n", b)
			if len(st.Violations) > 0 {
				return 1
			}
			return 0
		}
	}
	fmt.Fprintln(os.Stderr, "unknown stream", a[3])
	return 64
}

func replay(file string) int {
	b, err := os.ReadFile(file)
	if err != nil {
		fmt.Fprintln(os.Stderr, err)
		return 66
	}
	var v Violation
	if err := json.Unmarshal(b, &v); err != nil {
		fmt.Fprintln(os.Stderr, err)
		return 65
	}
	bin := binFor(Lookup(v.Property), v.Stream)
	cmd := exec.Command(bin, "one", v.Property, v.Tier, strconv.FormatInt(v.Seed, 10), v.Stream, strconv.Itoa(v.Index))
	cmd.Stdout, cmd.Stderr = os.Stdout, os.Stderr
	if err := cmd.Run(); err != nil {
		fmt.Printf("VIOLATION property=%s replay=%s\n", v.Property, file)
		return 1
	}
	fmt.Println("replay: case passes on this tree")
	return 0
}

func binFor(p *Prop, stream string) string {
	self, _ := os.Executable()
	if p == nil {
		return self
	}
	for i := range p.Streams {
		if p.Streams[i].Name == stream && p.Streams[i].Race {
			if rb := os.Getenv("VH_RACE_BIN"); rb != "" {
				return rb
			}
		}
	}
	if pb := os.Getenv("VH_PLAIN_BIN"); pb != "" {
		return pb
	}
	return self
}

type knownRec struct {
	Status   string `json:"status"`
	Property string `json:"property"`
	Key      string `json:"key"`
	What     string `json:"what"`
	Commit   string `json:"commit,omitempty"`
}

func loadKnown(prop string) map[string]knownRec {
	m := map[string]knownRec{}
	f, err := os.Open(filepath.Join(verifDir(), "known_findings.jsonl"))
	if err != nil {
		return m
	}
	defer f.Close()
	sc := bufio.NewScanner(f)
	sc.Buffer(make([]byte, 1<<20), 1<<20)
	for sc.Scan() {
		line := bytes.TrimSpace(sc.Bytes())
		if len(line) == 0 || line[0] == '#' {
			continue
		}
		var r knownRec
		if json.Unmarshal(line, &r) == nil && r.Property == prop && r.Status == "known" {
			m[r.Key] = r
		}
	}
	return m
}

type phase struct {
	name    string
	bin     string
	streams []string
	workers int
}

func parent(id, tier string) int {
	t0 := time.Now()
	p := Lookup(id)
	if p == nil {
		fmt.Fprintln(os.Stderr, "unknown property", id)
		return 64
	}
	if tier != "quick" && tier != "thorough" {
		usage()
	}
	seed := envInt("VERIF_SEED", 0)
	vd := verifDir()
	os.MkdirAll(filepath.Join(outDir(), "evidence"), 0o755)
	os.MkdirAll(filepath.Join(outDir(), "replays"), 0o755)
	work, err := os.MkdirTemp(filepath.Join(vd, ".work"), id+"-")
	if err != nil {
		os.MkdirAll(filepath.Join(vd, ".work"), 0o755)
		work, err = os.MkdirTemp(filepath.Join(vd, ".work"), id+"-")
		if err != nil {
			fmt.Fprintln(os.Stderr, err)
			return 70
		}
	}
	defer os.RemoveAll(work)
	os.Setenv("VH_SCRATCH", work)
	known := loadKnown(id)

	ncpu := runtime.NumCPU()
	if v := envInt("VH_WORKERS", 0); v > 0 {
		ncpu = int(v)
	}
	self, _ := os.Executable()
	var sharded, serial, race []string
	for _, s := range p.Streams {
		switch {
		case s.Race:
			race = append(race, s.Name)
		case s.Serial:
			serial = append(serial, s.Name)
		default:
			sharded = append(sharded, s.Name)
		}
	}
	var phases []phase
	if len(sharded) > 0 {
		phases = append(phases, phase{"main", self, sharded, ncpu})
	}
	if len(serial) > 0 {
		phases = append(phases, phase{"serial", self, serial, 1})
	}
	if len(race) > 0 {
		rb := os.Getenv("VH_RACE_BIN")
		if rb == "" {
			fmt.Printf("INCONCLUSIVE property=%s reason=race binary not built\n", id)
			return 2
		}
		phases = append(phases, phase{"race", rb, race, 4})
	}

	agg := &Stats{Counters: map[string]int64{}, Samples: map[string][]any{}}
	distinct := map[string]map[uint64]struct{}{}
	nontrivial := map[uint64]struct{}{}
	var inconclusive []string
	var crashViol []Violation

	for _, ph := range phases {
		dir := filepath.Join(work, ph.name)
		os.MkdirAll(dir, 0o755)
		var wg sync.WaitGroup
		var mu sync.Mutex
		for k := 0; k < ph.workers; k++ {
			wg.Add(1)
			go func(k int) {
				defer wg.Done()
				fromStream, fromIndex := "", -1
				for restarts := 0; restarts < 40; restarts++ {
					args := []string{"worker", id, tier, strconv.FormatInt(seed, 10), strconv.Itoa(k), strconv.Itoa(ph.workers), dir, strings.Join(ph.streams, ",")}
					if fromStream != "" {
						args = append(args, fromStream, strconv.Itoa(fromIndex))
					}
					logf := filepath.Join(dir, fmt.Sprintf("log-%d-%d", k, restarts))
					lf, _ := os.Create(logf)
					cmd := exec.Command(ph.bin, args...)
					cmd.Stdout, cmd.Stderr = lf, lf
					cmd.Env = append(os.Environ(), "GOTRACEBACK=single")
					err := cmd.Run()
					lf.Close()
					if err == nil {
						return
					}
					// the worker died: attribute to the last started case
					pb, _ := os.ReadFile(filepath.Join(dir, fmt.Sprintf("progress-%d", k)))
					f := strings.Fields(string(pb))
					if len(f) < 2 {
						mu.Lock()
						inconclusive = append(inconclusive, fmt.Sprintf("worker %d of phase %s died before its first case: %v (%s)", k, ph.name, err, tailFile(logf, 400)))
						mu.Unlock()
						return
					}
					st := f[0]
					idx, _ := strconv.Atoi(f[1])
					v, verdict := confirm(p, ph.bin, tier, seed, st, idx, tailFile(logf, 1500))
					mu.Lock()
					switch verdict {
					case "violation":
						crashViol = append(crashViol, v)
					case "inconclusive":
						inconclusive = append(inconclusive, v.Message)
					}
					mu.Unlock()
					fromStream, fromIndex = st, idx
				}
				mu.Lock()
				inconclusive = append(inconclusive, fmt.Sprintf("worker %d restarted too often", k))
				mu.Unlock()
			}(k)
		}
		wg.Wait()
		files, _ := filepath.Glob(filepath.Join(dir, "stats-*.json"))
		sort.Strings(files)
		for _, f := range files {
			b, err := os.ReadFile(f)
			if err != nil {
				continue
			}
			var st Stats
			if json.Unmarshal(b, &st) != nil {
				continue
			}
			agg.Cases += st.Cases
			for k, v := range st.Counters {
				agg.Counters[k] += v
			}
			for k, hs := range st.Distinct {
				m := distinct[k]
				if m == nil {
					m = map[uint64]struct{}{}
					distinct[k] = m
				}
				for _, h := range hs {
					m[h] = struct{}{}
				}
			}
			for _, h := range st.Nontrivial {
				nontrivial[h] = struct{}{}
			}
			for k, v := range st.Samples {
				if len(agg.Samples[k]) < 3 {
					agg.Samples[k] = append(agg.Samples[k], v...)
					if len(agg.Samples[k]) > 3 {
						agg.Samples[k] = agg.Samples[k][:3]
					}
				}
			}
			agg.Violations = append(agg.Violations, st.Violations...)
		}
	}
	agg.Violations = append(agg.Violations, crashViol...)

	// classify violations
	sort.SliceStable(agg.Violations, func(i, j int) bool {
		a, b := agg.Violations[i], agg.Violations[j]
		if a.Stream != b.Stream {
			return a.Stream < b.Stream
		}
		return a.Index < b.Index
	})
	nviol := 0
	seenKnown := map[string]bool{}
	for _, v := range agg.Violations {
		if v.Key != "" {
			if r, ok := known[v.Key]; ok {
				if !seenKnown[v.Key] {
					fmt.Printf("KNOWN-FINDING: property=%s %s\n", id, r.What)
					seenKnown[v.Key] = true
				}
				continue
			}
		}
		nviol++
		if nviol <= 12 {
			b, _ := json.MarshalIndent(v, "", " ")
			h := sha1.Sum([]byte(fmt.Sprintf("%s|%s|%d|%d|%s", v.Property, v.Stream, v.Index, v.Seed, v.Tier)))
			rel := filepath.Join("replays", fmt.Sprintf("%s-%x.json", id, h[:6]))
			os.WriteFile(filepath.Join(outDir(), rel), b, 0o644)
			fmt.Printf("VIOLATION property=%s replay=%s\n", id, rel)
			fmt.Printf("  stream=%s index=%d key=%s: %s\n", v.Stream, v.Index, v.Key, oneLine(v.Message, 600))
		}
	}
	if nviol > 12 {
		fmt.Printf("  … %d violations in total (first 12 listed)\n", nviol)
	}

	// non-triviality / required monitors
	if nviol == 0 {
		for _, r := range p.Required {
			if agg.Counters[r] == 0 && len(distinct[r]) == 0 {
				inconclusive = append(inconclusive, "monitor counter "+r+" is zero: nothing observed")
			}
		}
		if len(nontrivial) < 2 {
			inconclusive = append(inconclusive, fmt.Sprintf("only %d distinct non-trivial cases", len(nontrivial)))
		}
	}

	// evidence
	cov := map[string]any{
		"evaluations":         agg.Cases,
		"distinct_nontrivial": len(nontrivial),
		"rule":                p.Rule,
		"counters":            agg.Counters,
	}
	var samples []any
	var names []string
	for k := range agg.Samples {
		names = append(names, k)
	}
	sort.Strings(names)
	for _, k := range names {
		for _, s := range agg.Samples[k] {
			samples = append(samples, map[string]any{"stream": k, "case": s})
		}
	}
	if len(samples) == 0 {
		samples = append(samples, "no samples recorded")
	}
	cov["samples"] = samples
	dc := map[string]int{}
	for k, m := range distinct {
		dc[k] = len(m)
	}
	cov["distinct_sets"] = dc
	streams := map[string]int{}
	for i := range p.Streams {
		streams[p.Streams[i].Name] = p.Streams[i].count(tier)
	}
	cov["streams"] = streams
	if len(inconclusive) > 0 {
		cov["inconclusive"] = inconclusive
	}
	var knownList []string
	for k := range seenKnown {
		knownList = append(knownList, k)
	}
	sort.Strings(knownList)
	cov["known_findings_reproduced"] = knownList
	ev := map[string]any{
		"property_id": id, "tier": tier, "seed": seed, "level": "exploration",
		"coverage": cov, "assumptions": p.Assume, "wall_s": time.Since(t0).Seconds(), "violations": nviol,
	}
	eb, _ := json.MarshalIndent(ev, "", " ")
	os.WriteFile(filepath.Join(outDir(), "evidence", id+".json"), eb, 0o644)

	fmt.Printf("%s %s seed=%d: %d cases, %d distinct non-trivial, %d violations, %.1fs\n", id, tier, seed, agg.Cases, len(nontrivial), nviol, time.Since(t0).Seconds())
	var cn []string
	for k := range agg.Counters {
		cn = append(cn, k)
	}
	sort.Strings(cn)
	for _, k := range cn {
		fmt.Printf("  observed %-40s %d\n", k, agg.Counters[k])
	}
	var dn []string
	for k := range dc {
		dn = append(dn, k)
	}
	sort.Strings(dn)
	for _, k := range dn {
		fmt.Printf("  distinct %-40s %d\n", k, dc[k])
	}
	if nviol > 0 {
		return 1
	}
	if len(inconclusive) > 0 {
		for _, s := range inconclusive {
			fmt.Printf("INCONCLUSIVE property=%s reason=%s\n", id, oneLine(s, 600))
		}
		return 2
	}
	return 0
}

// confirm re-runs one case alone in a fresh child.
func confirm(p *Prop, bin, tier string, seed int64, stream string, idx int, crashLog string) (Violation, string) {
	cmd := exec.Command(bin, "one", p.ID, tier, strconv.FormatInt(seed, 10), stream, strconv.Itoa(idx))
	var out bytes.Buffer
	cmd.Stdout, cmd.Stderr = &out, &out
	cmd.Env = append(os.Environ(), "GOTRACEBACK=single", "VH_SOLO=1")
	err := cmd.Run()
	v := Violation{Property: p.ID, Stream: stream, Index: idx, Seed: seed, Tier: tier}
	if err == nil {
		v.Message = fmt.Sprintf("worker died at %s/%d but the case passes alone; first death: %s", stream, idx, crashLog)
		return v, "inconclusive"
	}
	o := out.String()
	if i := strings.Index(o, "ONE-RESULT "); i >= 0 {
		var vs []Violation
		line := o[i+len("ONE-RESULT "):]
		if j := strings.IndexByte(line, '\n'); j >= 0 {
			line = line[:j]
		}
		if json.Unmarshal([]byte(line), &vs) == nil && len(vs) > 0 {
			return vs[0], "violation"
		}
	}
	if strings.Contains(o, "HANG cpu") {
		v.Message = "case does not return within the solo CPU limit: " + oneLine(o, 300)
		if p.ID == "C01" {
			return v, "violation"
		}
		return v, "inconclusive"
	}
	v.Message = "child process died (fatal error, not recoverable): " + fatalSummary(o)
	return v, "violation"
}

func fatalSummary(o string) string {
	lines := strings.Split(o, "\n")
	var keep []string
	for _, l := range lines {
		if strings.HasPrefix(l, "fatal error") || strings.HasPrefix(l, "runtime: goroutine stack exceeds") || strings.HasPrefix(l, "panic:") || strings.HasPrefix(l, "WARNING: DATA RACE") || strings.HasPrefix(l, "signal:") {
			keep = append(keep, l)
		}
		if strings.Contains(l, "tdewolff/parse") && len(keep) < 10 {
			keep = append(keep, strings.TrimSpace(l))
		}
	}
	if len(keep) == 0 {
		return oneLine(o, 500)
	}
	return strings.Join(keep, " | ")
}

func tailFile(name string, n int) string {
	b, _ := os.ReadFile(name)
	s := string(b)
	// prefer the head of a fatal error
	if i := strings.Index(s, "fatal error"); i >= 0 {
		s = s[i:]
		if len(s) > n {
			s = s[:n]
		}
		return oneLine(s, n)
	}
	if len(s) > n {
		s = s[len(s)-n:]
	}
	return oneLine(s, n)
}

func oneLine(s string, n int) string {
	s = strings.ReplaceAll(s, "\n", " ⏎ ")
	if len(s) > n {
		s = s[:n] + "…"
	}
	return s
}
