package gen

import (
	"fmt"
	"math/rand"
	"strings"
)

// CSSUnit is one expected grammar unit of the CSS parser.
type CSSUnit struct {
	Grammar string   // css.GrammarType.String()
	Data    string   // expected data (lower-cased name, "}" …)
	Values  []CSSTok // expected Values()
	// StripLeadingWS: the statement is silent about whitespace between an at-keyword and the first prelude token
	StripLeadingWS bool
}

type cssSheetGen struct {
	r      *rand.Rand
	sb     strings.Builder
	units  []CSSUnit
	budget int
	inline bool
	attrWS bool // whitespace may be generated inside attribute selectors (top-level selectors only)
}

func (g *cssSheetGen) w(s string) { g.sb.WriteString(s) }

var cssWSChars = []string{" ", " ", " ", "\n", "\t", "\r\n", "\f", "  "}

// ws writes optional insignificant whitespace/comments.
func (g *cssSheetGen) optws() {
	r := g.r
	for i := r.Intn(3); i > 0 && r.Intn(2) == 0; i-- {
		if r.Intn(4) == 0 {
			g.w("/* c */")
		} else {
			g.w(Pick(r, cssWSChars))
		}
	}
}

// sigws writes whitespace that must contain at least one whitespace character (comments may accompany it).
func (g *cssSheetGen) sigws() {
	r := g.r
	if r.Intn(6) == 0 {
		g.w("/*c*/")
	}
	g.w(Pick(r, cssWSChars))
	if r.Intn(6) == 0 {
		g.w("/**/")
		if r.Intn(2) == 0 {
			g.w(" ")
		}
	}
}

func (g *cssSheetGen) simpleIdent() string {
	return Pick(g.r, []string{"a", "b", "div", "red", "solid", "auto", "sans-serif", "x1", "_y", "-moz-z", "inherit", "none", "é", "color", "Foo"})
}

var wsTok = CSSTok{"Whitespace", " "}

// valueTokens generates a declaration value: tokens plus the expected Values() after the parser's whitespace rules.
func (g *cssSheetGen) valueTokens(depth int) (src string, want []CSSTok) {
	r := g.r
	type vt struct {
		t     CSSTok
		punct bool // one of , / : ! =
		open  bool // ( or function( : no whitespace generated after it
		close bool // ) ] : no whitespace generated before it
	}
	var toks []vt
	var gen func(d int)
	gen = func(d int) {
		n := 1 + r.Intn(4)
		for i := 0; i < n; i++ {
			switch c := r.Intn(16); {
			case c < 3:
				toks = append(toks, vt{t: CSSTok{"Ident", g.simpleIdent()}})
			case c < 5:
				toks = append(toks, vt{t: CSSTok{"Number", cssNumber(r)}})
			case c < 7:
				toks = append(toks, vt{t: CSSTok{"Dimension", cssNumber(r) + Pick(r, []string{"px", "em", "rem", "deg", "s", "x"})}})
			case c == 7:
				toks = append(toks, vt{t: CSSTok{"Percentage", cssNumber(r) + "%"}})
			case c == 8:
				toks = append(toks, vt{t: CSSTok{"String", cssString(r)}})
			case c == 9:
				toks = append(toks, vt{t: CSSTok{"Hash", "#" + Pick(r, []string{"fff", "06c", "A1B2C3", "id"})}})
			case c == 10:
				toks = append(toks, vt{t: CSSTok{"URL", "url(" + Pick(r, []string{"a.png", "'b c.png'", "data:x;y,z", " d ", ""}) + ")"}})
			case c == 11 && d < 3:
				toks = append(toks, vt{t: CSSTok{"Function", Pick(r, []string{"rgb", "calc", "var", "f", "translateX", "Alpha"}) + "("}, open: true})
				gen(d + 1)
				toks = append(toks, vt{t: CSSTok{"RightParenthesis", ")"}, close: true})
			case c == 12 && d < 3:
				toks = append(toks, vt{t: CSSTok{"LeftParenthesis", "("}, open: true})
				gen(d + 1)
				toks = append(toks, vt{t: CSSTok{"RightParenthesis", ")"}, close: true})
			case c == 13 && i > 0 && i < n-1:
				toks = append(toks, vt{t: Pick(r, []CSSTok{{"Comma", ","}, {"Delim", "/"}, {"Comma", ","}, {"Delim", "="}, {"Colon", ":"}}), punct: true})
			case c == 14:
				toks = append(toks, vt{t: CSSTok{"UnicodeRange", "U+26"}})
			default:
				toks = append(toks, vt{t: CSSTok{"Ident", g.simpleIdent()}})
			}
		}
	}
	gen(depth)
	if r.Intn(6) == 0 {
		toks = append(toks, vt{t: CSSTok{"Delim", "!"}, punct: true}, vt{t: CSSTok{"Ident", Pick(r, []string{"important", "IMPORTANT"})}})
	}
	// no two punctuation tokens in a row, none at the ends (keeps the expectation unambiguous)
	var clean []vt
	for i, t := range toks {
		if t.punct && t.t.Text != "!" && (len(clean) == 0 || clean[len(clean)-1].punct || clean[len(clean)-1].open || i == len(toks)-1 || toks[i+1].close) {
			continue
		}
		clean = append(clean, t)
	}
	toks = clean
	var sb strings.Builder
	for i, t := range toks {
		if i > 0 {
			p := toks[i-1]
			switch {
			case p.punct || t.punct:
				// whitespace next to punctuation vanishes
				if r.Intn(2) == 0 {
					sb.WriteString(Pick(r, []string{" ", "\n", "  ", " /**/ ", "/**/"}))
				}
			case p.open || t.close:
				// nothing written: the statement is silent about whitespace here
			default:
				mustSep := !(cssSafeEnd(p.t.Kind) || cssSafeStart(t.t.Kind))
				if t.t.Kind == "LeftParenthesis" && (p.t.Kind == "Ident") {
					mustSep = true
				}
				if mustSep || r.Intn(2) == 0 {
					sb.WriteString(Pick(r, []string{" ", " ", "\n", "\t", "  ", " /**/ ", "/* c */", "/**/ "}))
					want = append(want, wsTok)
				}
			}
		}
		sb.WriteString(t.t.Text)
		want = append(want, t.t)
	}
	return sb.String(), want
}

// declaration writes one declaration; it returns true for a custom property, whose value runs up to the terminator.
func (g *cssSheetGen) declaration() bool {
	r := g.r
	if r.Intn(7) == 0 {
		// custom property: the value is the exact source text between the colon and the terminator
		name := "--" + Pick(r, []string{"x", "Main-Color", "a_b", "1", ""})
		g.w(name)
		if r.Intn(3) == 0 {
			g.w(Pick(r, []string{" ", "\n"}))
		}
		g.w(":")
		val := HTMLSafe(r, []string{" ", "a", "#06c", "1px", "/* c */", "{a:b}", "(x)", "[y]", "\"s;}\"", ",", "f(1,2)", "\n", "!important", "--y", "url(z)"}, r.Intn(6))
		g.w(val)
		g.units = append(g.units, CSSUnit{Grammar: "CustomProperty", Data: name, Values: []CSSTok{{"CustomPropertyValue", val}}})
		return true
	}
	name := Pick(r, []string{"color", "margin", "Background", "FONT", "-webkit-x", "_height", "*zoom", "filter", "width", "é", "Zoom", "Z-index", "resiZe", "A", "aZ", "*Zoom"})
	g.w(name)
	if r.Intn(3) == 0 {
		g.optws()
	}
	g.w(":")
	g.optws()
	src, want := "", []CSSTok(nil)
	if r.Intn(12) > 0 {
		src, want = g.valueTokens(0)
	}
	g.w(src)
	g.optws()
	g.units = append(g.units, CSSUnit{Grammar: "Declaration", Data: strings.ToLower(name), Values: want})
	return false
}

// compound writes one compound selector (no whitespace inside) and returns its tokens.
func (g *cssSheetGen) compound(nestedStart bool) (string, []CSSTok) {
	r := g.r
	var sb strings.Builder
	var toks []CSSTok
	add := func(k, s string) {
		sb.WriteString(s)
		toks = append(toks, CSSTok{k, s})
	}
	// whitespace inside an attribute selector of a top-level selector is next to punctuation ([ ] = ~= …): it vanishes
	aws := func() {
		if g.attrWS && r.Intn(3) == 0 {
			sb.WriteString(Pick(r, cssWSChars))
		}
	}
	first := r.Intn(5)
	if nestedStart {
		first = Pick(r, []int{0, 1, 4}) // nested rules are recognised when they start with an identifier, '&' or '.'
	}
	switch first {
	case 0:
		add("Ident", Pick(r, []string{"a", "div", "LI", "custom-el", "h1"}))
	case 1:
		add("Delim", ".")
		add("Ident", Pick(r, []string{"cls", "b-c", "X"}))
	case 2:
		add("Hash", "#"+Pick(r, []string{"id", "main", "x1"}))
	case 3:
		add("Delim", "*")
	default:
		add("Delim", "&")
	}
	for i := r.Intn(3); i > 0; i-- {
		switch r.Intn(6) {
		case 0:
			add("Delim", ".")
			add("Ident", Pick(r, []string{"cls", "b-c", "X"}))
		case 1:
			add("Hash", "#"+Pick(r, []string{"id", "x1"}))
		case 2:
			add("LeftBracket", "[")
			aws()
			add("Ident", Pick(r, []string{"href", "data-x", "lang"}))
			aws()
			if r.Intn(2) == 0 {
				op := Pick(r, []CSSTok{{"Delim", "="}, {"IncludeMatch", "~="}, {"DashMatch", "|="}, {"PrefixMatch", "^="}, {"SuffixMatch", "$="}, {"SubstringMatch", "*="}})
				add(op.Kind, op.Text)
				aws()
				if r.Intn(2) == 0 {
					add("String", Pick(r, []string{"\"v\"", "'a b'", "\"]\""}))
				} else {
					add("Ident", "val")
				}
				aws()
			}
			add("RightBracket", "]")
		case 3:
			add("Colon", ":")
			add("Ident", Pick(r, []string{"hover", "first-child", "FOCUS"}))
		case 4:
			add("Colon", ":")
			add("Colon", ":")
			add("Ident", Pick(r, []string{"before", "after"}))
		default:
			add("Colon", ":")
			add("Function", Pick(r, []string{"not(", "nth-child(", "is("}))
			if toks[len(toks)-1].Text == "nth-child(" {
				add("Dimension", Pick(r, []string{"2n", "3n", "+3n", "-2n", "+1n"}))
				if r.Intn(2) == 0 {
					num := Pick(r, []string{"+1", "-1", "+10"})
					if num[0] == '-' || r.Intn(2) == 0 {
						// whitespace between the two numeric tokens of An+B survives: neither is punctuation (a signed
						// number is not the '+' combinator); "3n-1" without it would be one dimension
						sb.WriteString(Pick(r, []string{" ", "  ", "\t"}))
						toks = append(toks, wsTok)
					}
					add("Number", num)
				}
			} else {
				add("Delim", ".")
				add("Ident", "q")
			}
			add("RightParenthesis", ")")
		}
	}
	return sb.String(), toks
}

// selector writes a selector list; nested selectors (inside a declaration list) keep every whitespace as a token,
// so there whitespace is only generated as descendant combinator.
func (g *cssSheetGen) selector(nested bool) []CSSTok {
	r := g.r
	var want []CSSTok
	n := 1 + r.Intn(3)
	for i := 0; i < n; i++ {
		g.attrWS = !nested
		s, toks := g.compound(nested && i == 0)
		g.attrWS = false
		if i > 0 {
			switch c := r.Intn(5); {
			case c == 0: // descendant combinator: whitespace survives as one token
				g.sigws()
				want = append(want, wsTok)
			default:
				comb := Pick(r, []CSSTok{{"Comma", ","}, {"Delim", ">"}, {"Delim", "+"}, {"Delim", "~"}})
				if !nested {
					g.optwsNoComment()
				}
				g.w(comb.Text)
				if !nested {
					g.optwsNoComment()
				}
				want = append(want, comb)
			}
		}
		g.w(s)
		want = append(want, toks...)
	}
	return want
}

func (g *cssSheetGen) optwsNoComment() {
	if g.r.Intn(2) == 0 {
		g.w(Pick(g.r, cssWSChars))
	}
}

func (g *cssSheetGen) declList(depth int, allowNested bool) {
	r := g.r
	n := r.Intn(4)
	for i := 0; i < n; i++ {
		g.optws()
		if allowNested && depth < 3 && g.budget > 0 && r.Intn(6) == 0 {
			g.budget--
			sel := g.selector(true)
			if r.Intn(2) == 0 {
				g.optwsNoComment() // whitespace before '{' vanishes
			}
			g.w("{")
			g.units = append(g.units, CSSUnit{Grammar: "BeginRuleset", Values: sel})
			g.declList(depth+1, true)
			g.w("}")
			g.units = append(g.units, CSSUnit{Grammar: "EndRuleset", Data: "}"})
			continue
		}
		if custom := g.declaration(); custom || i < n-1 || r.Intn(2) == 0 {
			g.w(";")
			for r.Intn(5) == 0 {
				g.optws()
				g.w(";")
			}
		}
	}
	g.optws()
}

func (g *cssSheetGen) ruleset(depth int) {
	sel := g.selector(false)
	if g.r.Intn(2) == 0 {
		g.optws()
	}
	g.w("{")
	g.units = append(g.units, CSSUnit{Grammar: "BeginRuleset", Values: sel})
	g.declList(depth, !g.inline)
	g.w("}")
	g.units = append(g.units, CSSUnit{Grammar: "EndRuleset", Data: "}"})
}

// prelude writes an at-rule prelude and returns the expected Values().
func (g *cssSheetGen) prelude(kind string) []CSSTok {
	r := g.r
	var want []CSSTok
	type pt struct {
		t                  CSSTok
		punct, open, close bool
		fn                 bool // a function token: not punctuation, whitespace behind it separates it from the first argument
		tight              bool // written without whitespace on either side
	}
	var toks []pt
	switch kind {
	case "media":
		toks = append(toks, pt{t: CSSTok{"Ident", Pick(r, []string{"screen", "print", "all"})}})
		for i := r.Intn(3); i > 0; i-- {
			if r.Intn(3) == 0 {
				toks = append(toks, pt{t: CSSTok{"Comma", ","}, punct: true}, pt{t: CSSTok{"Ident", "tv"}})
				continue
			}
			toks = append(toks, pt{t: CSSTok{"Ident", "and"}}, pt{t: CSSTok{"LeftParenthesis", "("}, open: true}, pt{t: CSSTok{"Ident", Pick(r, []string{"min-width", "orientation"})}},
				pt{t: CSSTok{"Colon", ":"}, punct: true}, pt{t: Pick(r, []CSSTok{{"Dimension", "100px"}, {"Ident", "landscape"}})}, pt{t: CSSTok{"RightParenthesis", ")"}, close: true})
		}
	case "supports":
		switch r.Intn(3) {
		case 0:
			// @supports selector( a b ): the function token is a component value like any other
			toks = append(toks, pt{t: CSSTok{"Function", Pick(r, []string{"selector(", "font-tech(", "Selector("})}, fn: true}, pt{t: CSSTok{"Ident", "a"}}, pt{t: CSSTok{"Ident", "b"}}, pt{t: CSSTok{"RightParenthesis", ")"}, close: true})
		case 1:
			toks = append(toks, pt{t: CSSTok{"LeftParenthesis", "("}, open: true}, pt{t: CSSTok{"Ident", "width"}}, pt{t: CSSTok{"Colon", ":"}, punct: true}, pt{t: CSSTok{"Function", "calc("}, fn: true}, pt{t: CSSTok{"Dimension", "1px"}},
				pt{t: CSSTok{"RightParenthesis", ")"}, close: true}, pt{t: CSSTok{"RightParenthesis", ")"}, close: true})
		default:
			toks = append(toks, pt{t: CSSTok{"LeftParenthesis", "("}, open: true}, pt{t: CSSTok{"Ident", "display"}}, pt{t: CSSTok{"Colon", ":"}, punct: true}, pt{t: CSSTok{"Ident", "grid"}}, pt{t: CSSTok{"RightParenthesis", ")"}, close: true})
		}
	case "name":
		toks = append(toks, pt{t: CSSTok{"Ident", Pick(r, []string{"k", "fade-in", "base"})}})
	case "page":
		if r.Intn(2) == 0 {
			toks = append(toks, pt{t: CSSTok{"Colon", ":"}, punct: true}, pt{t: CSSTok{"Ident", "first"}})
		}
	case "import":
		toks = append(toks, pt{t: Pick(r, []CSSTok{{"URL", "url(foo.css)"}, {"String", "\"foo.css\""}})})
		if r.Intn(2) == 0 {
			toks = append(toks, pt{t: CSSTok{"Ident", "screen"}})
		}
	case "charset":
		toks = append(toks, pt{t: CSSTok{"String", "\"utf-8\""}})
	case "document":
		toks = append(toks, pt{t: CSSTok{"URL", "url(http://x)"}})
	case "unknown":
		for i := r.Intn(3); i > 0; i-- {
			toks = append(toks, pt{t: Pick(r, []CSSTok{{"Ident", "foo"}, {"Number", "1"}, {"String", "'s'"}, {"Hash", "#h"}})})
		}
		if r.Intn(3) == 0 {
			// a ';' inside a parenthesised group of the prelude is a component value of that group, not the end of the rule
			// (written without whitespace around it: the statement does not say whether ';' counts as punctuation there)
			toks = append(toks, pt{t: CSSTok{"LeftParenthesis", "("}, open: true}, pt{t: CSSTok{"Ident", "a"}}, pt{t: CSSTok{"Semicolon", ";"}, tight: true}, pt{t: CSSTok{"Ident", "b"}}, pt{t: CSSTok{"RightParenthesis", ")"}, close: true})
		}
	}
	lead := false
	for i, t := range toks {
		if i == 0 {
			// between the at-keyword and the first token: a separator is needed unless the token starts safely
			if !(cssSafeStart(t.t.Kind) || t.t.Kind == "LeftParenthesis" || t.t.Kind == "Colon") || r.Intn(2) == 0 {
				g.sigws()
				lead = true
			}
		} else {
			p := toks[i-1]
			switch {
			case p.tight || t.tight:
			case p.punct || t.punct:
				g.optwsNoComment()
			case p.open || t.close:
				g.optwsNoComment() // behind '(' and in front of ')': next to punctuation, vanishes
			case p.fn:
				if r.Intn(2) == 0 {
					g.sigws()
					want = append(want, wsTok)
				}
			default:
				g.sigws()
				want = append(want, wsTok)
			}
		}
		g.w(t.t.Text)
		want = append(want, t.t)
	}
	_ = lead
	return want
}

func (g *cssSheetGen) atRule(depth int) {
	r := g.r
	type ar struct{ name, prelude, block string }
	rules := []ar{
		{"@media", "media", "rules"}, {"@MEDIA", "media", "rules"}, {"@supports", "supports", "rules"}, {"@layer", "name", "rules"}, {"@document", "document", "rules"}, {"@-moz-document", "document", "rules"},
		{"@keyframes", "name", "keyframes"}, {"@-webkit-keyframes", "name", "keyframes"},
		{"@font-face", "", "decls"}, {"@Font-Face", "", "decls"}, {"@page", "page", "decls"},
		{"@import", "import", ""}, {"@charset", "charset", ""}, {"@layer", "name", ""}, {"@foo", "unknown", ""}, {"@-x-bar", "unknown", ""},
		{"@foo", "unknown", "tokens"}, {"@unknown-rule", "unknown", "tokens"},
	}
	a := Pick(r, rules)
	g.w(a.name)
	pre := g.prelude(a.prelude)
	if a.block == "" {
		g.optwsNoComment()
		g.w(";")
		g.units = append(g.units, CSSUnit{Grammar: "AtRule", Data: strings.ToLower(a.name), Values: pre, StripLeadingWS: true})
		return
	}
	g.optwsNoComment()
	g.w("{")
	g.units = append(g.units, CSSUnit{Grammar: "BeginAtRule", Data: strings.ToLower(a.name), Values: pre, StripLeadingWS: true})
	switch a.block {
	case "rules":
		for i := r.Intn(3); i > 0 && g.budget > 0; i-- {
			g.budget--
			g.optws()
			if depth < 3 && r.Intn(4) == 0 {
				g.atRule(depth + 1)
			} else {
				g.ruleset(depth + 1)
			}
		}
		g.optws()
	case "keyframes":
		for i := r.Intn(3); i > 0; i-- {
			g.optws()
			sel := Pick(r, []CSSTok{{"Ident", "from"}, {"Ident", "to"}, {"Percentage", "50%"}})
			g.w(sel.Text)
			g.w("{")
			g.units = append(g.units, CSSUnit{Grammar: "BeginRuleset", Values: []CSSTok{sel}})
			g.declList(depth+1, false)
			g.w("}")
			g.units = append(g.units, CSSUnit{Grammar: "EndRuleset", Data: "}"})
		}
		g.optws()
	case "decls":
		g.declList(depth+1, false)
	case "tokens":
		// unknown at-rule block: every token is streamed; whitespace between two tokens is a token of its own
		prev := ""
		emit := func(t CSSTok) {
			if prev != "" && !(cssSafeEnd(prev) || cssSafeStart(t.Kind)) {
				g.w(" ")
				g.units = append(g.units, CSSUnit{Grammar: "Token", Data: " ", Values: nil})
			}
			g.w(t.Text)
			g.units = append(g.units, CSSUnit{Grammar: "Token", Data: t.Text})
			prev = t.Kind
		}
		// balanced groups nest: a '}' inside (…), […], {…} or fn(…) does not end the at-rule
		var toks func(d int)
		toks = func(d int) {
			for i := r.Intn(4); i > 0; i-- {
				if d < 3 && r.Intn(4) == 0 {
					open, cl := Pick(r, [][2]CSSTok{
						{{"LeftParenthesis", "("}, {"RightParenthesis", ")"}}, {{"LeftBracket", "["}, {"RightBracket", "]"}},
						{{"LeftBrace", "{"}, {"RightBrace", "}"}}, {{"Function", "calc("}, {"RightParenthesis", ")"}}})[0], CSSTok{}
					switch open.Kind {
					case "LeftParenthesis", "Function":
						cl = CSSTok{"RightParenthesis", ")"}
					case "LeftBracket":
						cl = CSSTok{"RightBracket", "]"}
					default:
						cl = CSSTok{"RightBrace", "}"}
					}
					emit(open)
					toks(d + 1)
					emit(cl)
					continue
				}
				emit(Pick(r, []CSSTok{{"Ident", "bar"}, {"Number", "2"}, {"Colon", ":"}, {"Semicolon", ";"}, {"String", "\"}\""}, {"Hash", "#x"}, {"Comma", ","}}))
			}
		}
		toks(0)
	}
	g.w("}")
	g.units = append(g.units, CSSUnit{Grammar: "EndAtRule", Data: "}"})
}

// CSSSheet generates a well-formed stylesheet (inline=false) or inline declaration list (inline=true).
func CSSSheet(r *rand.Rand, inline bool) (src string, units []CSSUnit) {
	g := &cssSheetGen{r: r, budget: 3 + r.Intn(10), inline: inline}
	if inline {
		g.declList(0, false)
		return g.sb.String(), g.units
	}
	n := 1 + r.Intn(5)
	for i := 0; i < n; i++ {
		g.optwsNoComment()
		switch c := r.Intn(10); {
		case c == 0:
			body := HTMLSafe(r, []string{"a", " ", "*", "{", "}", "\n", "é"}, r.Intn(5))
			body = strings.ReplaceAll(body, "*/", "* /")
			text := "/*" + body + "*/"
			g.w(text)
			g.units = append(g.units, CSSUnit{Grammar: "Comment", Data: text})
		case c == 1:
			t := Pick(r, []string{"<!--", "-->"})
			g.w(t)
			g.units = append(g.units, CSSUnit{Grammar: "Token", Data: t})
		case c < 5:
			g.atRule(0)
		default:
			g.ruleset(0)
		}
	}
	g.optwsNoComment()
	return g.sb.String(), g.units
}

var _ = fmt.Sprint
