package gen

import (
	"math/rand"
	"strings"
)

// XTok is one expected token of a generated XML/HTML document.
type XTok struct {
	Type    string // token type name as printed by the library's TokenType.String()
	Data    string // exact source text of the token
	Norm    string // token bytes as returned when the lexer rewrites them ("" = same as Data)
	Text    string // expected Text()/AttrKey()
	AttrVal string // expected AttrVal() (with quotes)
	HasVal  bool
	Tmpl    bool // expected HasTemplate() (HTML only)
}

var xmlWS = []string{" ", " ", " ", "\n", "\t", "\r\n", "  ", " \n "}

func xmlName(r *rand.Rand) string {
	first := "abcdefghijklmnopqrstuvwxyzABCDEFGHIJKLMNOPQRSTUVWXYZ_"
	rest := first + "0123456789.-"
	n := 1 + r.Intn(6)
	b := []byte{first[r.Intn(len(first))]}
	for i := 1; i < n; i++ {
		b = append(b, rest[r.Intn(len(rest))])
	}
	s := string(b)
	if r.Intn(10) == 0 {
		s += "é"
	}
	if r.Intn(8) == 0 {
		// non-ASCII letters whose UTF-8 bytes look like ASCII delimiters when masked (à = C3 A0, π = CF 80, 名 = E5 90 8D, …)
		l := Pick(r, []string{"à", "À", "É", "Ê", "Í", "þ", "π", "Р", "р", "名", "ö", "日"})
		switch r.Intn(3) {
		case 0:
			s = l + s
		case 1:
			s += l
		default:
			s = s[:1] + l + s[1:]
		}
	}
	if r.Intn(8) == 0 {
		s = Pick(r, []string{"ns", "x", "xlink"}) + ":" + s
	}
	return s
}

func xmlText(r *rand.Rand, forbid string) string {
	alphabet := []string{"a", "b", "Z", "0", " ", "\n", "\t", "é", "日本", ".", ",", "-", "]", "]]", ">", "/", "?", "!", "'", "\"", "=", "&amp;", "&#x41;", "--", "[", "x y", "\ufeff", "\ufffd"}
	n := 1 + SmallLen(r, 10)
	var sb strings.Builder
	for i := 0; i < n; i++ {
		sb.WriteString(Pick(r, alphabet))
	}
	s := sb.String()
	for _, f := range strings.Split(forbid, "|") {
		if f != "" {
			s = strings.ReplaceAll(s, f, "_")
		}
	}
	return s
}

// XMLDoc generates a well-formed XML document and the token list a conforming lexer returns for it.
func XMLDoc(r *rand.Rand) (doc string, toks []XTok) {
	var sb strings.Builder
	emit := func(t XTok) {
		sb.WriteString(t.Data)
		toks = append(toks, t)
	}
	ws := func() string { return Pick(r, xmlWS) }
	optws := func() string {
		if r.Intn(3) == 0 {
			return ws()
		}
		return ""
	}
	attr := func(pi bool) {
		pre := ws()
		name := xmlName(r)
		q := Pick(r, []string{"\"", "'"})
		other := "'"
		if q == "'" {
			other = "\""
		}
		forbid := "<|&|]]>|" + q
		if pi {
			forbid += "|?>" // a processing instruction ends at the first "?>"; in an element it is ordinary value text
		}
		val := xmlText(r, forbid)
		if !pi && r.Intn(6) == 0 {
			val += Pick(r, []string{"?>", "why?>", "/>", "a?>b", "?"})
		}
		if r.Intn(3) == 0 {
			val += other
		}
		if r.Intn(6) == 0 {
			val = ""
		}
		eq := optws() + "=" + optws()
		// the attribute token starts at the whitespace in front of the name
		nval := strings.NewReplacer("\t", " ", "\n", " ", "\r", " ").Replace(val)
		emit(XTok{Type: "Attribute", Data: pre + name + eq + q + val + q, Norm: pre + name + eq + q + nval + q, Text: name, AttrVal: q + nval + q, HasVal: true})
	}
	misc := func() {
		switch r.Intn(3) {
		case 0:
			t := xmlText(r, "--|<|&")
			if strings.HasSuffix(t, "-") {
				t += "x"
			}
			emit(XTok{Type: "Comment", Data: "<!--" + t + "-->", Text: t})
		case 1:
			target := xmlName(r)
			for strings.EqualFold(target, "xml") || strings.Contains(target, ":") {
				target = xmlName(r)
			}
			emit(XTok{Type: "StartTagPI", Data: "<?" + target, Text: target})
			for i := r.Intn(3); i > 0; i-- {
				attr(true)
			}
			sb.WriteString(optws())
			emit(XTok{Type: "StartTagClosePI", Data: "?>"})
		case 2:
			// whitespace between markup at top level is character data for the lexer
			if len(toks) == 0 || toks[len(toks)-1].Type != "Text" {
				w := ws()
				emit(XTok{Type: "Text", Data: w, Text: w})
			}
		}
	}
	// prolog
	if r.Intn(2) == 0 {
		emit(XTok{Type: "StartTagPI", Data: "<?xml", Text: "xml"})
		emit(XTok{Type: "Attribute", Data: " version=\"1.0\"", Text: "version", AttrVal: "\"1.0\"", HasVal: true})
		if r.Intn(2) == 0 {
			emit(XTok{Type: "Attribute", Data: " encoding='UTF-8'", Text: "encoding", AttrVal: "'UTF-8'", HasVal: true})
		}
		sb.WriteString(optws())
		emit(XTok{Type: "StartTagClosePI", Data: "?>"})
	}
	for i := r.Intn(3); i > 0; i-- {
		if r.Intn(3) > 0 {
			misc()
		}
	}
	if r.Intn(3) == 0 {
		root := xmlName(r)
		body := " " + root
		if r.Intn(2) == 0 {
			body += Pick(r, []string{" PUBLIC \"-//W3C//DTD X 1.0//EN\" \"http://x/y>z\"", " PUBLIC \"-//O'Neil//DTD r//EN\" \"x\"", " SYSTEM \"it's>here]\"", " SYSTEM 'x>y\"z'", " PUBLIC '-//A//B' 'u[v]>w'"})
		}
		if r.Intn(2) == 0 {
			body += " ["
			for j := r.Intn(3); j >= 0; j-- {
				body += Pick(r, []string{"<!ENTITY a \"b>c]d\">", "<!ELEMENT x (#PCDATA)>", "<!ATTLIST x y CDATA #IMPLIED>", "\n", " ", "<!ENTITY % p \"q\">", "<!ENTITY w \"Writer's name\">", "<!ENTITY q \"'>]'\">",
					"<!ENTITY rb ']'>", "<!ENTITY lb '['>", "<!ENTITY dq '\"'>", "<!ENTITY gt '>'>", "<!-- a ] comment -->", "<!-- see [1 -->", "<!-- it's \"odd\" > -->", "<!ENTITY sq \"'\">", "<?app idx[0 ?>", "<?x ] y?>", "<?q z]]?>",
					// the other construct's terminator inside a comment / a processing instruction
					"<!-- what's new?> it's this -->", "<!-- ?>]> -->", "<?p a--> b?>", "<?p -->']>?>"})
			}
			body += "]"
		}
		body += optws()
		emit(XTok{Type: "DOCTYPE", Data: "<!DOCTYPE" + body + ">", Text: body})
	}
	// element tree
	budget := 1 + r.Intn(12)
	var element func(depth int)
	element = func(depth int) {
		budget--
		name := xmlName(r)
		emit(XTok{Type: "StartTag", Data: "<" + name, Text: name})
		for i := SmallLen(r, 3); i > 0; i-- {
			attr(false)
		}
		sb.WriteString(optws())
		if r.Intn(4) == 0 {
			emit(XTok{Type: "StartTagCloseVoid", Data: "/>"})
			return
		}
		emit(XTok{Type: "StartTagClose", Data: ">"})
		for i := r.Intn(4); i > 0; i-- {
			switch c := r.Intn(8); {
			case c < 3 && depth < 5 && budget > 0:
				element(depth + 1)
			case c < 5:
				t := xmlText(r, "<|]]>|&")
				if len(toks) > 0 && toks[len(toks)-1].Type == "Text" {
					continue // adjacent character data is one token
				}
				emit(XTok{Type: "Text", Data: t, Text: t})
			case c == 5:
				t := xmlText(r, "]]>")
				if r.Intn(6) == 0 {
					t = "" // an empty section
				}
				if r.Intn(3) == 0 {
					t += Pick(r, []string{"]", "]]", "]>", "<a>", "<!--", "&"})
					t = strings.ReplaceAll(t, "]]>", "]] >")
				}
				emit(XTok{Type: "CDATA", Data: "<![CDATA[" + t + "]]>", Text: t})
			case c == 6:
				t := xmlText(r, "--|<|&")
				if strings.HasSuffix(t, "-") {
					t += "x"
				}
				emit(XTok{Type: "Comment", Data: "<!--" + t + "-->", Text: t})
			default:
				target := xmlName(r)
				for strings.EqualFold(target, "xml") || strings.Contains(target, ":") {
					target = xmlName(r)
				}
				emit(XTok{Type: "StartTagPI", Data: "<?" + target, Text: target})
				if r.Intn(2) == 0 {
					attr(true)
				}
				emit(XTok{Type: "StartTagClosePI", Data: "?>"})
			}
		}
		trail := optws()
		emit(XTok{Type: "EndTag", Data: "</" + name + trail + ">", Text: name})
	}
	element(0)
	for i := r.Intn(2); i > 0; i-- {
		misc()
	}
	// merge adjacent top-level whitespace Text placeholders
	doc = sb.String()
	return doc, toks
}
