package gen

import (
	"math/rand"
	"strings"
)

// HTMLOpts selects generator features. Features that trigger a recorded known finding are switched off in the
// random workload while the record exists (the fixed probes keep exercising them).
type HTMLOpts struct {
	Tmpl [2]string // template delimiters ("" = none)
}

var htmlWS = []string{" ", " ", " ", "\n", "\t", "\r\n", "\f", "  ", " \n\t"}

func randCase(r *rand.Rand, s string) string {
	if r.Intn(3) > 0 {
		return s
	}
	b := []byte(s)
	for i, c := range b {
		if 'a' <= c && c <= 'z' && r.Intn(2) == 0 {
			b[i] = c - 32
		}
	}
	return string(b)
}

func htmlName(r *rand.Rand) string {
	names := []string{"a", "b", "div", "span", "p", "h1", "ul", "li", "table", "td", "section", "my-el", "x2", "em", "custom-tag", "form", "label", "o:p", "z", "zz-y", "a", "article", "noscript", "noscript", "template", "select", "option", "body"}
	return Pick(r, names)
}

var htmlVoid = []string{"br", "img", "input", "hr", "meta", "link", "wbr"}
var htmlRaw = []string{"script", "style", "title", "textarea", "xmp", "iframe"}

func htmlAttrName(r *rand.Rand) string {
	names := []string{"id", "class", "href", "src", "data-x", "aria-label", "x", "checked", "disabled", "v-on:click", "on.click", "xml:lang", "a1", "_y", "value", "type",
		"[disabled]", "(click)", "[(ngmodel)]", "data-cell[0]", "@input", "#ref", "a{b}", "x^y", "z`", "q|r"}
	return Pick(r, names)
}

// htmlChars builds text from a safe alphabet (no markup, no template delimiter characters).
func htmlChars(r *rand.Rand, alphabet []string, n int) string {
	var sb strings.Builder
	for i := 0; i < n; i++ {
		sb.WriteString(Pick(r, alphabet))
	}
	return sb.String()
}

var htmlTextAlpha = []string{"a", "b", "Z", "0", " ", "\n", "é", "日本", "\xe9", "\xfc", "\xf0\x9f", "\xc3", "\xff", ".", ",", "-", "&amp;", "&#60;", ">", "/", "=", "'", "\"", "!", ";", "x y", "--", "]", "&"}
var htmlValAlpha = []string{"a", "b", "Z", "0", "/", ".", "_", ":", "-", "é", "#", "&amp;", ";", "(", ")", "+", "1"}
var htmlQuotedAlpha = append([]string{" ", ">", "=", "\n", "<", "</a>", "/>", "\t"}, htmlValAlpha...)

func (o HTMLOpts) tmplRegion(r *rand.Rand) string {
	inner := []string{" .X ", "if eq .A 0", "end", " \"}}\" ", " 'a>b' ", " x \"q\\\"r\" ", "=1", " . ", "range $i := .L", " 'it\\'s' ", ""}
	body := Pick(r, inner)
	if r.Intn(3) == 0 {
		// a random quoted string: escaped quotes, escaped backslashes (also directly before the closing quote), the other
		// quote and the end delimiter inside it
		q := Pick(r, []string{"\"", "'"})
		other := "'"
		if q == "'" {
			other = "\""
		}
		str := q
		for i := r.Intn(5); i > 0; i-- {
			str += Pick(r, []string{"a", "\\" + q, "\\\\", "}}", other, " ", "\\n", ">", "<b>"})
		}
		str += q
		body = Pick(r, []string{" printf ", " ", " .X | f "}) + str + Pick(r, []string{"", " ", " .Y"})
	}
	// the end delimiter may only occur inside quoted strings of the body
	if o.Tmpl[1] != "}}" {
		body = strings.ReplaceAll(body, "}}", o.Tmpl[1])
	}
	return o.Tmpl[0] + body + o.Tmpl[1]
}

// HTMLDoc generates a document from well-formed HTML constructs and the token list the lexer must return.
func HTMLDoc(r *rand.Rand, o HTMLOpts) (doc string, toks []XTok) {
	var sb strings.Builder
	tmpl := o.Tmpl[0] != ""
	emit := func(t XTok) {
		sb.WriteString(t.Data)
		if t.Norm == "" {
			t.Norm = t.Data
		}
		toks = append(toks, t)
	}
	lastType := func() string {
		if len(toks) == 0 {
			return ""
		}
		return toks[len(toks)-1].Type
	}
	ws := func() string { return Pick(r, htmlWS) }
	pend := "" // whitespace owed after an unquoted value; it belongs to the next attribute token or is skipped before a closer

	text := func() {
		if lastType() == "Text" {
			return // adjacent character data is one token
		}
		t := htmlChars(r, htmlTextAlpha, 1+SmallLen(r, 8))
		if r.Intn(8) == 0 {
			t += Pick(r, []string{"< ", "<1", "<=", "a<", "<>"}) // '<' that does not start a tag
			if strings.HasSuffix(t, "<") {
				t += " "
			}
		}
		if tmpl && r.Intn(10) == 0 {
			// a '<' that starts no tag directly in front of a template region: the region is a token of its own
			t += "<"
			emit(XTok{Type: "Text", Data: t, Text: t})
			emit(XTok{Type: "Template", Data: o.tmplRegion(r), Tmpl: true})
			return
		}
		emit(XTok{Type: "Text", Data: t, Text: t})
	}
	attrs := func(n int) {
		for ; n > 0; n-- {
			pre := pend + ws()
			pend = ""
			name := htmlAttrName(r)
			sname := randCase(r, name)
			form := r.Intn(4)
			if tmpl && r.Intn(3) == 0 {
				form = 4 + r.Intn(4)
			}
			switch form {
			case 0: // valueless
				emit(XTok{Type: "Attribute", Data: pre + sname, Norm: pre + name, Text: name})
			case 1: // unquoted
				v := htmlChars(r, htmlValAlpha, 1+r.Intn(5))
				eq := "="
				if r.Intn(5) == 0 {
					eq = Pick(r, []string{" =", "= ", " = ", "\n=\t", "=" + ws(), ws() + "=", ws() + "=" + ws(), "=\r", "=\f", "=\n", "\f=", "\r="})
				}
				emit(XTok{Type: "Attribute", Data: pre + sname + eq + v, Norm: pre + name + eq + v, Text: name, AttrVal: v, HasVal: true})
				// an unquoted value runs up to whitespace or '>': keep a following "/>" apart
				pend = " "
			case 2, 3:
				q := "\""
				other := "'"
				if form == 3 {
					q, other = "'", "\""
				}
				v := htmlChars(r, htmlQuotedAlpha, SmallLen(r, 6))
				if r.Intn(3) == 0 {
					v += other
				}
				eq := "="
				if r.Intn(6) == 0 {
					eq = Pick(r, []string{" =", "= ", " = ", "=" + ws(), ws() + "=", ws() + "=" + ws(), "=\r", "=\f", "=\n", "=\t", "\f=", "\r=", "\t=", "\n="})
				}
				emit(XTok{Type: "Attribute", Data: pre + sname + eq + q + v + q, Norm: pre + name + eq + q + v + q, Text: name, AttrVal: q + v + q, HasVal: true})
			case 4: // whole attribute is a template construct: {{if}}name{{end}}
				t := o.tmplRegion(r) + name + o.tmplRegion(r)
				emit(XTok{Type: "Attribute", Data: pre + t, Text: t, Tmpl: true})
			case 5: // quoted value with a template inside
				q := Pick(r, []string{"\"", "'"})
				v := htmlChars(r, htmlValAlpha, r.Intn(3)) + o.tmplRegion(r) + htmlChars(r, htmlValAlpha, r.Intn(3))
				emit(XTok{Type: "Attribute", Data: pre + sname + "=" + q + v + q, Norm: pre + name + "=" + q + v + q, Text: name, AttrVal: q + v + q, HasVal: true, Tmpl: true})
			case 6: // unquoted value that is a template
				v := o.tmplRegion(r)
				if r.Intn(3) == 0 {
					v += o.tmplRegion(r)
				}
				emit(XTok{Type: "Attribute", Data: pre + sname + "=" + v, Norm: pre + name + "=" + v, Text: name, AttrVal: v, HasVal: true, Tmpl: true})
				pend = " "
			case 7: // template as part of the name
				t := name + o.tmplRegion(r)
				emit(XTok{Type: "Attribute", Data: pre + t, Text: t, Tmpl: true})
			}
		}
	}
	closeTag := func(void bool) {
		if !void && pend != "" && r.Intn(2) == 0 {
			// an unquoted value runs up to the '>' itself: <a href=http://x/> is a start tag whose value ends in '/'
			pend = ""
		}
		sb.WriteString(pend)
		pend = ""
		if r.Intn(3) == 0 {
			sb.WriteString(ws())
		}
		if void {
			emit(XTok{Type: "StartTagVoid", Data: "/>"})
		} else {
			emit(XTok{Type: "StartTagClose", Data: ">"})
		}
	}
	startTag := func(name string) {
		sname := randCase(r, name)
		emit(XTok{Type: "StartTag", Data: "<" + sname, Norm: "<" + name, Text: name})
		if tmpl && r.Intn(8) == 0 {
			t := o.tmplRegion(r) // directly after the tag name
			emit(XTok{Type: "Attribute", Data: t, Text: t, Tmpl: true})
		}
	}
	endTag := func(name string) {
		sname := randCase(r, name)
		trail := ""
		if r.Intn(4) == 0 {
			trail = Pick(r, []string{" ", "\n", "\t ", "  ", "\r", "\f", "\r\n", "\t", "\f\n "})
		}
		emit(XTok{Type: "EndTag", Data: "</" + sname + trail + ">", Norm: "</" + name + trail + ">", Text: name})
	}
	rawContent := func(name string) (string, bool) {
		alpha := []string{"a", "b", " ", "\n", "x=1;", "<", ">", "</", "<b>", "</b>", "<!", "&amp;", "\"", "'", "/", "é", "if(a<b)", "</" + name + "x>", "</" + name[:len(name)-1] + ">", "</ " + name + ">",
			"</" + name + "1>", "</" + name + "-x>", "</" + name + "_", "<" + name + ">", "</div>", "<!-- c -->", "-->", "--",
			"</feComponentTransfer>", "</aVeryLongClosingTagNameOfThirtyNineChars>", "</" + name + "abcdefghijklmnop>"}
		for _, other := range htmlRaw {
			if other != name {
				alpha = append(alpha, "</"+other+">")
			}
		}
		if name == "script" {
			// comment openers/closers only come from the explicit escaped-comment branch below
			var keep []string
			for _, a := range alpha {
				if a != "<!" && a != "<!-- c -->" && a != "-->" && a != "--" {
					keep = append(keep, a)
				}
			}
			alpha = keep
		}
		n := SmallLen(r, 8)
		var sb2 strings.Builder
		hasT := false
		for i := 0; i < n; i++ {
			if name == "script" && r.Intn(6) == 0 {
				// escaped comment; a <script>…</script> pair inside it does not end the element
				sb2.WriteString("<!--")
				var sb3 strings.Builder
				openScript := false
				for j := r.Intn(4); j > 0; j-- {
					switch r.Intn(4) {
					case 0:
						if openScript {
							continue
						}
						sb3.WriteString("<" + randCase(r, "script") + Pick(r, []string{">", " >", " a=b>", "/>", "/src=x>", "/ defer>", "\t>", "\n>", "\f>"}) + htmlChars(r, []string{"a", " ", "x<y", "\"", "</b>", "--!>", "--!"}, r.Intn(4)) + "</" + randCase(r, "script") + Pick(r, []string{">", " >"}))
					case 1:
						sb3.WriteString(Pick(r, []string{"<scriptx>", "</scriptx>", "<script1", "</scrip>", "<b>", "- -", "->", "<!-", "--!>", "--!"}))
					case 2:
						// a nested <script that is never closed: the double-escape state ends with the comment
						if !openScript {
							sb3.WriteString("<" + randCase(r, "script") + Pick(r, []string{">", " x>"}) + htmlChars(r, []string{"a", " ", "b"}, r.Intn(3)))
							openScript = true
						}
					default:
						sb3.WriteString(htmlChars(r, []string{"a", " ", "=", "'", "\n", "1"}, 1+r.Intn(4)))
					}
				}
				sb2.WriteString(strings.ReplaceAll(sb3.String(), "-->", "- ->"))
				sb2.WriteString("-->")
				continue
			}
			if tmpl && r.Intn(8) == 0 {
				sb2.WriteString(o.tmplRegion(r))
				hasT = true
				continue
			}
			sb2.WriteString(Pick(r, alpha))
		}
		if name == "script" && r.Intn(5) == 0 {
			// an escaped comment that is still open when the end tag arrives: the end tag ends the element
			sb2.WriteString("<!--" + htmlChars(r, []string{"a", " ", "c", "<b>", "- ", "\n"}, r.Intn(4)))
		}
		s := sb2.String()
		// outside escaped comments an "<!--" opener would change how "</script>" look-alikes are read: keep generated
		// openers only from the branch above
		if name != "script" {
			return s, hasT
		}
		return s, hasT
	}

	budget := 2 + r.Intn(14)
	var content func(depth int)
	element := func(depth int) {
		switch c := r.Intn(12); {
		case c < 4: // normal element
			name := htmlName(r)
			startTag(name)
			attrs(SmallLen(r, 3))
			closeTag(false)
			if depth < 4 {
				content(depth + 1)
			}
			endTag(name)
		case c < 6: // void element
			name := Pick(r, htmlVoid)
			startTag(name)
			attrs(SmallLen(r, 3))
			closeTag(r.Intn(2) == 0)
		case c < 9: // raw text element
			name := Pick(r, htmlRaw)
			startTag(name)
			attrs(r.Intn(2))
			// written XHTML-style with "/>" a raw text element is still open: HTML knows no self-closing script, style, …
			closeTag(r.Intn(6) == 0)
			if body, hasT := rawContent(name); body != "" {
				emit(XTok{Type: "Text", Data: body, Text: body, Tmpl: hasT})
			}
			endTag(name)
		default: // foreign content: one token
			name := Pick(r, []string{"svg", "math"})
			var f strings.Builder
			sname := randCase(r, name)
			f.WriteString("<" + sname)
			norm := "<" + name
			inner := func() string {
				var g strings.Builder
				fattr := func() {
					if r.Intn(2) == 0 {
						g.WriteString(" " + htmlAttrName(r) + "=\"" + htmlChars(r, []string{"a", " ", "</" + name + ">", ">", "<", "'", "M0 0", "/"}, r.Intn(4)) + "\"")
					} else {
						g.WriteString(" " + htmlAttrName(r) + "='" + htmlChars(r, []string{"a", " ", ">", "<b>", "M0 0", "/", "</" + name + "x>"}, r.Intn(4)) + "'")
					}
				}
				for i := r.Intn(3); i > 0; i-- {
					fattr()
				}
				g.WriteString(">")
				for i := r.Intn(4); i > 0; i-- {
					switch r.Intn(4) {
					case 0:
						el := Pick(r, []string{"g", "path", "mi", "text", "a", "svgx", "circle"})
						g.WriteString("<" + el)
						fattr()
						if r.Intn(2) == 0 {
							g.WriteString("/>")
						} else {
							g.WriteString(">" + htmlChars(r, []string{"a", " ", "'", "1"}, r.Intn(3)) + "</" + el + ">")
						}
					case 1:
						g.WriteString(htmlChars(r, []string{"a", " ", "'", "\n", "é", "&lt;", "</" + name + "x>", "</" + name[:2] + ">"}, 1+r.Intn(4)))
					case 2:
						g.WriteString("<!-- c -->")
					default:
						g.WriteString("<![CDATA[ x ]]>")
					}
				}
				return g.String()
			}()
			f.WriteString(inner)
			norm += inner
			end := "</" + randCase(r, name) + Pick(r, []string{"", "", " ", " gibberish", "\n"}) + ">"
			f.WriteString(end)
			norm += end
			typ := "SVG"
			if name == "math" {
				typ = "Math"
			}
			emit(XTok{Type: typ, Data: f.String(), Norm: norm, Text: name})
		}
	}
	content = func(depth int) {
		for i := r.Intn(4); i > 0 && budget > 0; i-- {
			budget--
			switch c := r.Intn(10); {
			case c < 3:
				text()
			case c == 3:
				// the comment ends at the first "-->" (or "--!>"): dashes elsewhere, also directly in front of the closing
				// "-->" (<!-- a --->) and in runs (<!-- a -- b -->), belong to the text
				t := htmlChars(r, []string{"a", " ", "b", "<b>", "é", ">", "-", "--", "-", "\n", "!"}, SmallLen(r, 6))
				for strings.Contains(t, "-->") || strings.Contains(t, "--!>") {
					t = strings.ReplaceAll(t, "-->", "-- >")
					t = strings.ReplaceAll(t, "--!>", "--! >")
				}
				t = strings.TrimPrefix(t, ">")
				if strings.HasPrefix(t, "->") {
					t = "x" + t
				}
				t = strings.TrimSuffix(t, "<!")
				if strings.HasSuffix(t, "--!") {
					t += "a"
				}
				emit(XTok{Type: "Comment", Data: "<!--" + t + "-->", Text: t})
			case c == 4:
				t := htmlChars(r, []string{"a", " ", "]", ">", "<b>", "]]", "&"}, SmallLen(r, 6))
				t = strings.ReplaceAll(t, "]]>", "]] >")
				emit(XTok{Type: "CDATA", Data: "<![CDATA[" + t + "]]>", Text: t})
			case c == 5 && tmpl:
				emit(XTok{Type: "Template", Data: o.tmplRegion(r), Tmpl: true})
			default:
				element(depth)
			}
		}
	}
	if r.Intn(3) == 0 {
		body := Pick(r, []string{" html", "html", " HTML PUBLIC \"-//W3C//DTD HTML 4.01//EN\"", "", " html SYSTEM 'about:legacy-compat'", " book SYSTEM \"O'Reilly.dtd\"", " x PUBLIC 'say \"hi' \"it's\"", " html SYSTEM \"'\""})
		emit(XTok{Type: "Doctype", Data: "<!" + randCase(r, "doctype") + body + ">", Text: body})
	}
	content(0)
	for budget > 0 && r.Intn(3) > 0 {
		content(0)
	}
	if r.Intn(12) == 0 {
		// plaintext swallows the rest of the document
		startTag("plaintext")
		closeTag(false)
		rest := htmlChars(r, []string{"a", "<b>", "</plaintext>", "<!--", " ", "\n"}, 1+r.Intn(6))
		emit(XTok{Type: "Text", Data: rest, Text: rest})
	}
	return sb.String(), toks
}
