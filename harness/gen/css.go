package gen

import (
	"fmt"
	"math/rand"
	"strings"
)

// CSSTok is one expected CSS token.
type CSSTok struct {
	Kind string // css.TokenType.String()
	Text string
}

const cssNameStart = "abcdefghijklmnopqrstuvwxyzABCDEFGHIJKLMNOPQRSTUVWXYZ_"
const cssHex = "0123456789abcdefABCDEF"

func isHexByte(c byte) bool { return strings.IndexByte(cssHex, c) >= 0 }

// cssEscape returns one escape sequence; next tells whether more name characters follow (a short hex escape
// must then be closed by a whitespace so that it does not absorb them).
func cssEscape(r *rand.Rand) string {
	switch r.Intn(3) {
	case 0:
		n := 1 + r.Intn(6)
		s := "\\"
		for i := 0; i < n; i++ {
			s += string(cssHex[r.Intn(len(cssHex))])
		}
		if n == 6 && r.Intn(2) == 0 {
			// six digits end the escape by themselves: the next character, hex digit or not, belongs to the name. A
			// name character is written right away so that the optional terminating whitespace cannot be taken from a
			// following whitespace token.
			return s + Pick(r, []string{"1", "a", "F", "g", "-", "_", "é"})
		}
		// a shorter hex escape takes one following whitespace character as its terminator: always written, so that
		// the escape never absorbs the next name character or the first byte of a following whitespace token
		return s + Pick(r, []string{" ", " ", "\t", "\n"})
	case 1:
		return "\\" + Pick(r, []string{"g", "z", "G", "-", "!", "\"", "'", "(", ")", "\\", ".", "#", "@", " ", ":", ";", "{", "~", "+", "\x10", "\x15", "\x19", "\x01", "\x7f", "`", "/", "*"})
	default:
		return "\\" + Pick(r, []string{"é", "日", "😀"})
	}
}

func cssNameChars(r *rand.Rand, n int) string {
	var sb strings.Builder
	for i := 0; i < n; i++ {
		switch r.Intn(12) {
		case 0:
			sb.WriteString(cssEscape(r))
		case 1:
			sb.WriteString(Pick(r, []string{"é", "ß", "日本", "😀", " "}))
		case 2:
			sb.WriteByte('-')
		case 3:
			sb.WriteByte(byte('0' + r.Intn(10)))
		default:
			sb.WriteByte(cssNameStart[r.Intn(len(cssNameStart))])
		}
	}
	return sb.String()
}

// CSSIdent returns an identifier (never starting with "--", never spelling url).
func CSSIdent(r *rand.Rand) string {
	for {
		s := ""
		if r.Intn(5) == 0 {
			s = "-"
		}
		switch r.Intn(8) {
		case 0:
			s += cssEscape(r)
		case 1:
			s += Pick(r, []string{"é", "日", "😀"})
		default:
			s += string(cssNameStart[r.Intn(len(cssNameStart))])
		}
		s += cssNameChars(r, SmallLen(r, 6))
		plain := strings.ToLower(strings.ReplaceAll(s, "\\", ""))
		if plain == "url" || strings.HasPrefix(s, "--") {
			continue
		}
		return s
	}
}

func cssNumber(r *rand.Rand) string {
	s := Pick(r, []string{"", "", "", "+", "-"})
	switch r.Intn(3) {
	case 0:
		s += fmt.Sprint(r.Intn(1000))
	case 1:
		s += fmt.Sprint(r.Intn(100)) + "." + fmt.Sprint(r.Intn(1000))
	default:
		s += "." + fmt.Sprint(r.Intn(1000))
	}
	if r.Intn(4) == 0 {
		s += Pick(r, []string{"e", "E"}) + Pick(r, []string{"", "+", "-"}) + fmt.Sprint(r.Intn(40))
	}
	return s
}

func cssString(r *rand.Rand) string {
	q := Pick(r, []string{"\"", "'"})
	other := "'"
	if q == "'" {
		other = "\""
	}
	alpha := []string{"a", "b", " ", "é", "日本", other, "\\" + q, "\\\\", "\\41 ", "\\\n", "\\\r\n", "\\\f", "/*", "*/", "(", ")", "{", ";", "url(", "\t", "\\g", "<!--", "\x00", "\\26\n", "\\2f\r", "\\41\f", "\\e9\r\n", "\\000026\n"}
	var sb strings.Builder
	sb.WriteString(q)
	for i := SmallLen(r, 8); i > 0; i-- {
		sb.WriteString(Pick(r, alpha))
	}
	sb.WriteString(q)
	return sb.String()
}

func cssURLUnquoted(r *rand.Rand) string {
	alpha := []string{"a", "b", "/", ".", ":", "é", "日本", "#", "?", "=", "&", "%20", "\\)", "\\(", "\\ ", "\\'", "\\\"", "\\\\", "\\41 ", "-", "_", "~", "!", "*", ";", ",", "{", "}", "[", "<", ">"}
	var sb strings.Builder
	for i := SmallLen(r, 10); i > 0; i-- {
		sb.WriteString(Pick(r, alpha))
	}
	return sb.String()
}

func cssURLName(r *rand.Rand) string {
	return Pick(r, []string{"url", "url", "URL", "Url", "uRl", "urL"})
}

// CSSToken draws one token of a random kind.
func CSSToken(r *rand.Rand) CSSTok {
	switch r.Intn(34) {
	case 0, 1, 2:
		return CSSTok{"Ident", CSSIdent(r)}
	case 3:
		return CSSTok{"CustomPropertyName", "--" + cssNameChars(r, SmallLen(r, 6))}
	case 4:
		name := CSSIdent(r)
		if r.Intn(4) == 0 {
			name = Pick(r, []string{"url-prefix", "urlx", "ur", "domain", "rgb", "calc", "var", "u\\72l"}) // not url
			if name == "u\\72l" {
				name = "xurl"
			}
		}
		return CSSTok{"Function", name + "("}
	case 5:
		return CSSTok{"AtKeyword", "@" + Pick(r, []func() string{func() string { return CSSIdent(r) }, func() string { return "--" + cssNameChars(r, 1+r.Intn(3)) }})()}
	case 6:
		return CSSTok{"Hash", "#" + cssNameChars(r, 1+SmallLen(r, 6))}
	case 7, 8:
		return CSSTok{"String", cssString(r)}
	case 9:
		// raw newline inside a string: the token ends with that newline
		q := Pick(r, []string{"\"", "'"})
		body := HTMLSafe(r, []string{"a", " ", "\\" + q, "é", "\\\n", "x y"}, r.Intn(5))
		// (a CR that ends it is one newline of its own: an LF behind it is the next, whitespace, token)
		return CSSTok{"BadString", q + body + Pick(r, []string{"\n", "\f", "\r"})}
	case 10:
		ws := func() string { return Pick(r, []string{"", "", " ", "\n", "\t ", "  "}) }
		return CSSTok{"URL", cssURLName(r) + "(" + ws() + cssURLUnquoted(r) + ws() + ")"}
	case 11:
		ws := func() string { return Pick(r, []string{"", "", " ", "\n"}) }
		return CSSTok{"URL", cssURLName(r) + "(" + ws() + cssString(r) + ws() + ")"}
	case 12:
		// malformed url(: one BadURL token up to the first unescaped ')'
		bad := Pick(r, []string{"a b", "a\"b", "a'b", "a(b", "a\tb c", "\"x\" y", "'x'y", "a\\\nb", "\"x\ny", "a \\) b", "a\x7fb", "a\x01", "a\x00b", "a b\x00 c"})
		return CSSTok{"BadURL", cssURLName(r) + "(" + bad + ")"}
	case 13, 14:
		return CSSTok{"Number", cssNumber(r)}
	case 15:
		return CSSTok{"Percentage", cssNumber(r) + "%"}
	case 16, 17:
		unit := Pick(r, []string{"px", "em", "ex", "rem", "x", "deg", "s", "-x", "--y", "_", "é", "\\70x", "Q", "dpi", "n", "n-1", "e", "E", "e-", "e-x", "e_", "-\\41 x", "-\\-a", "-\\x", "-\\66oo"})
		return CSSTok{"Dimension", cssNumber(r) + unit}
	case 18:
		hex := func(n int) string {
			s := ""
			for i := 0; i < n; i++ {
				s += string(cssHex[r.Intn(len(cssHex))])
			}
			return s
		}
		u := Pick(r, []string{"U+", "u+"})
		switch r.Intn(3) {
		case 0:
			return CSSTok{"UnicodeRange", u + hex(1+r.Intn(6))}
		case 1:
			return CSSTok{"UnicodeRange", u + hex(1+r.Intn(6)) + "-" + hex(1+r.Intn(6))}
		default:
			n := r.Intn(6)
			return CSSTok{"UnicodeRange", u + hex(n) + strings.Repeat("?", 1+r.Intn(6-n))}
		}
	case 19:
		return Pick(r, []CSSTok{{"IncludeMatch", "~="}, {"DashMatch", "|="}, {"PrefixMatch", "^="}, {"SuffixMatch", "$="}, {"SubstringMatch", "*="}, {"Column", "||"}})
	case 20:
		return Pick(r, []CSSTok{{"CDO", "<!--"}, {"CDC", "-->"}})
	case 21:
		return CSSTok{"Colon", ":"}
	case 22:
		return CSSTok{"Semicolon", ";"}
	case 23:
		return CSSTok{"Comma", ","}
	case 24, 25:
		return Pick(r, []CSSTok{{"LeftBracket", "["}, {"RightBracket", "]"}, {"LeftParenthesis", "("}, {"RightParenthesis", ")"}, {"LeftBrace", "{"}, {"RightBrace", "}"}})
	case 26, 27, 28:
		return CSSTok{"Delim", Pick(r, []string{"#", "+", "-", ".", "<", "@", "/", "*", "$", "^", "~", "|", ">", "!", "%", "&", "=", "?", "\x01", "\x7f", "`", "\\"})}
	case 29, 30, 31:
		var sb strings.Builder
		for i := 1 + r.Intn(3); i > 0; i-- {
			sb.WriteString(Pick(r, []string{" ", " ", "\t", "\n", "\r\n", "\f", "\r"}))
		}
		return CSSTok{"Whitespace", sb.String()}
	default:
		body := HTMLSafe(r, []string{"a", " ", "*", "/", "\n", "é", "/*", "* /", "\"", "'", "{", "}", "\x00"}, r.Intn(6))
		body = strings.ReplaceAll(body, "*/", "* /")
		return CSSTok{"Comment", "/*" + body + "*/"}
	}
}

// HTMLSafe concatenates n picks of alphabet (shared helper).
func HTMLSafe(r *rand.Rand, alphabet []string, n int) string {
	var sb strings.Builder
	for i := 0; i < n; i++ {
		sb.WriteString(Pick(r, alphabet))
	}
	return sb.String()
}

func cssSafeEnd(kind string) bool {
	switch kind {
	case "String", "URL", "BadURL", "BadString", "Colon", "Semicolon", "Comma", "LeftBracket", "RightBracket", "LeftParenthesis", "RightParenthesis",
		"LeftBrace", "RightBrace", "Function", "Comment", "CDO", "CDC", "IncludeMatch", "DashMatch", "PrefixMatch", "SuffixMatch", "SubstringMatch", "Column", "Percentage":
		return true
	}
	return false
}

func cssSafeStart(kind string) bool {
	switch kind {
	case "Colon", "Semicolon", "Comma", "LeftBracket", "RightBracket", "RightParenthesis", "LeftBrace", "RightBrace", "String", "BadString":
		return true
	}
	return false
}

// CSSSequence generates a token sequence; separators (whitespace or an empty comment, themselves tokens of the
// expected sequence) are inserted wherever two adjacent tokens could merge (decided conservatively).
func CSSSequence(r *rand.Rand, n int) (src string, toks []CSSTok) {
	var sb strings.Builder
	add := func(t CSSTok) {
		toks = append(toks, t)
		sb.WriteString(t.Text)
	}
	for i := 0; i < n; i++ {
		t := CSSToken(r)
		if len(toks) > 0 {
			p := toks[len(toks)-1]
			if (p.Kind == "Dimension" || p.Kind == "Number") && t.Kind != "Delim" && r.Intn(4) == 0 {
				// a '+' that is not followed by a digit is a delimiter directly behind a number or a unit, also behind the
				// unit "e" (1e+x: no exponent)
				add(CSSTok{"Delim", "+"})
				p = toks[len(toks)-1]
				if t.Kind == "Number" || t.Kind == "Dimension" || t.Kind == "Percentage" {
					add(CSSTok{"Whitespace", " "})
					p = toks[len(toks)-1]
				}
			}
			need := !(cssSafeEnd(p.Kind) || cssSafeStart(t.Kind) || t.Kind == "Whitespace" && p.Kind != "Whitespace" || p.Kind == "Whitespace" && t.Kind != "Whitespace")
			if p.Kind == "Whitespace" && t.Kind == "Whitespace" {
				need = true
			}
			if p.Kind == "Delim" && p.Text == "\\" {
				// a backslash is a delimiter only in front of a newline
				if !(t.Kind == "Whitespace" && (t.Text[0] == '\n' || t.Text[0] == '\f' || t.Text[0] == '\r')) {
					add(CSSTok{"Whitespace", Pick(r, []string{"\n", "\f", "\r", "\n "})})
					if t.Kind == "Whitespace" {
						add(CSSTok{"Comment", "/**/"})
					}
				}
				need = false
			}
			if p.Kind == "BadString" && t.Kind == "Whitespace" {
				need = false
			}
			if need {
				if r.Intn(2) == 0 && p.Kind != "Whitespace" && t.Kind != "Whitespace" {
					add(CSSTok{"Whitespace", Pick(r, []string{" ", "\n", "\t", "  "})})
				} else {
					add(CSSTok{"Comment", "/**/"})
				}
			}
		}
		add(t)
	}
	if len(toks) > 0 && toks[len(toks)-1].Kind == "Delim" && toks[len(toks)-1].Text == "\\" {
		// at the very end a backslash is a delimiter as well
	}
	return sb.String(), toks
}
