package gen

import (
	"fmt"
	"math/rand"
	"strings"
	"unicode/utf8"
)

// JavaScript token-sequence generator for C06. The expected (kind, text) sequence is known at construction
// time; no lexer is used. Kinds: "Punct", "Reserved", "Contextual" (the expected token type is then the one
// whose canonical spelling is Text) or the name of a js.TokenType (Whitespace, LineTerminator, Comment,
// CommentLineTerminator, String, Template, TemplateStart, TemplateMiddle, TemplateEnd, RegExp,
// PrivateIdentifier, Identifier, Integer, Decimal, Hexadecimal, Binary, Octal).

// JSTok is one expected token.
type JSTok struct {
	Kind string
	Text string
	// Level / Templates: number of "{ ( ${" written minus "} )" written, and number of template literals open,
	// after this token (compared with hook H4).
	Level, Templates int
	// Glued: written directly behind the previous token (no separator token in between).
	Glued bool
}

// JSPunctuators is the punctuator vocabulary of ECMAScript 2023 (Punctuator, DivPunctuator, RightBracePunctuator,
// OptionalChainingPunctuator), written down from the specification.
var JSPunctuators = []string{
	"{", "}", "(", ")", "[", "]", ".", "...", ";", ",", "<", ">", "<=", ">=", "==", "!=", "===", "!==",
	"+", "-", "*", "%", "**", "++", "--", "<<", ">>", ">>>", "&", "|", "^", "!", "~", "&&", "||", "??", "?", ":",
	"=", "+=", "-=", "*=", "%=", "**=", "<<=", ">>=", ">>>=", "&=", "|=", "^=", "&&=", "||=", "??=", "=>",
	"?.", "/", "/=",
}

// jsMunch: everything a punctuator could grow into by maximal munch: the punctuators plus the comment openers.
var jsMunch = append(append([]string{}, JSPunctuators...), "//", "/*")

// JSReserved is ReservedWord of ECMAScript 2023.
var JSReserved = strings.Fields("await break case catch class const continue debugger default delete do else enum export extends false finally for function if import in instanceof new null return super switch this throw true try typeof var void while with yield")

// JSContextual: the strict-mode reserved words and contextual keywords the library has token types for.
var JSContextual = strings.Fields("let static implements interface package private protected public as async from get meta of set target")

// words that have a meaning somewhere in the grammar but no token type of their own: plain identifiers
var jsPlainWords = strings.Fields("arguments eval constructor undefined NaN Infinity prototype accessor using type global")

var jsKeywordSet = func() map[string]bool {
	m := map[string]bool{}
	for _, w := range JSReserved {
		m[w] = true
	}
	for _, w := range JSContextual {
		m[w] = true
	}
	return m
}()

const jsASCIIStart = "abcdefghijklmnopqrstuvwxyzABCDEFGHIJKLMNOPQRSTUVWXYZ$_"

// characters with ID_Start (categories Lu Ll Lt Lm Lo Nl and Other_ID_Start), stable since Unicode 6
var jsUniStart = []string{"é", "ß", "Ø", "α", "Ж", "א", "ع", "日", "本", "한", "ǅ", "ʰ", "ℵ", "Ⅷ", "℘", "℮", "゛", "\u1885", "𝒳", "𠀀", "𐐀"}

// characters with ID_Continue but not ID_Start (Mn Mc Nd Pc Other_ID_Continue), plus ZWNJ and ZWJ
var jsUniContinue = []string{"\u200c", "\u200d", "\u0301", "\u0903", "\u0663", "\u203f", "\u00b7", "\u1369", "\u19da", "\U0001D7D8", "\U000E0100"}

var jsEscStart = []string{"\\u0061", "\\u00e9", "\\u00E9", "\\u{61}", "\\u{1D4B3}", "\\u{00000061}", "\\u0024", "\\u{5f}", "\\u65e5", "\\u{000000061}", "\\u{0000000000000062}"}
var jsEscContinue = []string{"\\u200c", "\\u200D", "\\u0030", "\\u{39}", "\\u0301", "\\u{E0100}", "\\u{200d}", "\\u{0000000E0100}", "\\u{000000039}"}

func jsIdentStartChar(r *rand.Rand) string {
	switch r.Intn(10) {
	case 0:
		return Pick(r, jsUniStart)
	case 1:
		return Pick(r, jsEscStart)
	default:
		return string(jsASCIIStart[r.Intn(len(jsASCIIStart))])
	}
}

func jsIdentPartChar(r *rand.Rand) string {
	switch r.Intn(12) {
	case 0:
		return Pick(r, jsUniContinue)
	case 1:
		return Pick(r, jsEscContinue)
	case 2, 3:
		return string(byte('0' + r.Intn(10)))
	default:
		return jsIdentStartChar(r)
	}
}

// JSIdentifier returns an IdentifierName whose source text is not a keyword.
func JSIdentifier(r *rand.Rand) string {
	for {
		var s string
		switch r.Intn(10) {
		case 0: // keyword look-alikes
			w := Pick(r, JSReserved)
			if r.Intn(2) == 0 {
				w = Pick(r, JSContextual)
			}
			switch r.Intn(5) {
			case 0:
				s = w + jsIdentPartChar(r)
			case 1:
				s = strings.ToUpper(w[:1]) + w[1:]
			case 2: // one letter written as an escape: an IdentifierName, not a keyword token
				i := r.Intn(len(w))
				s = w[:i] + fmt.Sprintf(Pick(r, []string{"\\u%04x", "\\u{%x}", "\\u{%06X}"}), w[i]) + w[i+1:]
			case 3:
				s = Pick(r, []string{"_", "$"}) + w
			default:
				s = w[:len(w)-1]
			}
		case 1:
			s = Pick(r, jsPlainWords)
		default:
			s = jsIdentStartChar(r)
			for i := SmallLen(r, 8) % 9; i > 0; i-- {
				s += jsIdentPartChar(r)
			}
		}
		if s != "" && !jsKeywordSet[s] {
			return s
		}
	}
}

func jsDigits(r *rand.Rand, alphabet string, first string) string {
	var sb strings.Builder
	if first == "" {
		first = alphabet
	}
	sb.WriteByte(first[r.Intn(len(first))])
	for i := SmallLen(r, 6) % 7; i > 0; i-- {
		if r.Intn(4) == 0 {
			sb.WriteByte('_') // NumericLiteralSeparator: only between two digits
		}
		sb.WriteByte(alphabet[r.Intn(len(alphabet))])
	}
	return sb.String()
}

// JSNumber returns a numeric literal and the library's token type name for it: Integer (decimal integer or
// decimal BigInt), Decimal (fraction and/or exponent), Hexadecimal, Octal, Binary (each with optional n).
func JSNumber(r *rand.Rand) (kind, text string) {
	const dec = "0123456789"
	n := func() string {
		if r.Intn(3) == 0 {
			return "n"
		}
		return ""
	}
	intPart := func() string {
		if r.Intn(4) == 0 {
			return "0"
		}
		return jsDigits(r, dec, "123456789")
	}
	exp := func() string {
		return Pick(r, []string{"e", "E"}) + Pick(r, []string{"", "+", "-"}) + jsDigits(r, dec, "")
	}
	switch r.Intn(10) {
	case 0, 1, 2:
		return "Integer", intPart() + n()
	case 3:
		return "Hexadecimal", "0" + Pick(r, []string{"x", "X"}) + jsDigits(r, "0123456789abcdefABCDEF", "") + n()
	case 4:
		return "Octal", "0" + Pick(r, []string{"o", "O"}) + jsDigits(r, "01234567", "") + n()
	case 5:
		return "Binary", "0" + Pick(r, []string{"b", "B"}) + jsDigits(r, "01", "") + n()
	case 6:
		return "Decimal", "." + jsDigits(r, dec, "") + Pick(r, []string{"", "", exp()})
	case 7:
		return "Decimal", intPart() + exp()
	case 8:
		return "Decimal", intPart() + "." + Pick(r, []string{"", exp()})
	default:
		return "Decimal", intPart() + "." + jsDigits(r, dec, "") + Pick(r, []string{"", "", exp()})
	}
}

var jsStringAlpha = []string{"a", "b", " ", "é", "日本", "😀", "\t", "\x00", "\u2028", "\u2029", "\u00a0", "\\n", "\\b", "\\0", "\\v", "\\x41", "\\u0041", "\\u{1F600}", "\\u{0}",
	"\\\\", "\\a", "\\é", "\\😀", "\\\n", "\\\r\n", "\\\r", "\\\u2028", "\\\u2029", "/*", "*/", "//", "`", "${", "}", "<!--", "-->", "/", "#", "\\\\\\\\"}

// JSString returns a string literal: every escape kind, line continuations, raw U+2028/U+2029, the other quote.
func JSString(r *rand.Rand) string {
	q, other := "\"", "'"
	if r.Intn(2) == 0 {
		q, other = other, q
	}
	var sb strings.Builder
	sb.WriteString(q)
	for i := SmallLen(r, 10) % 11; i > 0; i-- {
		switch r.Intn(8) {
		case 0:
			sb.WriteString(other)
		case 1:
			sb.WriteString("\\" + Pick(r, []string{q, other}))
		default:
			sb.WriteString(Pick(r, jsStringAlpha))
		}
	}
	sb.WriteString(q)
	return sb.String()
}

var jsTemplateAlpha = []string{"a", "b", " ", "\n", "\r\n", "\r", "\u2028", "\u2029", "é", "😀", "\x00", "$", "$$", "{", "}", "{}", "\\`", "\\${", "$\\{", "\\$", "\\\\", "\\n", "\\u0041", "\\u{1F600}", "\\x41",
	"\\\n", "\\\r\n", "\\é", "'", "\"", "/*", "*/", "//", "<!--", "-->", "#", "/", "\\\\\\`", "\\\x00"}

// jsTemplateChars returns TemplateCharacters: no unescaped backquote and no "${".
func jsTemplateChars(r *rand.Rand) string {
	var s string
	for i := SmallLen(r, 8) % 9; i > 0; i-- {
		p := Pick(r, jsTemplateAlpha)
		if strings.HasSuffix(s, "$") && strings.HasPrefix(p, "{") {
			s += "a"
		}
		s += p
	}
	return s
}

var jsRegexpAlpha = []string{"a", "b+", ".", "\\/", "\\\\", "\\[", "\\]", "[/]", "[a-z/]", "[\\]/]", "[^/\\]]", "[[]", "[/[/]", "[\\\\]", "(", ")", "(?<n>x)", "{1,2}", "|", "^", "$", "*", "?", "+", "=",
	"é", "😀", " ", "\t", "`", "${", "}", "{", "'", "\"", "]", "\\d", "\\é", "\x00", "\\\x00", "*", "<!--", "-->", "#", ",", ";",
	// neighbours of the line terminators U+2028/U+2029 (same first two UTF-8 bytes): ordinary characters of a body
	"\u2027", "\u202a", "\u202f", "\u2030", "\u2038", "\u203c", "[\u2039\u203a]", "\\\u202e", "\u203f"}

// JSRegExp returns a well-formed regular expression literal: body with classes containing '/', escaped '/', an
// optional leading '=' (so that the literal starts with the '/=' token), flags of IdentifierPart characters.
func JSRegExp(r *rand.Rand) string {
	var sb strings.Builder
	sb.WriteByte('/')
	n := 1 + SmallLen(r, 8)%9
	for i := 0; i < n; i++ {
		p := Pick(r, jsRegexpAlpha)
		if i == 0 {
			if r.Intn(5) == 0 {
				p = "="
			}
			if p[0] == '*' { // "/*" would open a comment (RegularExpressionFirstChar excludes '*')
				p = "a"
			}
		}
		sb.WriteString(p)
	}
	sb.WriteByte('/')
	sb.WriteString(Pick(r, []string{"", "", "g", "gi", "dgimsuvy", "x1", "$", "_", "é", "g\u200d", "\u200cy", "\u0663", "G9_"}))
	return sb.String()
}

var jsWhitespace = []string{" ", " ", " ", "\t", "\v", "\f", "\u00a0", "\ufeff", "\u1680", "\u2000", "\u2003", "\u200a", "\u202f", "\u205f", "\u3000", "  ", " \t"}
var jsLineTerminators = []string{"\n", "\n", "\r\n", "\r", "\u2028", "\u2029", "\n\n", "\r\r\n"}
var jsCommentAlpha = []string{"a", " ", "*", "/", "é", "😀", "\x00", "/*", "//", "* /", "'", "\"", "`", "${", "}", "<!--", "-->", "\t", "\u00a0", "**", "\\"}
var jsCommentLTs = []string{"\n", "\r\n", "\r", "\u2028", "\u2029"}

func jsHasLT(s string) bool {
	return strings.ContainsAny(s, "\n\r\u2028\u2029")
}

// JSComment returns a comment and its kind: a single-line comment (ends before a line terminator), or a multi-line
// comment, which is a CommentLineTerminator exactly when its body contains a line terminator.
func JSComment(r *rand.Rand, single bool) (kind, text string) {
	var sb strings.Builder
	n := SmallLen(r, 8) % 9
	if single {
		sb.WriteString("//")
		for i := 0; i < n; i++ {
			sb.WriteString(Pick(r, jsCommentAlpha))
		}
		return "Comment", sb.String()
	}
	lt := r.Intn(2) == 0
	for i := 0; i < n; i++ {
		if lt && r.Intn(3) == 0 {
			sb.WriteString(Pick(r, jsCommentLTs))
		} else {
			sb.WriteString(Pick(r, jsCommentAlpha))
		}
	}
	body := sb.String()
	for strings.Contains(body, "*/") {
		body = strings.ReplaceAll(body, "*/", "* /")
	}
	if strings.HasSuffix(body, "*") && r.Intn(2) == 0 {
		body += " " // "/***/" is fine too, keep both
	}
	kind = "Comment"
	if jsHasLT(body) {
		kind = "CommentLineTerminator"
	}
	return kind, "/*" + body + "*/"
}

func jsIsDigit(c byte) bool { return '0' <= c && c <= '9' }

// JSNeedSep is the conservative would-merge predicate for token a written directly in front of token b: true when
// it cannot be excluded that the lexical grammar reads something else than a followed by b.
//   - a single-line comment runs to the line end: only a line terminator may follow;
//   - whitespace and line terminators never merge with other kinds (equal kinds are merged in the expected sequence);
//   - after an IdentifierName, private name or regular expression flags: no IdentifierPart character, no escape;
//   - after a numeric literal: no IdentifierStart, digit, escape or '.';
//   - after a punctuator: no longer punctuator or comment opener may be a prefix of the concatenation (brute force
//     over the vocabulary; also when the concatenation is a proper prefix of one, e.g. ".." of "..."), '.' and
//     "?." are not followed by a digit, nothing ending in '.' is followed by '.'; the one juxtaposition the
//     grammar itself defines is kept: "?" + ".5" is "?" ".5" (OptionalChainingPunctuator has a lookahead);
//   - strings, templates and multi-line comments end with their own closing delimiter.
func JSNeedSep(ak, at, bk, bt string) bool {
	switch {
	case ak == "Comment" && strings.HasPrefix(at, "//"):
		return bk != "LineTerminator"
	case ak == "Whitespace" || ak == "LineTerminator" || bk == "Whitespace" || bk == "LineTerminator":
		return false
	}
	c, _ := utf8.DecodeRuneInString(bt)
	identPart := c == '$' || c == '_' || c == '\\' || 'a' <= c && c <= 'z' || 'A' <= c && c <= 'Z' || '0' <= c && c <= '9' || c >= 0x80
	switch ak {
	case "Identifier", "Reserved", "Contextual", "PrivateIdentifier", "RegExp":
		return identPart
	case "Integer", "Decimal", "Hexadecimal", "Binary", "Octal":
		return identPart || c == '.'
	case "Punct":
		if at == "?" && len(bt) >= 2 && bt[0] == '.' && jsIsDigit(bt[1]) {
			return false
		}
		if at[len(at)-1] == '.' && (c == '.' || (at == "." || at == "?.") && jsIsDigit(bt[0])) {
			return true
		}
		ab := at + bt
		for _, p := range jsMunch {
			if len(p) > len(at) && strings.HasPrefix(p, at) && (strings.HasPrefix(ab, p) || strings.HasPrefix(p, ab)) {
				return true
			}
		}
	}
	return false
}

type jsTokGen struct {
	r      *rand.Rand
	src    strings.Builder
	toks   []JSTok
	level  int
	open   int // templates open
	budget int // tokens still to generate
	// lineInitial (conservative): no token other than whitespace/comments since the last line terminator (or the
	// start); any token containing a line terminator character sets it. decrInitial: the last token is "--" written
	// at such a position, so that a following '>' could be read as the HTML-like comment "-->".
	lineInitial, decrInitial bool
}

func (g *jsTokGen) emit(k, text string, glued bool) {
	switch k {
	case "Punct":
		switch text {
		case "{", "(":
			g.level++
		case "}", ")":
			g.level--
		}
	case "TemplateStart":
		g.level++
		g.open++
	case "TemplateEnd":
		g.level--
		g.open--
	}
	if n := len(g.toks); n > 0 && (k == "Whitespace" || k == "LineTerminator") && g.toks[n-1].Kind == k {
		g.toks[n-1].Text += text // the lexer returns a run of whitespace / of line terminators as one token
	} else {
		g.toks = append(g.toks, JSTok{Kind: k, Text: text, Level: g.level, Templates: g.open, Glued: glued})
	}
	g.src.WriteString(text)
	was := g.lineInitial
	g.decrInitial = false
	switch {
	case k == "LineTerminator" || jsHasLT(text) && k != "String" && !strings.HasPrefix(k, "Template"):
		// a line continuation inside a string or a raw line break inside a template does not start a line for this
		// purpose: the literal itself is a token on that line ('a\<LF>b'-->c is String -- > c)
		g.lineInitial = true
	case k == "Whitespace" || k == "Comment":
	default:
		g.lineInitial = false
		g.decrInitial = was && k == "Punct" && text == "--"
	}
}

func (g *jsTokGen) needSep(bk, bt string) bool {
	if len(g.toks) == 0 {
		return false
	}
	a := g.toks[len(g.toks)-1]
	if JSNeedSep(a.Kind, a.Text, bk, bt) {
		return true
	}
	// HTML-like comments (Annex B) are outside the statement: never complete "<!--", never write "-->" where the
	// "--" is the first token of its line
	if strings.HasPrefix(bt, "--") && strings.HasSuffix(g.src.String(), "<!") {
		return true
	}
	return g.decrInitial && bt[0] == '>'
}

func (g *jsTokGen) separator() (kind, text string) {
	switch g.r.Intn(10) {
	case 0, 1, 2, 3:
		return "Whitespace", Pick(g.r, jsWhitespace)
	case 4, 5, 6:
		return "LineTerminator", Pick(g.r, jsLineTerminators)
	case 7:
		return "Comment", "/**/"
	case 8:
		return "CommentLineTerminator", Pick(g.r, []string{"/*\n*/", "/*\r\n*/", "/*\u2028*/", "/* \r*/", "/*\u2029*/"})
	default:
		return JSComment(g.r, false)
	}
}

// add writes token (k, text), preceded by a separator token when JSNeedSep asks for one.
func (g *jsTokGen) add(k, text string) {
	glued := len(g.toks) > 0
	if g.needSep(k, text) {
		glued = false
		a := g.toks[len(g.toks)-1]
		sk, st := "LineTerminator", "\n" // safe between any two tokens
		for try := 0; try < 8; try++ {
			ck, ct := g.separator()
			if !JSNeedSep(a.Kind, a.Text, ck, ct) && !JSNeedSep(ck, ct, k, text) {
				sk, st = ck, ct
				break
			}
		}
		g.emit(sk, st, true)
	}
	g.emit(k, text, glued)
}

// token generates one token (or one whole template literal with its substitutions). frame is the stack of
// brackets opened in the enclosing template substitution (nil at the top level, where brackets are free).
func (g *jsTokGen) token(frame *[]byte) {
	r := g.r
	g.budget--
	x := r.Intn(100)
	if frame != nil && x >= 90 {
		x = 70 // more nested templates inside substitutions
	}
	switch {
	case x < 30:
		p := Pick(r, JSPunctuators)
		if frame != nil && r.Intn(4) == 0 {
			p = Pick(r, []string{"{", "}", "(", ")"}) // blocks inside substitutions: '}' closing a block vs resuming the template
		}
		if frame != nil {
			// inside a substitution '{' '(' ')' '}' are kept properly nested: the lexical goal for '}' is only
			// defined by the syntactic grammar, which needs the closing brace of the substitution to be unnested
			f := *frame
			switch p {
			case "{", "(":
				*frame = append(f, p[0])
			case "}", ")":
				if len(f) > 0 {
					p = map[byte]string{'{': "}", '(': ")"}[f[len(f)-1]]
					*frame = f[:len(f)-1]
				} else {
					p = Pick(r, []string{"{", "("})
					*frame = append(f, p[0])
				}
			}
		}
		g.add("Punct", p)
	case x < 33:
		g.add("Punct", Pick(r, []string{"/", "/=", "?.", "?", ".", "...", "--", ">", "<", "!", "-"}))
	case x < 34:
		// neighbourhoods the property names, drawn on purpose (every add still goes through the predicate)
		switch r.Intn(7) {
		case 0: // "<!-" is not the start of an HTML-like comment
			g.add("Punct", "<")
			g.add("Punct", "!")
			g.add("Punct", Pick(r, []string{"-", "-="}))
		case 1: // "?.5"
			g.add("Punct", "?")
			g.add("Decimal", "."+jsDigits(r, "0123456789", ""))
		case 2: // "a-->b" in the middle of a line
			g.add("Identifier", JSIdentifier(r))
			g.add("Punct", "--")
			g.add("Punct", Pick(r, []string{">", ">=", ">>", ">>>="}))
		case 3: // optional chain in front of a non-digit
			g.add("Punct", "?.")
			switch r.Intn(4) {
			case 0:
				g.add("Identifier", JSIdentifier(r))
			case 1:
				g.add("PrivateIdentifier", "#"+JSIdentifier(r))
			case 2:
				g.add("Punct", Pick(r, []string{"[", "?", "!", "-", "?."}))
			default:
				g.add("Template", "`"+jsTemplateChars(r)+"`")
			}
		case 4:
			g.add(JSNumber(r))
			g.add("PrivateIdentifier", "#"+JSIdentifier(r))
		case 5: // a literal that contains a line break is a token of its line: "--" ">" behind it is not an HTML-like comment
			if r.Intn(2) == 0 {
				g.add("String", Pick(r, []string{"'a\\\nb'", "\"\\\r\n\"", "'\\\u2028'", "\"x\\\ry\""}))
			} else {
				g.add("Template", "`a\nb`")
			}
			if r.Intn(2) == 0 {
				g.add("Whitespace", Pick(r, jsWhitespace))
			}
			g.add("Punct", "--")
			g.add("Punct", Pick(r, []string{">", ">=", ">>"}))
		default:
			g.add("Punct", Pick(r, []string{">>>", ">>", ">", "**", "&&", "||", "??", "<<", "=", "!", "=="}))
			g.add("Punct", Pick(r, []string{"=", "==", "=>", ">", ">=", "?.", "."}))
		}
	case x < 42:
		g.add("Reserved", Pick(r, JSReserved))
	case x < 47:
		g.add("Contextual", Pick(r, JSContextual))
	case x < 58:
		g.add("Identifier", JSIdentifier(r))
	case x < 60:
		name := JSIdentifier(r)
		if r.Intn(4) == 0 {
			name = Pick(r, JSReserved) // #if, #class are private names like any other
		}
		g.add("PrivateIdentifier", "#"+name)
	case x < 70:
		g.add(JSNumber(r))
	case x < 76:
		g.template()
	case x < 82:
		g.add("String", JSString(r))
	case x < 86:
		g.add("RegExp", JSRegExp(r))
	case x < 88:
		g.add(JSComment(r, true))
	case x < 91:
		g.add(JSComment(r, false))
	case x < 96:
		g.add("Whitespace", Pick(r, jsWhitespace))
	default:
		g.add("LineTerminator", Pick(r, jsLineTerminators))
	}
}

// JSMaxTemplateDepth is the number of template literals that may be open at once.
const JSMaxTemplateDepth = 5

func (g *jsTokGen) template() {
	r := g.r
	nsub := 0
	if g.open < JSMaxTemplateDepth {
		nsub = Pick(r, []int{0, 1, 1, 1, 2, 3})
	}
	if nsub == 0 {
		g.add("Template", "`"+jsTemplateChars(r)+"`")
		return
	}
	g.add("TemplateStart", "`"+jsTemplateChars(r)+"${")
	for i := 0; i < nsub; i++ {
		frame := []byte{}
		for n := r.Intn(6); n > 0 && g.budget > 0; n-- {
			g.token(&frame)
		}
		for len(frame) > 0 {
			g.add("Punct", map[byte]string{'{': "}", '(': ")"}[frame[len(frame)-1]])
			frame = frame[:len(frame)-1]
		}
		// '}' resumes the template: the brackets of the substitution are balanced here
		if i < nsub-1 {
			g.add("TemplateMiddle", "}"+jsTemplateChars(r)+"${")
		} else {
			g.add("TemplateEnd", "}"+jsTemplateChars(r)+"`")
		}
	}
}

// JSSequence generates about n tokens (separators and template parts come on top) and returns the source text and
// the expected token sequence.
func JSSequence(r *rand.Rand, n int) (src string, toks []JSTok) {
	g := &jsTokGen{r: r, budget: n, lineInitial: true}
	for g.budget > 0 {
		g.token(nil)
	}
	return g.src.String(), g.toks
}
