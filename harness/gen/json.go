package gen

import (
	"fmt"
	"math/rand"
	"strconv"
)

// JSONTok is one token of a generated JSON document.
type JSONTok struct {
	Kind byte   // '{' '}' '[' ']' ',' ':' 'k' (key string) 's' (string) 'n' (number) 'l' (literal)
	Text string // spelling
	Pre  string // insignificant whitespace before the token
}

var jsonWS = []string{"", "", "", " ", "\n", "\t", "\r\n", "  ", " \t\n"}

func jsonString(r *rand.Rand) string {
	n := SmallLen(r, 12)
	b := []byte{'"'}
	for i := 0; i < n; i++ {
		switch r.Intn(14) {
		case 0:
			b = append(b, '\\', Pick(r, []byte{'"', '\\', '/', 'b', 'f', 'n', 'r', 't'}))
		case 1:
			b = append(b, fmt.Sprintf("\\u%04x", r.Intn(0x10000))...)
		case 2:
			b = append(b, fmt.Sprintf("\\uD83D\\uDE%02X", r.Intn(0x40))...)
		case 3:
			// runs of backslashes before the closing quote or in the middle
			k := 1 + r.Intn(3)
			for j := 0; j < k; j++ {
				b = append(b, '\\', '\\')
			}
		case 4:
			b = append(b, '\\', '\\', '\\', '"')
		case 5:
			b = append(b, string(Rune(r))...)
			for b[len(b)-1] < 0x20 || b[len(b)-1] == '"' || b[len(b)-1] == '\\' {
				b[len(b)-1] = 'x'
			}
		case 6:
			b = append(b, Pick(r, []string{"{", "}", "[", "]", ",", ":", " ", "'", "/*", "true", "//"})...)
		default:
			b = append(b, byte('a'+r.Intn(26)))
		}
	}
	return string(append(b, '"'))
}

func jsonNumber(r *rand.Rand) string {
	s := ""
	if r.Intn(3) == 0 {
		s = "-"
	}
	if r.Intn(4) == 0 {
		s += "0"
	} else {
		s += strconv.Itoa(1 + r.Intn(9))
		for i := r.Intn(5); i > 0; i-- {
			s += strconv.Itoa(r.Intn(10))
		}
	}
	if r.Intn(3) == 0 {
		s += "."
		for i := 1 + r.Intn(4); i > 0; i-- {
			s += strconv.Itoa(r.Intn(10))
		}
	}
	if r.Intn(3) == 0 {
		s += Pick(r, []string{"e", "E"}) + Pick(r, []string{"", "+", "-"})
		for i := 1 + r.Intn(3); i > 0; i-- {
			s += strconv.Itoa(r.Intn(10))
		}
	}
	return s
}

// JSONDoc generates the token list of a valid JSON document.
func JSONDoc(r *rand.Rand, maxDepth int) []JSONTok {
	var toks []JSONTok
	emit := func(k byte, text string) {
		toks = append(toks, JSONTok{Kind: k, Text: text, Pre: Pick(r, jsonWS)})
	}
	budget := 2 + r.Intn(60)
	var value func(depth int)
	value = func(depth int) {
		budget--
		c := r.Intn(10)
		if depth >= maxDepth || budget <= 0 {
			c = 4 + r.Intn(6)
		}
		switch {
		case c < 2: // object
			emit('{', "{")
			n := r.Intn(4)
			for i := 0; i < n; i++ {
				if i > 0 {
					emit(',', ",")
				}
				emit('k', jsonString(r))
				emit(':', ":")
				value(depth + 1)
			}
			emit('}', "}")
		case c < 4: // array
			emit('[', "[")
			n := r.Intn(4)
			for i := 0; i < n; i++ {
				if i > 0 {
					emit(',', ",")
				}
				value(depth + 1)
			}
			emit(']', "]")
		case c < 6:
			emit('s', jsonString(r))
		case c < 8:
			emit('n', jsonNumber(r))
		default:
			emit('l', Pick(r, []string{"true", "false", "null"}))
		}
	}
	value(0)
	return toks
}

// JSONSpell writes the tokens and returns the document plus the byte offset at which each token starts.
func JSONSpell(toks []JSONTok, trailing string) (doc []byte, offs []int) {
	for _, t := range toks {
		doc = append(doc, t.Pre...)
		offs = append(offs, len(doc))
		doc = append(doc, t.Text...)
	}
	doc = append(doc, trailing...)
	return
}
