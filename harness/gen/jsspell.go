package gen

import (
	"fmt"
	"math/rand"
	"strings"
)

// JSStyle selects one spelling of an abstract program.
type JSStyle struct {
	Parens int // 0 minimal, 1 every operand parenthesised, 2 random redundant parentheses
	Semi   int // 0 explicit ';', 1 omitted before '}' and at the end, 2 also left to ASI at safe line breaks
	WS     int // 0 compact, 1 single spaces, 2 random whitespace, comments and line breaks
	Seed   int64
	KwOcc  bool // list keyword uses of identifier-like words (async, get, of, let, static, …) among the identifier occurrences, with Bind -2
	Bang   int  // >0: about one separator in Bang is a bang comment (/*! … */ or //! …), which the parser keeps as Comment statements
}

// JSIdentOcc is one identifier token of the spelled program, in source order.
type JSIdentOcc struct {
	Name string
	Bind int // >0 declared binding, 0 global, -1 not a binding occurrence (property name, label), -2 keyword use of an identifier-like word (only with JSStyle.KwOcc)
	Decl bool
	// Short: written as shorthand ({a} / {a = 1}): a printer that renames the binding must spell key and value
	Short bool
}

type jsTok struct {
	s        string
	noLT     bool // no line terminator may precede this token
	id       *JSIdentOcc
	arrowEnd bool // the '}' that ends the block body of an arrow function: nothing can continue the expression after it
}

type jsSpeller struct {
	r    *rand.Rand
	st   JSStyle
	toks []jsTok
	noIn bool
}

// words the lexer classifies as identifiers although they are used as keywords (js.IsIdentifier)
var jsIdentLikeKeywords = map[string]bool{"as": true, "async": true, "from": true, "get": true, "let": true, "meta": true, "of": true, "set": true, "static": true, "target": true}

func (s *jsSpeller) kwOcc(text string) *JSIdentOcc {
	if s.st.KwOcc && jsIdentLikeKeywords[text] {
		return &JSIdentOcc{Name: text, Bind: -2}
	}
	return nil
}
func (s *jsSpeller) t(text string) { s.toks = append(s.toks, jsTok{s: text, id: s.kwOcc(text)}) }
func (s *jsSpeller) tNoLT(text string) {
	s.toks = append(s.toks, jsTok{s: text, noLT: true, id: s.kwOcc(text)})
}
func (s *jsSpeller) ident(n *JSNode, short bool) {
	s.toks = append(s.toks, jsTok{s: n.S, id: &JSIdentOcc{Name: n.S, Bind: n.Bind, Decl: n.Decl, Short: short}})
}
func (s *jsSpeller) name(text string) {
	s.toks = append(s.toks, jsTok{s: text, id: &JSIdentOcc{Name: text, Bind: -1}})
}

// sub spells f into a fresh token list and returns it (used to look at the first token).
func (s *jsSpeller) sub(f func()) []jsTok {
	save := s.toks
	s.toks = nil
	f()
	out := s.toks
	s.toks = save
	return out
}

func (s *jsSpeller) inBrackets(f func()) {
	save := s.noIn
	s.noIn = false
	f()
	s.noIn = save
}

func (s *jsSpeller) redundant() bool {
	switch s.st.Parens {
	case 1:
		return true
	case 2:
		return s.r.Intn(4) == 0
	}
	return false
}

func isOptChain(n *JSNode) bool {
	switch n.K {
	case "optmember", "optindex", "optcall":
		return true
	case "member", "index", "call":
		return isOptChain(n.Kids[0])
	}
	return false
}

func newSafe(n *JSNode) bool {
	switch n.K {
	case "ident", "kw", "funcexpr", "class", "array", "object", "str", "regex", "template", "new":
		return n.K != "kw" || n.S == "this"
	case "member", "index":
		return newSafe(n.Kids[0])
	}
	return false
}

// operand spells a sub-expression that must have precedence >= min; wrap allows redundant parentheses.
func (s *jsSpeller) operand(n *JSNode, min int, wrap bool) {
	if n.K == "privname" {
		s.t(n.S) // the private name of `#p in o` is never parenthesised
		return
	}
	need := n.prec() < min
	if n.K == "bin" && n.Op == "in" && s.noIn {
		need = true
	}
	if n.K == "num" && min == pCall+100 { // number as member object
		need = true
	}
	if need || wrap && s.redundant() {
		s.t("(")
		s.inBrackets(func() { s.expr(n) })
		s.t(")")
		return
	}
	s.expr(n)
}

// target spells a (destructuring) assignment target.
func (s *jsSpeller) target(n *JSNode) {
	switch n.K {
	case "tdefault":
		s.target(n.Kids[0])
		s.t("=")
		s.operand(n.Kids[1], pAssign, true)
	case "trest":
		s.t("...")
		s.target(n.Kids[0])
	case "arrtarget":
		s.t("[")
		s.inBrackets(func() {
			for i, k := range n.Kids {
				if i > 0 {
					s.t(",")
				}
				if k.K != "hole" {
					s.target(k)
				}
			}
		})
		s.t("]")
	case "objtarget":
		s.t("{")
		s.inBrackets(func() {
			for i, k := range n.Kids {
				if i > 0 {
					s.t(",")
				}
				switch k.K {
				case "propshort":
					s.ident(k.Kids[0], true)
					if len(k.Kids) > 1 {
						s.t("=")
						s.operand(k.Kids[1], pAssign, true)
					}
				case "prop":
					s.key(k.Kids[0])
					s.t(":")
					s.target(k.Kids[1])
				default:
					s.target(k)
				}
			}
		})
		s.t("}")
	default:
		s.operand(n, pCall, false)
	}
}

func (s *jsSpeller) argList(args []*JSNode) {
	s.t("(")
	s.inBrackets(func() {
		for i, a := range args {
			if i > 0 {
				s.t(",")
			}
			if a.K == "spread" {
				s.t("...")
				s.operand(a.Kids[0], pAssign, true)
				continue
			}
			s.operand(a, pAssign, true)
		}
	})
	s.t(")")
}

func (s *jsSpeller) key(k *JSNode) {
	switch k.K {
	case "keyid":
		s.name(k.S)
	case "keystr", "keynum", "keypriv":
		s.t(k.S)
	case "keycomp":
		s.t("[")
		s.inBrackets(func() { s.operand(k.Kids[0], pAssign, true) })
		s.t("]")
	}
}

func (s *jsSpeller) pattern(p *JSNode) {
	switch p.K {
	case "ident":
		s.ident(p, false)
	case "arrpat":
		s.t("[")
		s.inBrackets(func() {
			for i, el := range p.Kids {
				if i > 0 {
					s.t(",")
				}
				switch el.K {
				case "hole":
					if i == len(p.Kids)-1 {
						s.t(",") // a trailing hole needs its own comma
					}
				case "rest":
					s.t("...")
					s.pattern(el.Kids[0])
				default:
					s.patel(el)
				}
			}
		})
		s.t("]")
	case "objpat":
		s.t("{")
		s.inBrackets(func() {
			for i, el := range p.Kids {
				if i > 0 {
					s.t(",")
				}
				switch el.K {
				case "rest":
					s.t("...")
					s.pattern(el.Kids[0])
				case "patshort":
					s.ident(el.Kids[0], true)
					if len(el.Kids) > 1 {
						s.t("=")
						s.operand(el.Kids[1], pAssign, true)
					}
				case "patprop":
					s.key(el.Kids[0])
					s.t(":")
					s.pattern(el.Kids[1])
					if len(el.Kids) > 2 {
						s.t("=")
						s.operand(el.Kids[2], pAssign, true)
					}
				}
			}
		})
		s.t("}")
	}
}

func (s *jsSpeller) patel(el *JSNode) {
	s.pattern(el.Kids[0])
	if len(el.Kids) > 1 {
		s.t("=")
		s.operand(el.Kids[1], pAssign, true)
	}
}

func (s *jsSpeller) params(p *JSNode) {
	s.t("(")
	s.inBrackets(func() {
		for i, el := range p.Kids {
			if i > 0 {
				s.t(",")
			}
			if el.K == "rest" {
				s.t("...")
				s.pattern(el.Kids[0])
			} else {
				s.patel(el)
			}
		}
	})
	s.t(")")
}

func (s *jsSpeller) body(b *JSNode) {
	s.t("{")
	s.inBrackets(func() { s.stmtList(b.Kids, true) })
	s.t("}")
}

func (s *jsSpeller) funcHead(n *JSNode) {
	if n.flag("async") {
		s.t("async")
		s.tNoLT("function")
	} else {
		s.t("function")
	}
	if n.flag("gen") {
		s.t("*")
	}
}

func (s *jsSpeller) methodLike(el *JSNode, key, params, body *JSNode) {
	if el.Op == "get" || el.Op == "set" {
		s.t(el.Op)
	}
	if el.flag("async") {
		s.t("async")
		if el.flag("gen") {
			s.tNoLT("*")
		}
	} else if el.flag("gen") {
		s.t("*")
	}
	if el.flag("async") && !el.flag("gen") {
		// no line terminator between async and the method name
		save := len(s.toks)
		s.key(key)
		s.toks[save].noLT = true
	} else {
		s.key(key)
	}
	s.params(params)
	s.body(body)
}

func (s *jsSpeller) class(n *JSNode) {
	s.t("class")
	if n.Kids[0] != nil {
		s.ident(n.Kids[0], false)
	}
	if n.Kids[1] != nil {
		s.t("extends")
		s.operand(n.Kids[1], pCall, true)
	}
	s.t("{")
	s.inBrackets(func() {
		for _, el := range n.Kids[2].Kids {
			if el.Op == "staticblock" {
				s.t("static")
				s.body(el.Kids[0])
				continue
			}
			if el.flag("static") {
				s.t("static")
			}
			switch el.Op {
			case "field":
				s.key(el.Kids[0])
				if len(el.Kids) > 1 {
					s.t("=")
					s.operand(el.Kids[1], pAssign, true)
				}
				s.t(";")
			default:
				s.methodLike(el, el.Kids[0], el.Kids[1], el.Kids[2])
			}
			if s.r.Intn(6) == 0 {
				s.t(";")
			}
		}
	})
	s.t("}")
}

func (s *jsSpeller) expr(n *JSNode) {
	switch n.K {
	case "ident":
		s.ident(n, false)
	case "num", "str", "kw", "regex":
		s.t(n.S)
	case "template":
		for i, p := range n.Parts {
			text := p
			if i == 0 {
				text = "`" + text
			} else {
				text = "}" + text
			}
			if i == len(n.Parts)-1 {
				text += "`"
			} else {
				text += "${"
			}
			s.t(text)
			if i < len(n.Kids) {
				s.inBrackets(func() { s.operand(n.Kids[i], pComma, true) })
			}
		}
	case "tagged":
		s.operand(n.Kids[0], pCall, false)
		s.expr(n.Kids[1])
	case "comma":
		for i, k := range n.Kids {
			if i > 0 {
				s.t(",")
			}
			s.operand(k, pAssign, true)
		}
	case "assign":
		s.target(n.Kids[0])
		s.t(n.Op)
		s.operand(n.Kids[1], pAssign, true)
	case "cond":
		s.operand(n.Kids[0], pNullish, true)
		s.t("?")
		save := s.noIn
		s.noIn = false // the middle operand of ?: always allows 'in'
		s.operand(n.Kids[1], pAssign, true)
		s.noIn = save
		s.t(":")
		s.operand(n.Kids[2], pAssign, true)
	case "bin":
		lv := jsBinOps[n.Op]
		lmin, rmin := lv, lv+1
		if n.Op == "**" {
			lmin, rmin = pPostfix, pExp
			if n.Kids[0].K == "preupdate" {
				lmin = pUnary // ++a ** b: an update expression can be the base, only unary operators cannot
			}
		}
		mixed := func(c *JSNode) bool {
			return n.Op == "??" && c.K == "bin" && (c.Op == "||" || c.Op == "&&") || (n.Op == "||" || n.Op == "&&") && c.K == "bin" && c.Op == "??"
		}
		side := func(c *JSNode, min int) {
			if mixed(c) {
				min = pPrimary
			}
			s.operand(c, min, true)
		}
		side(n.Kids[0], lmin)
		s.t(n.Op)
		side(n.Kids[1], rmin)
	case "unary":
		s.t(n.Op)
		s.operand(n.Kids[0], pUnary, true)
	case "await":
		s.t("await")
		s.operand(n.Kids[0], pUnary, true)
	case "preupdate":
		s.t(n.Op)
		s.operand(n.Kids[0], pCall, false)
	case "postupdate":
		s.operand(n.Kids[0], pCall, false)
		s.tNoLT(n.Op)
	case "member", "optmember":
		if n.K == "optmember" && n.Kids[0].K == "num" && s.r.Intn(2) == 0 {
			s.t(n.Kids[0].S) // 1?.k: "?." in front of a name is an optional chain also behind a number
		} else {
			s.object(n.Kids[0])
		}
		if n.K == "optmember" {
			s.t("?.")
		} else {
			s.t(".")
		}
		if strings.HasPrefix(n.S, "#") {
			s.t(n.S) // a private name is not an identifier occurrence
		} else {
			s.name(n.S)
		}
	case "index", "optindex":
		s.object(n.Kids[0])
		if n.K == "optindex" {
			s.t("?.")
		}
		s.t("[")
		s.inBrackets(func() { s.operand(n.Kids[1], pComma, true) })
		s.t("]")
	case "call", "optcall":
		s.object(n.Kids[0])
		if n.K == "optcall" {
			s.t("?.")
		}
		s.argList(n.Kids[1:])
	case "new", "new0":
		s.t("new")
		c := n.Kids[0]
		if !newSafe(c) || c.prec() < pCall {
			s.t("(")
			s.inBrackets(func() { s.expr(c) })
			s.t(")")
		} else {
			s.expr(c)
		}
		if n.K == "new" {
			s.argList(n.Kids[1:])
		}
	case "import":
		s.t("import")
		s.t("(")
		s.inBrackets(func() { s.operand(n.Kids[0], pAssign, true) })
		s.t(")")
	case "privname":
		s.t(n.S)
	case "importmeta":
		s.t("import")
		s.t(".")
		s.t("meta")
	case "super":
		s.t("super")
		if n.Op == "index" {
			s.t("[")
			s.inBrackets(func() { s.operand(n.Kids[0], pComma, true) })
			s.t("]")
		} else {
			s.t(".")
			s.name(n.S)
		}
	case "newtarget":
		s.t("new")
		s.t(".")
		s.t("target") // lexed as a contextual keyword, not an identifier
	case "array":
		s.t("[")
		s.inBrackets(func() {
			for i, k := range n.Kids {
				if i > 0 {
					s.t(",")
				}
				switch k.K {
				case "hole":
					if i == len(n.Kids)-1 {
						s.t(",")
					}
				case "spread":
					s.t("...")
					s.operand(k.Kids[0], pAssign, true)
				default:
					s.operand(k, pAssign, true)
				}
			}
		})
		s.t("]")
	case "object":
		s.t("{")
		s.inBrackets(func() {
			for i, k := range n.Kids {
				if i > 0 {
					s.t(",")
				}
				switch k.K {
				case "propshort":
					s.ident(k.Kids[0], true)
				case "spread":
					s.t("...")
					s.operand(k.Kids[0], pAssign, true)
				case "prop":
					s.key(k.Kids[0])
					s.t(":")
					s.operand(k.Kids[1], pAssign, true)
				case "propmethod":
					s.methodLike(k, k.Kids[0], k.Kids[1], k.Kids[2])
				case "propaccessor":
					s.methodLike(k, k.Kids[0], k.Kids[1], k.Kids[2])
				}
			}
			if len(n.Kids) > 0 && s.r.Intn(5) == 0 {
				s.t(",")
			}
		})
		s.t("}")
	case "funcexpr":
		s.funcHead(n)
		if n.Kids[0] != nil {
			s.ident(n.Kids[0], false)
		}
		s.params(n.Kids[1])
		s.body(n.Kids[2])
	case "class":
		s.class(n)
	case "arrow":
		if n.flag("async") {
			s.t("async")
		}
		if n.flag("bareparam") {
			save := len(s.toks)
			s.pattern(n.Kids[0].Kids[0].Kids[0])
			if n.flag("async") {
				s.toks[save].noLT = true
			}
		} else {
			save := len(s.toks)
			s.params(n.Kids[0])
			if n.flag("async") {
				s.toks[save].noLT = true
			}
		}
		s.tNoLT("=>")
		if n.flag("exprbody") {
			body := s.sub(func() { s.operand(n.Kids[1], pAssign, false) })
			if len(body) > 0 && body[0].s == "{" {
				s.t("(")
				s.toks = append(s.toks, body...)
				s.t(")")
			} else {
				s.toks = append(s.toks, body...)
			}
		} else {
			s.body(n.Kids[1])
			s.toks[len(s.toks)-1].arrowEnd = true
		}
	case "yield":
		s.t("yield")
		if n.Kids[0] == nil {
			break
		}
		if n.Op == "*" {
			s.tNoLT("*")
			s.operand(n.Kids[0], pAssign, true)
		} else {
			save := len(s.toks)
			s.operand(n.Kids[0], pAssign, true)
			s.toks[save].noLT = true
		}
	case "noin":
		save := s.noIn
		s.noIn = true
		s.operand(n.Kids[0], pComma, false)
		s.noIn = save
	}
}

// object spells the object of a member access / the callee of a call.
func (s *jsSpeller) object(o *JSNode) {
	switch {
	case o.K == "num":
		s.t("(")
		s.t(o.S)
		s.t(")")
	case isOptChain(o):
		// the chain continues; parentheses would start a new chain
		s.operand(o, pCall, false)
	case o.K == "funcexpr" || o.K == "class" || o.K == "object" || o.K == "arrow":
		s.operand(o, pCall, true)
	default:
		s.operand(o, pCall, true)
	}
}

func firstTok(ts []jsTok) string {
	if len(ts) == 0 {
		return ""
	}
	return ts[0].s
}

// stmt spells one statement without its terminator; it returns whether a terminator is needed.
func (s *jsSpeller) stmt(n *JSNode) (needsSemi bool) {
	switch n.K {
	case "exprstmt":
		ts := s.sub(func() { s.expr(n.Kids[0]) })
		f := firstTok(ts)
		if f == "{" || f == "function" || f == "class" || f == "async" || f == "let" {
			s.t("(")
			s.toks = append(s.toks, ts...)
			s.t(")")
		} else {
			s.toks = append(s.toks, ts...)
		}
		return true
	case "directive":
		s.t(n.S)
		return true
	case "vardecl":
		s.vardecl(n)
		return true
	case "block":
		s.body(n)
	case "empty":
		s.t(";")
	case "if":
		s.t("if")
		s.t("(")
		s.inBrackets(func() { s.operand(n.Kids[0], pComma, true) })
		s.t(")")
		s.substmt(n.Kids[1], n.Kids[2] != nil)
		if n.Kids[2] != nil {
			s.t("else")
			s.substmt(n.Kids[2], false)
		}
	case "while":
		s.t("while")
		s.t("(")
		s.inBrackets(func() { s.operand(n.Kids[0], pComma, true) })
		s.t(")")
		s.substmt(n.Kids[1], false)
	case "dowhile":
		s.t("do")
		s.substmt(n.Kids[1], true)
		s.t("while")
		s.t("(")
		s.inBrackets(func() { s.operand(n.Kids[0], pComma, true) })
		s.t(")")
		s.t(";")
	case "for":
		s.t("for")
		s.t("(")
		if n.Kids[0] != nil {
			save := s.noIn
			s.noIn = true
			if n.Kids[0].K == "vardecl" {
				s.vardecl(n.Kids[0])
			} else {
				ts := s.sub(func() { s.expr(n.Kids[0]) })
				if firstTok(ts) == "let" {
					ts = append([]jsTok{{s: "("}}, append(ts, jsTok{s: ")"})...)
				}
				s.toks = append(s.toks, ts...)
			}
			s.noIn = save
		}
		s.t(";")
		if n.Kids[1] != nil {
			s.inBrackets(func() { s.operand(n.Kids[1], pComma, true) })
		}
		s.t(";")
		if n.Kids[2] != nil {
			s.inBrackets(func() { s.operand(n.Kids[2], pComma, true) })
		}
		s.t(")")
		s.substmt(n.Kids[3], false)
	case "forin", "forof":
		s.t("for")
		if n.flag("await") {
			s.t("await")
		}
		s.t("(")
		if n.Kids[0].K == "vardecl" {
			s.t(n.Kids[0].Op)
			s.pattern(n.Kids[0].Kids[0].Kids[0])
		} else {
			s.target(n.Kids[0])
		}
		if n.K == "forin" {
			s.t("in")
			s.inBrackets(func() { s.operand(n.Kids[1], pComma, true) })
		} else {
			s.t("of")
			s.inBrackets(func() { s.operand(n.Kids[1], pAssign, true) })
		}
		s.t(")")
		s.substmt(n.Kids[2], false)
	case "break", "continue":
		s.t(n.K)
		if n.S != "" {
			s.toks = append(s.toks, jsTok{s: n.S, noLT: true, id: &JSIdentOcc{Name: n.S, Bind: -1}})
		}
		return true
	case "return", "throw":
		s.t(n.K)
		if len(n.Kids) > 0 && n.Kids[0] != nil {
			save := len(s.toks)
			s.inBrackets(func() { s.operand(n.Kids[0], pComma, true) })
			s.toks[save].noLT = true
		}
		return true
	case "debugger":
		s.t("debugger")
		return true
	case "switch":
		s.t("switch")
		s.t("(")
		s.inBrackets(func() { s.operand(n.Kids[0], pComma, true) })
		s.t(")")
		s.t("{")
		s.inBrackets(func() {
			for ci, cl := range n.Kids[1:] {
				if cl.Kids[0] == nil {
					s.t("default")
				} else {
					s.t("case")
					s.operand(cl.Kids[0], pComma, true)
				}
				s.t(":")
				s.stmtList(cl.Kids[1:], ci == len(n.Kids)-2)
			}
		})
		s.t("}")
	case "labelled":
		s.name(n.S)
		s.t(":")
		return s.stmt(n.Kids[0])
	case "try":
		s.t("try")
		s.body(n.Kids[0])
		if n.Kids[2] != nil {
			s.t("catch")
			if n.Kids[1] != nil && n.Kids[1].K != "nobinding" {
				s.t("(")
				s.inBrackets(func() { s.pattern(n.Kids[1]) })
				s.t(")")
			}
			s.body(n.Kids[2])
		}
		if n.Kids[3] != nil {
			s.t("finally")
			s.body(n.Kids[3])
		}
	case "funcdecl":
		s.funcHead(n)
		s.ident(n.Kids[0], false)
		s.params(n.Kids[1])
		s.body(n.Kids[2])
	case "class":
		s.class(n)
	case "import", "exportraw":
		for i, w := range strings.Fields(n.S) {
			_ = i
			s.t(w)
		}
		return true
	case "exportdecl":
		s.t("export")
		s.vardecl(n.Kids[0])
		return true
	case "exportdefault":
		s.t("export")
		s.t("default")
		ts := s.sub(func() { s.operand(n.Kids[0], pAssign, false) })
		f := firstTok(ts)
		if f == "function" || f == "class" || f == "async" {
			s.t("(")
			s.toks = append(s.toks, ts...)
			s.t(")")
		} else {
			s.toks = append(s.toks, ts...)
		}
		return true
	}
	return false
}

func (s *jsSpeller) vardecl(n *JSNode) {
	s.t(n.Op)
	for i, d := range n.Kids {
		if i > 0 {
			s.t(",")
		}
		s.pattern(d.Kids[0])
		if d.Kids[1] != nil {
			s.t("=")
			s.operand(d.Kids[1], pAssign, true)
		}
	}
}

// substmt spells the body of if/while/for; beforeKeyword: an else/while keyword follows directly.
func (s *jsSpeller) substmt(n *JSNode, beforeKeyword bool) {
	if s.stmt(n) {
		s.t(";")
	}
}

func asiSafeStart(ts []jsTok) bool {
	f := firstTok(ts)
	if f == "" {
		return false
	}
	if f == "++" || f == "--" {
		return true // a postfix operator may not be separated from its operand by a line break: the statement before ends there
	}
	c := f[0]
	if !(c >= 'a' && c <= 'z' || c >= 'A' && c <= 'Z' || c == '_' || c == '$' || c >= '0' && c <= '9' || c == '"' || c == '\'') {
		return false
	}
	switch f {
	case "in", "instanceof", "of", "async", "let", "from", "as":
		// (`export {}` + line break + `from` continues the export statement: no semicolon is inserted there)
		return false
	}
	return true
}

// stmtList spells statements with terminators chosen by the style. last: the list is followed by '}' or the end.
func (s *jsSpeller) stmtList(list []*JSNode, last bool) {
	spelled := make([][]jsTok, len(list))
	needs := make([]bool, len(list))
	for i, st := range list {
		i, st := i, st
		spelled[i] = s.sub(func() { needs[i] = s.stmt(st) })
	}
	for i := range list {
		s.toks = append(s.toks, spelled[i]...)
		if !needs[i] {
			continue
		}
		isLast := i == len(list)-1
		switch {
		case s.st.Semi >= 1 && isLast && last && s.r.Intn(2) == 0:
			// omitted before '}' / at the end of the program
		case s.st.Semi == 2 && !isLast && (asiSafeStart(spelled[i+1]) || len(spelled[i]) > 0 && spelled[i][len(spelled[i])-1].arrowEnd) && s.r.Intn(2) == 0:
			// (an arrow function with a block body is a complete AssignmentExpression: whatever starts the next line, also
			// '(' '[' '/' '+' '-' or a template, cannot continue it, so a semicolon is inserted)
			s.toks = append(s.toks, jsTok{s: "\n"}) // a line break where the next token cannot continue the statement
		default:
			s.t(";")
		}
	}
}

// lineTerminator: any of the five ECMAScript line terminator sequences in the random-whitespace style, LF otherwise.
func (s *jsSpeller) lineTerminator() string {
	if s.st.WS == 2 && s.r.Intn(3) == 0 {
		return Pick(s.r, []string{"\r\n", "\r", "\u2028", "\u2029"})
	}
	return "\n"
}

// JSSpell writes the program in the given style and returns the source and its identifier tokens in order.
func JSSpell(p *JSProg, st JSStyle) (src string, idents []JSIdentOcc) {
	s := &jsSpeller{r: rand.New(rand.NewSource(st.Seed)), st: st}
	s.stmtList(p.Root.Kids, true)
	var sb strings.Builder
	safe := func(c byte) bool { return strings.IndexByte("()[]{};,", c) >= 0 }
	for i, tk := range s.toks {
		if tk.s == "\n" {
			switch s.r.Intn(6) {
			case 0:
				if s.st.WS == 2 {
					// a block comment that contains a line terminator counts as one (also when it is a bare CR, LS or PS)
					sb.WriteString(" /* x" + s.lineTerminator() + "y */ ")
					continue
				}
				fallthrough
			default:
				sb.WriteString(s.lineTerminator())
			}
			continue
		}
		if i > 0 && s.toks[i-1].s != "\n" {
			prev := s.toks[i-1].s
			need := !(safe(prev[len(prev)-1]) || safe(tk.s[0]))
			if (prev == "?" || prev == ":") && (tk.s[0] >= '0' && tk.s[0] <= '9' || tk.s[0] >= 'a' && tk.s[0] <= 'z' || tk.s[0] >= 'A' && tk.s[0] <= 'Z' || tk.s[0] == '_' || tk.s[0] == '$' || tk.s[0] == '\'' || tk.s[0] == '"' ||
				tk.s[0] == '.' && len(tk.s) > 1 && tk.s[1] >= '0' && tk.s[1] <= '9') {
				need = false // a?.5:b, a?b:c — "?." in front of a digit is not an optional chain
			}
			if strings.HasSuffix(prev, "${") || tk.s[0] == '}' && (strings.HasSuffix(tk.s, "`") || strings.HasSuffix(tk.s, "${")) && len(tk.s) >= 1 && isTemplatePiece(tk.s) {
				need = false
			}
			sep := ""
			if s.st.Bang > 0 && s.r.Intn(s.st.Bang) == 0 {
				switch c := s.r.Intn(3); {
				case c == 0 && !tk.noLT:
					sep = " //! bang " + fmt.Sprint(i) + "\n"
				case c == 1 && !tk.noLT:
					sep = " /*! multi\n\tline " + fmt.Sprint(i) + " */ "
				default:
					sep = " /*! b" + fmt.Sprint(i) + " */ "
				}
				sb.WriteString(sep)
				sb.WriteString(tk.s)
				if tk.id != nil {
					idents = append(idents, *tk.id)
				}
				continue
			}
			switch s.st.WS {
			case 0:
				if need {
					sep = " "
				}
			case 1:
				sep = " "
				if !need && s.r.Intn(2) == 0 {
					sep = ""
				}
			default:
				switch c := s.r.Intn(12); {
				case c < 5:
					sep = " "
				case c == 5:
					sep = "\t"
				case c == 6:
					sep = "  "
				case c == 7 && !tk.noLT:
					sep = s.lineTerminator()
				case c == 8 && !tk.noLT:
					sep = " // c" + s.lineTerminator()
				case c == 9:
					sep = " /* c */ "
				case c == 10 && !tk.noLT:
					sep = " /* a" + s.lineTerminator() + " b */ "
				default:
					if need {
						sep = " "
					}
				}
			}
			if isTemplateCont(tk.s) || strings.HasSuffix(prev, "${") && false {
				// a template continuation token starts with the '}' that closes the substitution: whitespace before it
				// belongs to the substitution and is fine
			}
			sb.WriteString(sep)
		}
		sb.WriteString(tk.s)
		if tk.id != nil {
			idents = append(idents, *tk.id)
		}
	}
	return sb.String(), idents
}

func isTemplatePiece(t string) bool {
	return strings.HasPrefix(t, "`") || isTemplateCont(t)
}

func isTemplateCont(t string) bool {
	return strings.HasPrefix(t, "}") && (strings.HasSuffix(t, "`") || strings.HasSuffix(t, "${")) && len(t) >= 2
}

// JSSpellTokens returns the token texts of a spelling (token boundaries for mutation).
func JSSpellTokens(p *JSProg, st JSStyle) []string {
	s := &jsSpeller{r: rand.New(rand.NewSource(st.Seed)), st: JSStyle{Parens: st.Parens, Semi: 0, WS: st.WS, Seed: st.Seed}}
	s.stmtList(p.Root.Kids, true)
	out := make([]string, 0, len(s.toks))
	for _, tk := range s.toks {
		out = append(out, tk.s)
	}
	return out
}
