package gen

import (
	"errors"
	"io"
	"math/rand"
)

// ErrInjected is the reader failure injected by fault schedules.
var ErrInjected = errors.New("injected reader failure")

// SchedReader delivers data according to a schedule of chunk sizes. A chunk of size 0 is a (0, nil)
// read. After all data: FailAt >= 0 means the reader fails with Err once FailAt bytes were
// delivered (data beyond FailAt is never delivered). EOFWithLast delivers io.EOF together with the last bytes.
type SchedReader struct {
	Data        []byte
	Chunks      []int
	Err         error // error delivered at the end (io.EOF by default)
	ErrWithLast bool  // deliver Err together with the last bytes
	pos, ci     int
	Reads       int
	zeroRun     int
	ended       bool
}

func (r *SchedReader) Read(p []byte) (int, error) {
	r.Reads++
	end := r.Err
	if end == nil {
		end = io.EOF
	}
	if r.pos >= len(r.Data) {
		if !r.ended && r.ci < len(r.Chunks) && r.Chunks[r.ci] == 0 && len(p) > 0 {
			r.ci++ // zero-length reads scheduled in front of the end
			return 0, nil
		}
		r.ended = true
		return 0, end
	}
	if len(p) == 0 {
		return 0, nil
	}
	n := len(r.Data) - r.pos
	if r.ci < len(r.Chunks) {
		n = r.Chunks[r.ci]
		r.ci++
	}
	if n == 0 {
		r.zeroRun++
		if r.zeroRun <= 1000 {
			return 0, nil
		}
		n = 1
	}
	r.zeroRun = 0
	if n > len(p) {
		n = len(p)
	}
	if n > len(r.Data)-r.pos {
		n = len(r.Data) - r.pos
	}
	copy(p, r.Data[r.pos:r.pos+n])
	r.pos += n
	if r.pos == len(r.Data) && r.ErrWithLast {
		r.ended = true
		return n, end
	}
	return n, nil
}

// Schedule draws chunk sizes in 0..maxChunk covering total bytes.
func Schedule(r *rand.Rand, total, maxChunk int) []int {
	var cs []int
	mode := r.Intn(5)
	for left := total; left > 0; {
		var n int
		switch mode {
		case 0:
			n = 1
		case 1:
			n = 1 + r.Intn(3)
		case 2:
			n = r.Intn(maxChunk + 1)
		case 3:
			if r.Intn(4) == 0 {
				n = 0
			} else {
				n = 1 + r.Intn(maxChunk)
			}
		default:
			n = maxChunk
		}
		cs = append(cs, n)
		left -= n
		if len(cs) > 1<<16 {
			break
		}
	}
	return cs
}

// BytesReader is a reader that also exposes Bytes(), which the library uses as a shortcut.
type BytesReader struct {
	B   []byte
	pos int
}

func (r *BytesReader) Bytes() []byte { return r.B }
func (r *BytesReader) Read(p []byte) (int, error) {
	if r.pos >= len(r.B) {
		return 0, io.EOF
	}
	n := copy(p, r.B[r.pos:])
	r.pos += n
	return n, nil
}

// Pos returns the number of bytes delivered so far.
func (r *SchedReader) Pos() int { return r.pos }
