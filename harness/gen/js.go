package gen

import (
	"fmt"
	"math/rand"
	"strings"
)

// ---------------------------------------------------------------------------------------------------------
// Abstract JavaScript programs (harness-side tree), an ECMAScript scope resolver and a speller.
//
// The tree is generated first; what the grammar prescribes (precedence, associativity, which declaration an
// identifier denotes) is therefore known by construction and no parser is needed inside the oracles.
// ---------------------------------------------------------------------------------------------------------

// JSNode is a node of the abstract program.
type JSNode struct {
	K    string // kind
	Op   string
	S    string // identifier name, literal text, label, property name
	Kids []*JSNode
	// identifiers
	Ref   *jsScope // scope in which a reference occurs (resolved after generation)
	Bind  int      // binding id: >0 declared binding, 0 global/unbound, -1 not a binding occurrence
	Decl  bool     // this identifier occurrence is a declaration
	Flag  map[string]bool
	Parts []string // template strings
}

func (n *JSNode) flag(f string) bool { return n.Flag != nil && n.Flag[f] }
func (n *JSNode) set(f string) *JSNode {
	if n.Flag == nil {
		n.Flag = map[string]bool{}
	}
	n.Flag[f] = true
	return n
}

// precedence levels (higher binds tighter)
const (
	pComma = iota + 1
	pAssign
	pCond
	pNullish // ?? and || share a level but may not be mixed
	pOr
	pAnd
	pBitOr
	pBitXor
	pBitAnd
	pEq
	pRel
	pShift
	pAdd
	pMul
	pExp
	pUnary
	pPostfix
	pNew
	pCall
	pPrimary
)

var jsBinOps = map[string]int{
	"??": pNullish, "||": pOr, "&&": pAnd, "|": pBitOr, "^": pBitXor, "&": pBitAnd,
	"==": pEq, "!=": pEq, "===": pEq, "!==": pEq, "<": pRel, "<=": pRel, ">": pRel, ">=": pRel, "instanceof": pRel, "in": pRel,
	"<<": pShift, ">>": pShift, ">>>": pShift, "+": pAdd, "-": pAdd, "*": pMul, "/": pMul, "%": pMul, "**": pExp,
}
var jsBinOpList = []string{"??", "||", "&&", "|", "^", "&", "==", "!=", "===", "!==", "<", "<=", ">", ">=", "instanceof", "in", "<<", ">>", ">>>", "+", "-", "*", "/", "%", "**"}
var jsAssignOps = []string{"=", "=", "=", "+=", "-=", "*=", "/=", "%=", "**=", "<<=", ">>=", ">>>=", "&=", "|=", "^=", "&&=", "||=", "??="}
var jsUnaryOps = []string{"!", "~", "+", "-", "typeof", "void", "delete"}

func (n *JSNode) prec() int {
	switch n.K {
	case "comma":
		return pComma
	case "assign", "arrow", "yield":
		return pAssign
	case "cond":
		return pCond
	case "bin":
		return jsBinOps[n.Op]
	case "unary", "preupdate", "await":
		return pUnary
	case "postupdate":
		return pPostfix
	case "new0":
		return pNew
	case "member", "index", "call", "new", "optmember", "optindex", "optcall", "tagged", "super", "import", "newtarget", "importmeta":
		return pCall
	}
	return pPrimary
}

// JSOpts selects generator features.
type JSOpts struct {
	NoRegex          bool // no regular expression literals (the C04 oracle lexes the printed program)
	PlainKeys        bool // object keys / pattern keys never coincide with variable names and no shorthand (unless Shorthand)
	Shorthand        bool // with PlainKeys: shorthand properties {a} and shorthand pattern elements {a}, {a = 1} are generated
	NoClassSelf      bool // class expressions never reference their own name (recorded known finding)
	NoModuleItems    bool // no import/export
	MaxStmts         int
	TopReturn        bool // return statements outside functions (accepted under Options.Inline only: the body of an event handler)
	YieldName        bool // with CtxNames: `yield` is used as a variable name where the grammar allows it (no module items: module code is strict)
	CtxNames         bool // contextual keywords (async, of, get, set, as, from) are used as variable names too
	ParamDefaultRefs bool // parameter defaults mention variables of the scopes outside the function
	Budget           int  // expression/statement budget (0 = random 20..140)
}

type jsScope struct {
	kind   string // "func" | "block" | "param" | "fname" | "catch" | "for" | "module"
	parent *jsScope
	decl   map[string]int // name -> binding id
	// for legality checks
	lexical     map[string]bool
	vars        map[string]bool // var/function names declared in this scope or hoisted through it
	fn          *jsScope        // enclosing function (or module) body scope
	catchSimple string          // catch scope whose parameter is this plain identifier: `var <name>` is allowed in its block (Annex B)
}

type jsGen struct {
	r             *rand.Rand
	o             JSOpts
	nextID        int
	fresh         int
	scope         *jsScope
	inFunc        int
	inGen         bool
	noYield       int    // >0: `yield` cannot be an identifier here (strict code: class bodies, functions with a "use strict" directive; parameters of generators and of arrows inside generators)
	funcName      string // name just declared for the function about to be generated (a function named yield has no directive)
	inAsync       bool
	inLoop        int
	inSwitch      int
	labels        []string
	budget        int
	inClassMethod bool       // super.x is allowed here (methods, accessors, field initialisers, static blocks; arrows inherit)
	classPrivs    [][]string // private names declared so far by the enclosing class bodies (innermost last)
	newTargetOK   bool
	reserved      string          // name of the function expression being entered: not redeclared inside it
	bodyReserved  []string        // names declared by a loop head: not redeclared lexically in the loop body block (known finding)
	avoid         map[string]bool // names a reference must not use (parameter names of the function whose defaults are being generated)
	refOuterFn    *jsScope
	noLexicalHere *jsScope // no let/const/class declaration directly in this scope any more
	refOuter      *jsScope // when set, references are resolved from this scope (parameter defaults see the scope outside the function)
	noRefs        int      // >0: no identifier references are generated (parameter lists: no forward references between parameters)
	exported      bool
	refs          []*JSNode
}

var jsNamePool = []string{"a", "b", "c", "x", "y"}

// contextual keywords that are ordinary identifiers everywhere (never reserved, also in strict code and modules)
var jsCtxNames = []string{"async", "of", "get", "set", "as", "from"}

func (g *jsGen) pickName() string {
	if g.o.CtxNames && g.o.YieldName && !g.inGen && g.noYield == 0 && g.r.Intn(10) == 0 {
		return "yield" // an ordinary identifier outside generators and strict code
	}
	if g.o.CtxNames && g.r.Intn(4) == 0 {
		return Pick(g.r, jsCtxNames)
	}
	return Pick(g.r, jsNamePool)
}

func (g *jsGen) newScope(kind string) *jsScope {
	s := &jsScope{kind: kind, parent: g.scope, decl: map[string]int{}, lexical: map[string]bool{}, vars: map[string]bool{}}
	if kind == "func" || kind == "module" {
		s.fn = s
	} else if g.scope != nil {
		s.fn = g.scope.fn
	}
	return s
}

func (g *jsGen) push(kind string) *jsScope { g.scope = g.newScope(kind); return g.scope }
func (g *jsGen) pop()                      { g.scope = g.scope.parent }

// declare registers a binding of the given declaration kind and returns the identifier node.
func (g *jsGen) declare(kind string) *JSNode {
	name := ""
	for try := 0; try < 8 && name == ""; try++ {
		cand := g.pickName()
		if try >= 5 {
			g.fresh++
			cand = fmt.Sprintf("u%d", g.fresh)
		}
		if g.canDeclare(kind, cand) {
			name = cand
		}
	}
	if name == "" {
		g.fresh++
		name = fmt.Sprintf("u%d", g.fresh)
	}
	return g.declareName(kind, name)
}

// canDeclare reports whether a declaration of that kind and name is legal in the current scope.
func (g *jsGen) canDeclare(kind, cand string) bool {
	switch kind {
	case "var", "function":
		// hoists to the enclosing function: illegal if a scope on the way declares the name lexically
		for s := g.scope; s != nil; s = s.parent {
			if s.lexical[cand] && !(kind == "var" && s.kind == "catch" && s.catchSimple == cand && s == g.scope) {
				// (try {} catch (e) { var e } is allowed: the var belongs to the function, uses in the block denote the parameter)
				return false
			}
			if s == g.scope.fn || s.kind == "func" || s.kind == "module" {
				break
			}
		}
		if kind == "function" && g.scope.vars[cand] {
			return false
		}
		return true
	}
	// let const class param catch fname for-let
	return !g.scope.lexical[cand] && !g.scope.vars[cand]
}

func (g *jsGen) declareName(kind, name string) *JSNode {
	var target *jsScope
	switch kind {
	case "var", "function":
		target = g.scope.fn
		if target == nil {
			target = g.scope
		}
		for s := g.scope; s != nil; s = s.parent {
			s.vars[name] = true
			if s == target {
				break
			}
		}
		if kind == "function" {
			g.scope.lexical[name] = true
		}
	default:
		target = g.scope
		target.lexical[name] = true
	}
	id, ok := target.decl[name]
	if !ok {
		g.nextID++
		id = g.nextID
		target.decl[name] = id
	}
	return &JSNode{K: "ident", S: name, Bind: id, Decl: true}
}

// ref creates an identifier reference to be resolved after generation.
func (g *jsGen) ref() *JSNode {
	if g.noRefs > 0 {
		return &JSNode{K: "num", S: "7"}
	}
	name := g.pickName()
	for try := 0; g.avoid[name] && try < 6; try++ {
		name = g.pickName()
	}
	if g.r.Intn(12) == 0 || g.avoid[name] {
		name = Pick(g.r, []string{"g1", "Math", "undefined", "console"})
	}
	n := &JSNode{K: "ident", S: name, Ref: g.scope}
	if g.refOuter != nil && g.scope.fn == g.refOuterFn {
		// directly inside a parameter default (not in a function nested in it): resolved outside the function
		n.Ref = g.refOuter
	}
	g.refs = append(g.refs, n)
	return n
}

func (g *jsGen) resolve() {
	for _, n := range g.refs {
		n.Bind = 0
		for s := n.Ref; s != nil; s = s.parent {
			if id, ok := s.decl[n.S]; ok {
				n.Bind = id
				break
			}
		}
	}
}

func (g *jsGen) lit() *JSNode {
	r := g.r
	switch r.Intn(9) {
	case 0, 1:
		return &JSNode{K: "num", S: Pick(r, []string{"0", "1", "42", "3.14", ".5", "1e3", "0x1F", "0b11", "0o17", "1_000", "10n", "5.", "0.0", "2e-7", ".0", ".05", ".9"})}
	case 2, 3:
		return &JSNode{K: "str", S: Pick(r, []string{`"s"`, `'t'`, `"a\"b"`, `'it\'s'`, `"\n\\"`, `"line\
cont"`, "'cr\\\r\nlf'", "\"c\\\rr\"", "'ls\\\u2028'", `''`, `"é日"`, `'</script>'`, `"use\x20strict"`})}
	case 4:
		return &JSNode{K: "kw", S: Pick(r, []string{"null", "true", "false", "this"})}
	case 5:
		if !g.o.NoRegex {
			return &JSNode{K: "regex", S: Pick(r, []string{"/ab+c/", "/[/\\]]+/gi", "/\\//", "/a|b/u", "/(?<n>x)\\k<n>/", "/=/", "/[[]/", "/[^[/]+/g", "/[[\\]]/", "/[a-z/]/", "/\\[/", "/[\\]/]/y", "/(?:)/", "/a{1,2}/s"})}
		}
		return &JSNode{K: "num", S: "7"}
	default:
		return g.ref()
	}
}

// lit0 is a literal that mentions no variable.
func (g *jsGen) lit0() *JSNode {
	return &JSNode{K: "num", S: Pick(g.r, []string{"0", "1", "42", "0x1F"})}
}

// simpleDefault generates a parameter default: a reference, a literal, or a small operator expression over them
// (no nested functions: their bodies would see the function's own scope again).
func (g *jsGen) simpleDefault() *JSNode {
	r := g.r
	leaf := func() *JSNode {
		if r.Intn(3) > 0 {
			return g.ref()
		}
		return &JSNode{K: "num", S: Pick(r, []string{"0", "1", "42"})}
	}
	switch r.Intn(5) {
	case 0:
		return &JSNode{K: "bin", Op: Pick(r, []string{"+", "*", "||", "??", "<"}), Kids: []*JSNode{leaf(), leaf()}}
	case 1:
		return &JSNode{K: "member", S: "p", Kids: []*JSNode{g.ref()}}
	case 2:
		return &JSNode{K: "call", Kids: []*JSNode{g.ref(), leaf()}}
	case 3:
		return &JSNode{K: "array", Kids: []*JSNode{leaf(), leaf()}}
	}
	return leaf()
}

func (g *jsGen) template(depth int) *JSNode {
	r := g.r
	n := &JSNode{K: "template"}
	parts := 1 + r.Intn(3)
	for i := 0; i < parts; i++ {
		n.Parts = append(n.Parts, Pick(r, []string{"", "a", " b ", "\\`", "$", "{}", "\\${", "line\nbreak", "é"}))
		if i < parts-1 {
			n.Kids = append(n.Kids, g.expr(depth+1, pComma))
		}
	}
	return n
}

func (g *jsGen) propKey() *JSNode {
	r := g.r
	if g.o.PlainKeys {
		switch r.Intn(6) {
		case 0:
			return &JSNode{K: "keystr", S: Pick(r, []string{`"k-1"`, `'k 2'`})}
		case 1:
			return &JSNode{K: "keynum", S: Pick(r, []string{"1", "2.5"})}
		default:
			return &JSNode{K: "keyid", S: Pick(r, []string{"k1", "p", "q_", "key"})}
		}
	}
	switch r.Intn(8) {
	case 0:
		// quoted keys: not identifier-like, identifier-like (the parser may store them as identifiers), with escapes (must
		// stay quoted), non-ASCII, numeric-looking, empty
		return &JSNode{K: "keystr", S: Pick(r, []string{`"k-1"`, `'k 2'`, `"a"`, `"\n"`, `'a\tb'`, `"\\"`, `"\x41"`, `"\u0041b"`, `"café"`, `"12"`, `"1.5"`, `""`, `"if"`, `'q_'`, `"a\
b"`})}
	case 1:
		return &JSNode{K: "keynum", S: Pick(r, []string{"1", "2.5", "0x10"})}
	case 2:
		return &JSNode{K: "keycomp", Kids: []*JSNode{g.expr(3, pAssign)}}
	default:
		return &JSNode{K: "keyid", S: Pick(r, []string{"k1", "p", "a", "b", "if", "get", "set", "static", "async", "new", "await", "yield", "of"})}
	}
}

// pattern generates a binding pattern whose identifiers are declared with kind.
func (g *jsGen) pattern(kind string, depth int) *JSNode {
	r := g.r
	if g.o.PlainKeys && depth == 0 || depth == 1 && kind == "param" {
		// C04 domain: default values inside a binding pattern do not mention variables (no use of a name inside the
		// declaration that introduces it or a later sibling)
		g.noRefs++
		defer func() { g.noRefs-- }()
	}
	if depth > 2 || r.Intn(3) > 0 {
		return g.declare(kind)
	}
	if r.Intn(2) == 0 {
		n := &JSNode{K: "arrpat"}
		nel := 1 + r.Intn(3)
		restOnly := r.Intn(8) == 0 // [...r]: a pattern made of the rest element only
		if restOnly {
			nel = 0
		}
		for i := nel; i > 0; i-- {
			switch r.Intn(6) {
			case 0:
				n.Kids = append(n.Kids, &JSNode{K: "hole"})
			default:
				el := &JSNode{K: "patel", Kids: []*JSNode{g.pattern(kind, depth+1)}}
				if r.Intn(3) == 0 {
					el.Kids = append(el.Kids, g.expr(3, pAssign))
				}
				n.Kids = append(n.Kids, el)
			}
		}
		if restOnly || r.Intn(4) == 0 {
			n.Kids = append(n.Kids, &JSNode{K: "rest", Kids: []*JSNode{g.pattern(kind, depth+1)}})
		}
		return n
	}
	n := &JSNode{K: "objpat"}
	for i := 1 + r.Intn(3); i > 0; i-- {
		if (!g.o.PlainKeys || g.o.Shorthand) && r.Intn(3) == 0 {
			// shorthand: {a} or {a = 1}
			el := &JSNode{K: "patshort", Kids: []*JSNode{g.declare(kind)}}
			if r.Intn(3) == 0 {
				el.Kids = append(el.Kids, g.expr(3, pAssign))
			}
			n.Kids = append(n.Kids, el)
			continue
		}
		key := g.propKey()
		el := &JSNode{K: "patprop", Kids: []*JSNode{key, g.pattern(kind, depth+1)}}
		if r.Intn(3) == 0 {
			el.Kids = append(el.Kids, g.expr(3, pAssign))
		}
		n.Kids = append(n.Kids, el)
	}
	if r.Intn(5) == 0 {
		n.Kids = append(n.Kids, &JSNode{K: "rest", Kids: []*JSNode{g.declare(kind)}})
	}
	return n
}

// function generates parameters and body. Scopes: [fname] -> param (the function scope) -> body block merged:
// parameters and top-level body declarations share the function scope; default values are generated before
// any body declaration exists and refer to parameters declared before them or to outer names.
func (g *jsGen) function(kind string, async, generator bool, exprBody bool) (params, body *JSNode) {
	r := g.r
	saveGen, saveAsync, saveLoop, saveSwitch, saveLabels := g.inGen, g.inAsync, g.inLoop, g.inSwitch, g.labels
	g.inGen, g.inAsync, g.inLoop, g.inSwitch, g.labels = false, false, 0, 0, nil
	g.inFunc++
	saveNT := g.newTargetOK
	if kind != "arrow" {
		g.newTargetOK = true
	}
	defer func() { g.newTargetOK = saveNT }()
	saveICM := g.inClassMethod
	switch kind {
	case "func":
		g.inClassMethod = false
	case "method":
		g.inClassMethod = true
	}
	defer func() { g.inClassMethod = saveICM }()
	g.push("func")
	if g.reserved != "" {
		// a parameter or body declaration with the name of the function expression itself would shadow a binding
		// that can then never be referenced; the library keeps one variable for both (harmless), so it is not generated
		g.scope.lexical[g.reserved], g.scope.vars[g.reserved] = true, true
		g.reserved = ""
	}
	fname := g.funcName
	g.funcName = ""
	// a "use strict" directive makes the whole function strict, its name and parameters included: decided first
	strict := !exprBody && fname != "yield" && r.Intn(10) == 0
	paramNoYield := strict || generator || kind == "arrow" && saveGen
	if paramNoYield {
		g.noYield++
	}
	params = &JSNode{K: "params"}
	np := r.Intn(4)
	g.noRefs++
	for i := 0; i < np; i++ {
		params.Kids = append(params.Kids, &JSNode{K: "patel", Kids: []*JSNode{g.pattern("param", 1)}})
	}
	if r.Intn(6) == 0 {
		params.Kids = append(params.Kids, &JSNode{K: "rest", Kids: []*JSNode{g.pattern("param", 1)}})
	}
	g.noRefs--
	// Default values: they may mention variables, but never a parameter of this function (no forward references between
	// parameters), and what they mention is resolved in the scope *outside* the function: declarations of the body are
	// invisible to parameter defaults (separate environments when a parameter list has initialisers).
	var mentioned []string // names the parameter defaults mention
	refStart := len(g.refs)
	if g.o.ParamDefaultRefs {
		saveAvoid, saveOuter, saveOuterFn := g.avoid, g.refOuter, g.refOuterFn
		g.avoid = map[string]bool{}
		for n := range saveAvoid {
			g.avoid[n] = true
		}
		for n := range g.scope.decl {
			g.avoid[n] = true
		}
		g.refOuter, g.refOuterFn = g.scope.parent, g.scope
		for _, el := range params.Kids {
			if el.K == "patel" && r.Intn(3) == 0 {
				el.Kids = append(el.Kids, g.simpleDefault())
			}
			// computed keys of an object pattern are expressions of the parameter list too: ({[[k][0]]: v}) => …
			if len(el.Kids) > 0 && el.Kids[0] != nil && el.Kids[0].K == "objpat" {
				for _, c := range el.Kids[0].Kids {
					if c.K == "patprop" && r.Intn(3) == 0 {
						var key *JSNode
						if r.Intn(2) == 0 {
							key = &JSNode{K: "index", Kids: []*JSNode{{K: "array", Kids: []*JSNode{g.ref()}}, {K: "num", S: "0"}}}
						} else {
							key = &JSNode{K: "member", S: "p", Kids: []*JSNode{{K: "object", Kids: []*JSNode{{K: "prop", Kids: []*JSNode{{K: "keyid", S: "p"}, g.ref()}}}}}}
						}
						c.Kids[0] = &JSNode{K: "keycomp", Kids: []*JSNode{key}}
					}
				}
			}
		}
		g.avoid, g.refOuter, g.refOuterFn = saveAvoid, saveOuter, saveOuterFn
		seen := map[string]bool{}
		for _, n := range g.refs[refStart:] {
			if !seen[n.S] {
				seen[n.S] = true
				mentioned = append(mentioned, n.S)
			}
		}
	} else {
		for _, el := range params.Kids {
			if el.K == "patel" && r.Intn(4) == 0 {
				el.Kids = append(el.Kids, g.lit())
			}
		}
	}
	if paramNoYield && !strict {
		g.noYield--
	}
	g.inGen, g.inAsync = generator, async
	simple := true
	for _, p := range params.Kids {
		if p.K != "patel" || len(p.Kids) != 1 || p.Kids[0].K != "ident" {
			simple = false
		}
	}
	if exprBody {
		body = g.expr(2, pAssign)
	} else {
		body = &JSNode{K: "body"}
		if simple && strict {
			body.Kids = append(body.Kids, &JSNode{K: "directive", S: `"use strict"`})
		}
		// Names the defaults mention (C04 domain, known finding param-default-use-vs-body-declaration): the body declares
		// such a name at function level only at its very start (before any use), never later.
		for _, name := range mentioned {
			kind := Pick(r, []string{"var", "let", "const"})
			if r.Intn(2) == 0 && g.canDeclare(kind, name) {
				d := &JSNode{K: "declarator", Kids: []*JSNode{g.declareName(kind, name), g.lit0()}}
				body.Kids = append(body.Kids, &JSNode{K: "vardecl", Op: kind, Kids: []*JSNode{d}})
			}
		}
		for _, name := range mentioned {
			g.scope.lexical[name], g.scope.vars[name] = true, true
		}
		for i := r.Intn(4); i > 0 && g.budget > 0; i-- {
			body.Kids = append(body.Kids, g.stmt(1, true))
		}
		if r.Intn(2) == 0 {
			body.Kids = append(body.Kids, &JSNode{K: "return", Kids: []*JSNode{g.expr(2, pComma)}})
		}
		body.Kids = g.sprinkleUseStrict(body.Kids)
	}
	if strict {
		g.noYield--
	}
	g.pop()
	g.inFunc--
	g.inGen, g.inAsync, g.inLoop, g.inSwitch, g.labels = saveGen, saveAsync, saveLoop, saveSwitch, saveLabels
	return
}

func (g *jsGen) funcExpr() *JSNode {
	r := g.r
	async, generator := r.Intn(5) == 0, r.Intn(5) == 0
	n := &JSNode{K: "funcexpr"}
	if async {
		n.set("async")
	}
	if generator {
		n.set("gen")
	}
	named := r.Intn(2) == 0
	if named {
		g.push("fname")
		if generator {
			g.noYield++
		}
		n.Kids = append(n.Kids, g.declare("fname"))
		if generator {
			g.noYield--
		}
		g.funcName = n.Kids[0].S
	} else {
		n.Kids = append(n.Kids, nil)
	}
	if named {
		g.reserved = n.Kids[0].S
	}
	p, b := g.function("func", async, generator, false)
	n.Kids = append(n.Kids, p, b)
	if named {
		g.pop()
	}
	return n
}

func (g *jsGen) arrow() *JSNode {
	r := g.r
	n := &JSNode{K: "arrow"}
	async := r.Intn(6) == 0
	if async {
		n.set("async")
	}
	exprBody := r.Intn(2) == 0
	saveGen := g.inGen
	p, b := g.function("arrow", async, false, exprBody)
	g.inGen = saveGen
	if exprBody {
		n.set("exprbody")
	}
	// a single plain identifier parameter may be written without parentheses
	if len(p.Kids) == 1 && p.Kids[0].K == "patel" && len(p.Kids[0].Kids) == 1 && p.Kids[0].Kids[0].K == "ident" && r.Intn(2) == 0 {
		n.set("bareparam")
	}
	n.Kids = []*JSNode{p, b}
	return n
}

func (g *jsGen) class(isExpr bool) *JSNode {
	r := g.r
	n := &JSNode{K: "class"}
	if isExpr {
		n.set("expr")
	}
	g.noYield++ // class code is strict: name, heritage and body
	defer func() { g.noYield-- }()
	var name *JSNode
	if !isExpr {
		name = g.declare("class")
	} else if r.Intn(2) == 0 && !g.o.NoClassSelf {
		g.push("fname")
		name = g.declare("fname")
		defer g.pop()
	}
	var ext *JSNode
	if r.Intn(3) == 0 {
		ext = g.expr(3, pCall)
	}
	body := &JSNode{K: "classbody"}
	privs := []string{"#p", "#q", "#x"}
	g.classPrivs = append(g.classPrivs, nil)
	defer func() { g.classPrivs = g.classPrivs[:len(g.classPrivs)-1] }()
	for i := r.Intn(4); i > 0; i-- {
		el := &JSNode{K: "classel"}
		if r.Intn(3) == 0 {
			el.set("static")
		}
		var key *JSNode
		if r.Intn(5) == 0 && len(privs) > 0 {
			key = &JSNode{K: "keypriv", S: privs[0]}
			g.classPrivs[len(g.classPrivs)-1] = append(g.classPrivs[len(g.classPrivs)-1], privs[0])
			privs = privs[1:]
		} else {
			key = g.propKey()
		}
		switch r.Intn(4) {
		case 0: // field
			el.Op = "field"
			el.Kids = []*JSNode{key}
			if r.Intn(2) == 0 {
				g.push("func")
				restore := g.enterClassInit()
				el.Kids = append(el.Kids, g.expr(3, pAssign))
				restore()
				g.pop()
			}
		case 1: // accessor
			el.Op = Pick(r, []string{"get", "set"})
			saveM := g.inClassMethod
			g.inClassMethod = true
			var p, b *JSNode
			if el.Op == "get" {
				p, b = g.methodFunction(0)
			} else {
				p, b = g.methodFunction(1)
			}
			g.inClassMethod = saveM
			el.Kids = []*JSNode{key, p, b}
		case 2:
			if el.flag("static") && r.Intn(2) == 0 {
				el.Op = "staticblock"
				if key.K == "keypriv" {
					// a static block has no name: the private name drawn for this element is not declared after all
					cp := g.classPrivs[len(g.classPrivs)-1]
					g.classPrivs[len(g.classPrivs)-1] = cp[:len(cp)-1]
					privs = append([]string{key.S}, privs...)
				}
				g.push("func")
				restore := g.enterClassInit()
				b := &JSNode{K: "body"}
				for j := r.Intn(3); j > 0 && g.budget > 0; j-- {
					b.Kids = append(b.Kids, g.stmt(1, true))
				}
				restore()
				g.pop()
				el.Kids = []*JSNode{b}
				break
			}
			fallthrough
		default: // method
			el.Op = "method"
			async, generator := r.Intn(5) == 0, r.Intn(5) == 0
			if async {
				el.set("async")
			}
			if generator {
				el.set("gen")
			}
			saveM := g.inClassMethod
			g.inClassMethod = true
			p, b := g.function("method", async, generator, false)
			g.inClassMethod = saveM
			el.Kids = []*JSNode{key, p, b}
		}
		body.Kids = append(body.Kids, el)
	}
	n.Kids = []*JSNode{name, ext, body}
	return n
}

// enterClassInit switches to the context of a class field initialiser / static block: no return, yield, await,
// break or continue of an enclosing construct.
func (g *jsGen) enterClassInit() (restore func()) {
	sf, sg, sa, sl, ss, lb, nt, cm := g.inFunc, g.inGen, g.inAsync, g.inLoop, g.inSwitch, g.labels, g.newTargetOK, g.inClassMethod
	g.inFunc, g.inGen, g.inAsync, g.inLoop, g.inSwitch, g.labels, g.newTargetOK, g.inClassMethod = 0, false, false, 0, 0, nil, true, true
	return func() {
		g.inFunc, g.inGen, g.inAsync, g.inLoop, g.inSwitch, g.labels, g.newTargetOK, g.inClassMethod = sf, sg, sa, sl, ss, lb, nt, cm
	}
}

// methodFunction generates a function with exactly np simple parameters (accessors).
func (g *jsGen) methodFunction(np int) (params, body *JSNode) {
	g.inFunc++
	saveGen, saveAsync, saveLoop, saveSwitch, saveLabels := g.inGen, g.inAsync, g.inLoop, g.inSwitch, g.labels
	g.inGen, g.inAsync, g.inLoop, g.inSwitch, g.labels = false, false, 0, 0, nil
	saveNT := g.newTargetOK
	g.newTargetOK = true
	defer func() { g.newTargetOK = saveNT }()
	g.push("func")
	params = &JSNode{K: "params"}
	for i := 0; i < np; i++ {
		params.Kids = append(params.Kids, &JSNode{K: "patel", Kids: []*JSNode{g.declare("param")}})
	}
	body = &JSNode{K: "body"}
	for i := g.r.Intn(3); i > 0 && g.budget > 0; i-- {
		body.Kids = append(body.Kids, g.stmt(1, true))
	}
	if np == 0 {
		body.Kids = append(body.Kids, &JSNode{K: "return", Kids: []*JSNode{g.expr(2, pComma)}})
	}
	g.pop()
	g.inFunc--
	g.inGen, g.inAsync, g.inLoop, g.inSwitch, g.labels = saveGen, saveAsync, saveLoop, saveSwitch, saveLabels
	return
}

func (g *jsGen) object() *JSNode {
	r := g.r
	n := &JSNode{K: "object"}
	for i := r.Intn(4); i > 0; i-- {
		switch c := r.Intn(8); {
		case c == 0 && (!g.o.PlainKeys || g.o.Shorthand) && g.noRefs == 0:
			n.Kids = append(n.Kids, &JSNode{K: "propshort", Kids: []*JSNode{g.ref()}})
		case c == 1:
			n.Kids = append(n.Kids, &JSNode{K: "spread", Kids: []*JSNode{g.expr(3, pAssign)}})
		case c == 2:
			el := &JSNode{K: "propmethod"}
			async, generator := r.Intn(5) == 0, r.Intn(5) == 0
			if async {
				el.set("async")
			}
			if generator {
				el.set("gen")
			}
			p, b := g.function("method", async, generator, false)
			el.Kids = []*JSNode{g.propKey(), p, b}
			n.Kids = append(n.Kids, el)
		case c == 3:
			el := &JSNode{K: "propaccessor", Op: Pick(r, []string{"get", "set"})}
			np := 0
			if el.Op == "set" {
				np = 1
			}
			p, b := g.methodFunction(np)
			el.Kids = []*JSNode{g.propKey(), p, b}
			n.Kids = append(n.Kids, el)
		default:
			n.Kids = append(n.Kids, &JSNode{K: "prop", Kids: []*JSNode{g.propKey(), g.expr(3, pAssign)}})
		}
	}
	return n
}

// lhs generates a simple assignment target (identifier or member expression).
func (g *jsGen) lhs(depth int) *JSNode {
	if g.noRefs > 0 {
		return &JSNode{K: "member", S: "p", Kids: []*JSNode{{K: "kw", S: "this"}}}
	}
	if g.r.Intn(2) == 0 {
		return g.ref()
	}
	return g.memberChainBase(g.ref(), depth+1, false)
}

func (g *jsGen) memberChain(depth int, allowCall bool) *JSNode {
	r := g.r
	var n *JSNode
	if r.Intn(4) == 0 && depth < 4 {
		n = g.expr(depth+1, pComma) // arbitrary base: parenthesised as needed
	} else if r.Intn(10) == 0 {
		// a literal as base: 1.5.toFixed, 42 .p, "s".length, `t`.q
		n = g.lit()
	} else {
		n = g.ref()
	}
	return g.memberChainBase(n, depth, allowCall)
}

func (g *jsGen) memberChainBase(n *JSNode, depth int, allowCall bool) *JSNode {
	r := g.r
	for i := 1 + r.Intn(3); i > 0; i-- {
		switch c := r.Intn(6); {
		case c == 0:
			n = &JSNode{K: "index", Kids: []*JSNode{n, g.expr(depth+1, pComma)}}
		case c == 1 && allowCall:
			n = &JSNode{K: "call", Kids: append([]*JSNode{n}, g.args(depth+1)...)}
		default:
			names := []string{"p", "q", "length", "if", "class", "k1"}
			if g.o.PlainKeys {
				names = []string{"p", "q", "length", "k1"}
			}
			if g.inClassMethod && len(g.classPrivs) > 0 && len(g.classPrivs[len(g.classPrivs)-1]) > 0 && r.Intn(4) == 0 {
				names = g.classPrivs[len(g.classPrivs)-1] // o.#p, this.#p: a private name of the enclosing class
			}
			n = &JSNode{K: "member", S: Pick(r, names), Kids: []*JSNode{n}}
		}
	}
	return n
}

func (g *jsGen) args(depth int) []*JSNode {
	var as []*JSNode
	for i := g.r.Intn(3); i > 0; i-- {
		if g.r.Intn(6) == 0 {
			as = append(as, &JSNode{K: "spread", Kids: []*JSNode{g.expr(depth+1, pAssign)}})
		} else {
			as = append(as, g.expr(depth+1, pAssign))
		}
	}
	return as
}

// expr generates an expression whose precedence is at least min.
func (g *jsGen) expr(depth int, min int) *JSNode {
	r := g.r
	g.budget--
	if depth > 5 || g.budget < 0 {
		return g.lit()
	}
	for try := 0; try < 6; try++ {
		var n *JSNode
		switch r.Intn(30) {
		case 0:
			n = &JSNode{K: "comma"}
			for i := 2 + r.Intn(2); i > 0; i-- {
				n.Kids = append(n.Kids, g.expr(depth+1, pAssign))
			}
		case 1, 2:
			op := Pick(r, jsAssignOps)
			if op == "=" && r.Intn(4) == 0 {
				n = &JSNode{K: "assign", Op: "=", Kids: []*JSNode{g.assignPattern(depth + 1), g.expr(depth+1, pAssign)}}
			} else {
				n = &JSNode{K: "assign", Op: op, Kids: []*JSNode{g.lhs(depth), g.expr(depth+1, pAssign)}}
			}
		case 3:
			n = &JSNode{K: "cond", Kids: []*JSNode{g.expr(depth+1, pCond), g.expr(depth+1, pAssign), g.expr(depth+1, pAssign)}}
		case 4, 5, 6, 7, 8, 9:
			op := Pick(r, jsBinOpList)
			n = &JSNode{K: "bin", Op: op, Kids: []*JSNode{g.expr(depth+1, pComma), g.expr(depth+1, pComma)}}
		case 10, 11:
			n = &JSNode{K: "unary", Op: Pick(r, jsUnaryOps), Kids: []*JSNode{g.expr(depth+1, pComma)}}
			if n.Op == "delete" {
				n.Kids[0] = g.memberChainBase(g.ref(), depth+1, false)
				if n.Kids[0].K == "member" && strings.HasPrefix(n.Kids[0].S, "#") {
					n.Op = "void" // deleting a private field is an early error
				}
			}
		case 12:
			n = &JSNode{K: Pick(r, []string{"preupdate", "postupdate"}), Op: Pick(r, []string{"++", "--"}), Kids: []*JSNode{g.lhs(depth)}}
		case 13, 14:
			n = g.memberChain(depth, true)
		case 15:
			n = &JSNode{K: "call", Kids: append([]*JSNode{g.expr(depth+1, pComma)}, g.args(depth+1)...)}
		case 16:
			if r.Intn(2) == 0 {
				n = &JSNode{K: "new", Kids: append([]*JSNode{g.expr(depth+1, pComma)}, g.args(depth+1)...)}
			} else {
				n = &JSNode{K: "new0", Kids: []*JSNode{g.expr(depth+1, pComma)}}
			}
		case 17:
			base := g.expr(depth+1, pComma)
			if r.Intn(8) == 0 {
				base = &JSNode{K: "num", S: Pick(r, []string{"1", "1.5", "1e3", "10n", "0x1F", ".5", "5."})} // 1?.k
			}
			switch r.Intn(3) {
			case 0:
				n = &JSNode{K: "optmember", S: Pick(r, []string{"p", "q"}), Kids: []*JSNode{base}}
			case 1:
				n = &JSNode{K: "optindex", Kids: []*JSNode{base, g.expr(depth+1, pComma)}}
			default:
				n = &JSNode{K: "optcall", Kids: append([]*JSNode{base}, g.args(depth+1)...)}
			}
		case 18:
			n = &JSNode{K: "array"}
			for i := r.Intn(4); i > 0; i-- {
				switch r.Intn(8) {
				case 0:
					n.Kids = append(n.Kids, &JSNode{K: "hole"})
				case 1:
					n.Kids = append(n.Kids, &JSNode{K: "spread", Kids: []*JSNode{g.expr(depth+1, pAssign)}})
				default:
					n.Kids = append(n.Kids, g.expr(depth+1, pAssign))
				}
			}
		case 19:
			n = g.object()
		case 20:
			n = g.funcExpr()
		case 21:
			n = g.arrow()
		case 22:
			n = g.class(true)
		case 23:
			n = g.template(depth)
			if r.Intn(3) == 0 {
				n = &JSNode{K: "tagged", Kids: []*JSNode{g.memberChainBase(g.ref(), depth+1, false), n}}
			}
		case 24:
			if g.inGen {
				n = &JSNode{K: "yield", Kids: []*JSNode{g.expr(depth+1, pAssign)}}
				if r.Intn(3) == 0 {
					n.Op = "*"
				} else if r.Intn(3) == 0 {
					n.Kids[0] = nil // yield without operand: in front of ) ] } , ; : or the end of a template substitution
				}
			}
		case 25:
			if g.inAsync || g.inFunc == 0 && g.scope.fn != nil && g.scope.fn.kind == "module" && g.noRefs == 0 {
				// inside async functions, and at the top level of the program (module goal; every Options value)
				n = &JSNode{K: "await", Kids: []*JSNode{g.expr(depth+1, pComma)}}
			}
		case 26:
			if g.inClassMethod && r.Intn(3) == 0 {
				// super.p, super[e], super.m(args)
				if r.Intn(3) == 0 {
					n = &JSNode{K: "super", Op: "index", Kids: []*JSNode{g.expr(depth+1, pComma)}}
				} else {
					n = &JSNode{K: "super", Op: "member", S: Pick(r, []string{"p", "q", "k1"})}
				}
				if r.Intn(3) == 0 {
					n = &JSNode{K: "call", Kids: append([]*JSNode{n}, g.args(depth+1)...)}
				}
			} else if g.inClassMethod && len(g.classPrivs) > 0 && len(g.classPrivs[len(g.classPrivs)-1]) > 0 && r.Intn(2) == 0 {
				// #p in obj (a private name of the enclosing class)
				ps := g.classPrivs[len(g.classPrivs)-1]
				n = &JSNode{K: "bin", Op: "in", Kids: []*JSNode{{K: "privname", S: Pick(r, ps)}, g.expr(depth+1, pShift)}}
			} else if !g.o.NoModuleItems && r.Intn(5) == 0 {
				n = &JSNode{K: "importmeta"}
			} else if g.newTargetOK && r.Intn(2) == 0 {
				n = &JSNode{K: "newtarget"}
			} else {
				n = &JSNode{K: "import", Kids: []*JSNode{g.expr(depth+1, pAssign)}}
			}
		default:
			n = g.lit()
		}
		if n != nil && n.prec() >= min {
			return n
		}
		if n != nil && min <= pCall {
			// any expression can stand where a tighter one is needed once parenthesised: the speller adds the parentheses
			return n
		}
	}
	return g.lit()
}

// assignPattern generates a destructuring assignment target: [a, b.c = 1, ...r] = … / ({k: a, s, t = 2, n: [x]} = …)
func (g *jsGen) assignPattern(depth int) *JSNode { return g.targetPattern(depth, 0) }

// targetElem is one element of a destructuring assignment target: a simple target or a nested pattern, sometimes with a default.
func (g *jsGen) targetElem(depth, nest int) *JSNode {
	r := g.r
	var t *JSNode
	if nest < 2 && r.Intn(4) == 0 {
		t = g.targetPattern(depth, nest+1)
	} else {
		t = g.lhs(depth)
	}
	if r.Intn(4) == 0 {
		return &JSNode{K: "tdefault", Kids: []*JSNode{t, g.expr(depth+1, pAssign)}}
	}
	return t
}

func (g *jsGen) targetPattern(depth, nest int) *JSNode {
	r := g.r
	if r.Intn(2) == 0 {
		n := &JSNode{K: "arrtarget"}
		for i := 1 + r.Intn(3); i > 0; i-- {
			if i > 1 && r.Intn(8) == 0 {
				n.Kids = append(n.Kids, &JSNode{K: "hole"})
				continue
			}
			n.Kids = append(n.Kids, g.targetElem(depth, nest))
		}
		if r.Intn(6) == 0 {
			n.Kids = append(n.Kids, &JSNode{K: "trest", Kids: []*JSNode{g.lhs(depth)}})
		}
		return n
	}
	n := &JSNode{K: "objtarget"}
	for i := 1 + r.Intn(2); i > 0; i-- {
		if (!g.o.PlainKeys || g.o.Shorthand) && g.noRefs == 0 && r.Intn(3) == 0 {
			// shorthand target {a} or {a = 1}: a use of a, not a declaration
			el := &JSNode{K: "propshort", Kids: []*JSNode{g.ref()}}
			if r.Intn(2) == 0 {
				el.Kids = append(el.Kids, g.expr(depth+1, pAssign))
			}
			n.Kids = append(n.Kids, el)
			continue
		}
		n.Kids = append(n.Kids, &JSNode{K: "prop", Kids: []*JSNode{&JSNode{K: "keyid", S: Pick(r, []string{"k1", "p", "q_"})}, g.targetElem(depth, nest)}})
	}
	if r.Intn(8) == 0 {
		n.Kids = append(n.Kids, &JSNode{K: "trest", Kids: []*JSNode{g.lhs(depth)}})
	}
	return n
}

// sprinkleUseStrict sometimes inserts the expression statement "use strict" behind a statement that is not a string
// literal statement: outside a directive prologue it is an ordinary expression statement, not a directive.
func (g *jsGen) sprinkleUseStrict(list []*JSNode) []*JSNode {
	if len(list) == 0 || g.r.Intn(12) != 0 {
		return list
	}
	pos := 1 + g.r.Intn(len(list))
	prev := list[pos-1]
	if prev == nil || prev.K == "directive" || prev.K == "exprstmt" && len(prev.Kids) == 1 && prev.Kids[0] != nil && (prev.Kids[0].K == "str" || prev.Kids[0].K == "template") {
		return list
	}
	st := &JSNode{K: "exprstmt", Kids: []*JSNode{{K: "str", S: Pick(g.r, []string{`"use strict"`, `'use strict'`})}}}
	out := append([]*JSNode{}, list[:pos]...)
	out = append(out, st)
	return append(out, list[pos:]...)
}

func (g *jsGen) block(depth int) *JSNode {
	g.push("block")
	for _, n := range g.bodyReserved {
		g.scope.lexical[n], g.scope.vars[n] = true, true
	}
	g.bodyReserved = nil
	n := &JSNode{K: "block"}
	for i := g.r.Intn(3); i > 0 && g.budget > 0; i-- {
		n.Kids = append(n.Kids, g.stmt(depth+1, false))
	}
	n.Kids = g.sprinkleUseStrict(n.Kids)
	g.pop()
	return n
}

func (g *jsGen) varDecl(kind string, depth int, forHead bool) *JSNode {
	r := g.r
	n := &JSNode{K: "vardecl", Op: kind}
	for i := 1 + r.Intn(2); i > 0; i-- {
		d := &JSNode{K: "declarator"}
		// the initialiser is generated first: it cannot see a let/const binding of its own declarator any differently
		var init *JSNode
		if kind == "const" || r.Intn(2) == 0 {
			init = g.expr(depth+1, pAssign)
		}
		pat := g.pattern(kind, 0)
		if pat.K != "ident" && init == nil {
			init = g.expr(depth+1, pAssign)
		}
		d.Kids = []*JSNode{pat, init}
		n.Kids = append(n.Kids, d)
		if forHead {
			break
		}
	}
	return n
}

// stmt generates a statement. top reports whether we are at function/module top level (function declarations).
func (g *jsGen) stmt(depth int, top bool) *JSNode {
	r := g.r
	g.budget--
	if depth > 4 || g.budget < 0 {
		return &JSNode{K: "exprstmt", Kids: []*JSNode{g.lit()}}
	}
	switch c := r.Intn(30); {
	case c < 6:
		return &JSNode{K: "exprstmt", Kids: []*JSNode{g.expr(1, pComma)}}
	case c < 10:
		if g.scope == g.noLexicalHere {
			return g.block(depth) // declarations go one block deeper
		}
		return g.varDecl(Pick(r, []string{"var", "let", "const"}), depth, false)
	case c == 10:
		return g.block(depth)
	case c == 11:
		n := &JSNode{K: "if", Kids: []*JSNode{g.expr(2, pComma), g.substmt(depth), nil}}
		if r.Intn(2) == 0 {
			n.Kids[2] = g.substmt(depth)
		}
		return n
	case c == 12:
		g.inLoop++
		n := &JSNode{K: Pick(r, []string{"while", "dowhile"}), Kids: []*JSNode{g.expr(2, pComma), g.substmt(depth)}}
		g.inLoop--
		return n
	case c == 13, c == 14:
		g.push("for")
		g.inLoop++
		n := &JSNode{K: "for", Kids: []*JSNode{nil, nil, nil, nil}}
		switch r.Intn(4) {
		case 0:
			n.Kids[0] = g.varDecl(Pick(r, []string{"var", "let"}), depth, false)
			n.Kids[0].set("noin")
		case 1:
			n.Kids[0] = g.expr(2, pComma)
			n.Kids[0] = &JSNode{K: "noin", Kids: []*JSNode{n.Kids[0]}}
		}
		if r.Intn(3) > 0 {
			n.Kids[1] = g.expr(2, pComma)
		}
		if r.Intn(3) > 0 {
			n.Kids[2] = g.expr(2, pComma)
		}
		n.Kids[3] = g.loopBody(depth)
		g.inLoop--
		g.pop()
		return n
	case c == 15, c == 16:
		g.push("for")
		g.inLoop++
		n := &JSNode{K: Pick(r, []string{"forin", "forof"}), Kids: []*JSNode{nil, nil, nil}}
		if n.K == "forof" && g.inAsync && r.Intn(3) == 0 {
			n.set("await")
		}
		// The iterated expression is evaluated in a scope that already contains the loop's let/const names (they are in
		// their temporal dead zone there): a reference to such a name denotes the loop binding. The head is therefore
		// generated first, the expression second, both in the loop scope.
		if r.Intn(4) == 0 {
			n.Kids[0] = g.lhs(depth)
			if r.Intn(3) == 0 {
				n.Kids[0] = g.assignPattern(depth) // for ({a = 1, b: [c]} of l)
			}
			if n.K == "forof" && n.Kids[0].K == "ident" && n.Kids[0].S == "async" {
				// `for (async of …` is excluded by a lookahead restriction of the grammar
				n.Kids[0] = &JSNode{K: "member", S: "p", Kids: []*JSNode{n.Kids[0]}}
			}
		} else {
			kind := Pick(r, []string{"var", "let", "const"})
			n.Kids[0] = &JSNode{K: "vardecl", Op: kind, Kids: []*JSNode{{K: "declarator", Kids: []*JSNode{g.pattern(kind, 0), nil}}}}
		}
		var right *JSNode
		if n.K == "forof" {
			right = g.expr(2, pAssign)
		} else {
			right = g.expr(2, pComma)
		}
		n.Kids[1] = right
		n.Kids[2] = g.loopBody(depth)
		g.inLoop--
		g.pop()
		return n
	case c == 17:
		if g.inLoop > 0 || g.inSwitch > 0 {
			k := "break"
			if g.inLoop > 0 && r.Intn(2) == 0 {
				k = "continue"
			}
			return &JSNode{K: k}
		}
		return &JSNode{K: "debugger"} // no empty statement directly inside a statement list: the parser folds ";;" (pinned by the unit tests for "{};;")
	case c == 18:
		if g.inFunc > 0 || g.o.TopReturn && g.scope.fn != nil && g.scope.fn.kind == "module" {
			n := &JSNode{K: "return", Kids: []*JSNode{nil}}
			if r.Intn(3) > 0 {
				n.Kids[0] = g.expr(2, pComma)
			}
			return n
		}
		return &JSNode{K: "debugger"}
	case c == 19:
		g.inSwitch++
		n := &JSNode{K: "switch", Kids: []*JSNode{g.expr(2, pComma)}}
		g.push("block")
		hasDefault := false
		for i := r.Intn(4); i > 0; i-- {
			cl := &JSNode{K: "case", Kids: []*JSNode{nil}}
			if hasDefault || r.Intn(4) > 0 {
				cl.Kids[0] = g.expr(2, pComma)
			} else {
				hasDefault = true
			}
			for j := r.Intn(3); j > 0 && g.budget > 0; j-- {
				cl.Kids = append(cl.Kids, g.stmt(depth+1, false))
			}
			n.Kids = append(n.Kids, cl)
		}
		g.pop()
		g.inSwitch--
		return n
	case c == 20:
		label := Pick(r, []string{"L1", "outer", "lbl", "async", "of", "as"})
		for _, l := range g.labels {
			if l == label {
				return &JSNode{K: "debugger"} // no empty statement directly inside a statement list: the parser folds ";;" (pinned by the unit tests for "{};;")
			}
		}
		if r.Intn(4) == 0 {
			// any statement can carry a label: a var statement, an expression statement
			if r.Intn(2) == 0 {
				return &JSNode{K: "labelled", S: label, Kids: []*JSNode{g.varDecl("var", depth, false)}}
			}
			return &JSNode{K: "labelled", S: label, Kids: []*JSNode{{K: "exprstmt", Kids: []*JSNode{g.expr(2, pComma)}}}}
		}
		g.labels = append(g.labels, label)
		g.inLoop++
		body := &JSNode{K: "while", Kids: []*JSNode{g.expr(2, pComma), nil}}
		inner := g.block(depth)
		inner.Kids = append(inner.Kids, &JSNode{K: Pick(r, []string{"break", "continue"}), S: label})
		body.Kids[1] = inner
		g.inLoop--
		g.labels = g.labels[:len(g.labels)-1]
		return &JSNode{K: "labelled", S: label, Kids: []*JSNode{body}}
	case c == 21:
		return &JSNode{K: "throw", Kids: []*JSNode{g.expr(2, pComma)}}
	case c == 22:
		n := &JSNode{K: "try", Kids: []*JSNode{g.block(depth), nil, nil, nil}}
		if r.Intn(4) > 0 {
			g.push("catch")
			if r.Intn(4) > 0 {
				n.Kids[1] = g.pattern("catch", 1)
				if n.Kids[1].K == "ident" {
					g.scope.catchSimple = n.Kids[1].S
				}
			} else {
				n.Kids[1] = &JSNode{K: "nobinding"}
			}
			// the catch block shares the scope of the catch parameter for redeclaration purposes
			cb := &JSNode{K: "block"}
			for i := r.Intn(3); i > 0 && g.budget > 0; i-- {
				cb.Kids = append(cb.Kids, g.stmt(depth+1, false))
			}
			n.Kids[2] = cb
			g.pop()
		}
		if n.Kids[2] == nil || r.Intn(3) == 0 {
			n.Kids[3] = g.block(depth)
		}
		return n
	case c == 23:
		return &JSNode{K: "debugger"}
	case c == 24, c == 25:
		// function declarations: directly in a function body or the program, and (the statement's reading: hoisted to the
		// enclosing function like var) in nested blocks, case clauses, try and catch blocks
		if top || r.Intn(2) == 0 {
			n := &JSNode{K: "funcdecl"}
			async, generator := r.Intn(5) == 0, r.Intn(5) == 0
			if async {
				n.set("async")
			}
			if generator {
				n.set("gen")
			}
			name := g.declare("function")
			g.funcName = name.S
			p, b := g.function("func", async, generator, false)
			n.Kids = []*JSNode{name, p, b}
			return n
		}
		return &JSNode{K: "exprstmt", Kids: []*JSNode{g.expr(1, pComma)}}
	case c == 26:
		if g.scope == g.noLexicalHere {
			return &JSNode{K: "debugger"}
		}
		return g.class(false)
	case c == 27:
		return &JSNode{K: "debugger"} // no empty statement directly inside a statement list: the parser folds ";;" (pinned by the unit tests for "{};;")
	default:
		return &JSNode{K: "exprstmt", Kids: []*JSNode{g.expr(1, pComma)}}
	}
}

// substmt: body of if/while: a block or a simple statement (no declarations).
func (g *jsGen) substmt(depth int) *JSNode {
	if g.r.Intn(2) == 0 {
		return g.block(depth)
	}
	switch g.r.Intn(5) {
	case 0:
		return &JSNode{K: "empty"}
	case 1:
		if g.inFunc > 0 {
			return &JSNode{K: "return", Kids: []*JSNode{g.expr(3, pComma)}}
		}
	case 2:
		// a var statement is a Statement, not a Declaration: if (a) var x = 1; else var y
		return g.varDecl("var", depth, false)
	}
	return &JSNode{K: "exprstmt", Kids: []*JSNode{g.expr(2, pComma)}}
}

func (g *jsGen) loopBody(depth int) *JSNode {
	if g.o.PlainKeys && g.scope.kind == "for" {
		// C04 domain (known findings for-head-shadowed-in-body / for-head-use-vs-body-let): the block that is the body of a
		// for statement declares its lexical names *first* (no use of a name before its declaration in that block) and never
		// a name the loop head declares.
		if g.r.Intn(3) == 0 {
			return &JSNode{K: "exprstmt", Kids: []*JSNode{g.expr(2, pComma)}}
		}
		var head []string
		for n := range g.scope.decl {
			head = append(head, n)
		}
		for n := range g.scope.vars {
			head = append(head, n)
		}
		g.push("block")
		for _, n := range head {
			g.scope.lexical[n], g.scope.vars[n] = true, true
		}
		blk := &JSNode{K: "block"}
		// the names first, then the initialisers, which mention none of them (not even from a nested function)
		var decls []*JSNode
		saveAvoid := g.avoid
		g.avoid = map[string]bool{}
		for n := range saveAvoid {
			g.avoid[n] = true
		}
		for i := g.r.Intn(3); i > 0; i-- {
			kind := Pick(g.r, []string{"let", "const"})
			id := g.declare(kind)
			g.avoid[id.S] = true
			decls = append(decls, &JSNode{K: "vardecl", Op: kind, Kids: []*JSNode{{K: "declarator", Kids: []*JSNode{id}}}})
		}
		for _, d := range decls {
			d.Kids[0].Kids = append(d.Kids[0].Kids, g.expr(depth+2, pAssign))
			blk.Kids = append(blk.Kids, d)
		}
		g.avoid = saveAvoid
		// from here on no further lexical declaration directly in this block
		saveNL := g.noLexicalHere
		g.noLexicalHere = g.scope
		for i := g.r.Intn(3); i > 0 && g.budget > 0; i-- {
			blk.Kids = append(blk.Kids, g.stmt(depth+1, false))
		}
		g.noLexicalHere = saveNL
		g.pop()
		return blk
	}
	return g.substmt(depth)
}

func (g *jsGen) moduleItem() *JSNode {
	r := g.r
	switch r.Intn(6) {
	case 0:
		g.fresh++
		u := fmt.Sprint(g.fresh)
		return &JSNode{K: "import", S: g.importText(u)}
	case 1:
		g.fresh++
		u := fmt.Sprint(g.fresh)
		return &JSNode{K: "exportraw", S: g.exportText(u)}
	case 2:
		if !g.exported {
			g.exported = true
			return &JSNode{K: "exportdecl", Kids: []*JSNode{g.varDecl(Pick(r, []string{"let", "const"}), 1, false)}}
		}
	case 3:
		if !g.exported {
			g.exported = true
			return &JSNode{K: "exportdefault", Kids: []*JSNode{g.expr(2, pAssign)}}
		}
	}
	return g.stmt(0, true)
}

// specifier list of an import or export clause: names (also reserved words and string names on the module side),
// `as` renames, trailing comma; every local or exported name is unique through the suffix u.
func (g *jsGen) specifiers(u string, isImport bool) string {
	r := g.r
	n := r.Intn(4)
	var parts []string
	for i := 0; i < n; i++ {
		ext := Pick(r, []string{"e1", "e2", "default", "if", "as", "from", `"s-t"`, "async"})
		loc := fmt.Sprintf("m%s_%d", u, i)
		if isImport {
			if ext == "e1" && r.Intn(2) == 0 {
				parts = append(parts, loc) // import { m1_0 }
			} else {
				parts = append(parts, ext+" as "+loc)
			}
		} else {
			// export … from "m": both sides are names of the other module / of the export table
			out := Pick(r, []string{loc, loc, `"x-` + u + fmt.Sprint(i) + `"`})
			if i == 0 && r.Intn(6) == 0 && !g.exported {
				out = "default"
				g.exported = true
			}
			parts = append(parts, ext+" as "+out)
		}
	}
	txt := "{ " + strings.Join(parts, " , ")
	if n > 0 && r.Intn(3) == 0 {
		txt += " ,"
	}
	return txt + " }"
}

func (g *jsGen) importText(u string) string {
	r := g.r
	from := Pick(r, []string{`"m"`, `'./m.js'`})
	switch r.Intn(7) {
	case 0:
		return "import " + from
	case 1:
		return "import * as ns" + u + " from " + from
	case 2:
		return "import d" + u + " from " + from
	case 3:
		return "import d" + u + " , * as ns" + u + " from " + from
	case 4:
		return "import d" + u + " , " + g.specifiers(u, true) + " from " + from
	default:
		return "import " + g.specifiers(u, true) + " from " + from
	}
}

func (g *jsGen) exportText(u string) string {
	r := g.r
	from := Pick(r, []string{`"m"`, `'./m.js'`})
	switch r.Intn(6) {
	case 0:
		return "export * from " + from
	case 1:
		return "export * as xs" + u + " from " + from
	case 2:
		return `export * as "x-s` + u + `" from ` + from
	case 3:
		return "export { }"
	default:
		return "export " + g.specifiers(u, false) + " from " + from
	}
}

// JSProgram generates an abstract program.
func JSProgram(r *rand.Rand, o JSOpts) *JSProg {
	g := &jsGen{r: r, o: o, budget: 20 + r.Intn(120)}
	if o.Budget > 0 {
		g.budget = o.Budget
	}
	g.push("module")
	prog := &JSNode{K: "program"}
	n := 1 + r.Intn(6)
	if o.MaxStmts > 0 && n > o.MaxStmts {
		n = o.MaxStmts
	}
	for i := 0; i < n; i++ {
		if !o.NoModuleItems && r.Intn(10) == 0 {
			prog.Kids = append(prog.Kids, g.moduleItem())
		} else {
			prog.Kids = append(prog.Kids, g.stmt(0, true))
		}
	}
	prog.Kids = g.sprinkleUseStrict(prog.Kids)
	g.resolve()
	return &JSProg{Root: prog, Bindings: g.nextID}
}

// JSProg is a generated program.
type JSProg struct {
	Root     *JSNode
	Bindings int
}

var _ = strings.Repeat
