// Package gen holds the seeded workload generators.
package gen

import (
	"math/rand"
	"unicode/utf8"
)

// Pick returns a random element.
func Pick[T any](r *rand.Rand, xs []T) T { return xs[r.Intn(len(xs))] }

// Chance returns true with probability p.
func Chance(r *rand.Rand, p float64) bool { return r.Float64() < p }

// SmallLen returns a length biased to small values with a heavy tail up to max.
func SmallLen(r *rand.Rand, max int) int {
	switch r.Intn(10) {
	case 0:
		return r.Intn(3)
	case 1, 2, 3, 4:
		return r.Intn(12)
	case 5, 6, 7:
		return r.Intn(40)
	case 8:
		if max > 200 {
			return r.Intn(200)
		}
		return r.Intn(max + 1)
	default:
		return r.Intn(max + 1)
	}
}

var runePool = []rune{'a', 'Z', '0', ' ', '\n', '\r', '\t', 0x7f, 0x80, 0xa0, 0xe9, 0x3b1, 0x7ff, 0x800, 0x2028, 0x2029, 0xfeff, 0xffff, 0x10000, 0x1f600, 0x10ffff, 0x200c, 0x200d}

// Rune returns an interesting valid rune.
func Rune(r *rand.Rand) rune {
	if r.Intn(3) == 0 {
		return Pick(r, runePool)
	}
	switch r.Intn(4) {
	case 0:
		return rune(r.Intn(0x80))
	case 1:
		return rune(0x80 + r.Intn(0x800-0x80))
	case 2:
		x := rune(0x800 + r.Intn(0x10000-0x800))
		if x >= 0xd800 && x < 0xe000 {
			x = 0x4e2d
		}
		return x
	default:
		return rune(0x10000 + r.Intn(0x110000-0x10000))
	}
}

// UTF8 returns a valid UTF-8 string of n runes.
func UTF8(r *rand.Rand, n int) []byte {
	var b []byte
	for i := 0; i < n; i++ {
		b = utf8.AppendRune(b, Rune(r))
	}
	return b
}

// RawBytes returns n arbitrary bytes biased to values that matter for UTF-8 decoding and lexers.
func RawBytes(r *rand.Rand, n int) []byte {
	b := make([]byte, n)
	for i := range b {
		switch r.Intn(8) {
		case 0:
			b[i] = 0
		case 1:
			b[i] = byte(0xc0 + r.Intn(0x40))
		case 2:
			b[i] = byte(0x80 + r.Intn(0x40))
		case 3, 4:
			b[i] = byte(r.Intn(256))
		default:
			b[i] = byte(0x20 + r.Intn(0x5f))
		}
	}
	return b
}

// TruncatedTail appends a multi-byte rune cut d bytes short (d in 1..len-1) to b.
func TruncatedTail(r *rand.Rand, b []byte) []byte {
	var buf [4]byte
	ru := Rune(r)
	for utf8.RuneLen(ru) < 2 {
		ru = Rune(r)
	}
	n := utf8.EncodeRune(buf[:], ru)
	keep := 1 + r.Intn(n-1)
	return append(b, buf[:keep]...)
}

// Mutate applies k random byte-level mutations (insert, delete, replace, duplicate a span, splice a
// dictionary word, truncate) to a copy of b.
func Mutate(r *rand.Rand, b []byte, dict [][]byte, k int) []byte {
	out := append([]byte(nil), b...)
	for ; k > 0; k-- {
		switch r.Intn(9) {
		case 0: // insert random byte
			i := r.Intn(len(out) + 1)
			out = append(out[:i], append([]byte{RawBytes(r, 1)[0]}, out[i:]...)...)
		case 1: // delete span
			if len(out) > 0 {
				i := r.Intn(len(out))
				j := i + 1 + r.Intn(min(4, len(out)-i))
				out = append(out[:i], out[j:]...)
			}
		case 2: // replace byte
			if len(out) > 0 {
				out[r.Intn(len(out))] = RawBytes(r, 1)[0]
			}
		case 3: // duplicate span
			if len(out) > 0 && len(out) < 1<<16 {
				i := r.Intn(len(out))
				j := i + 1 + r.Intn(min(16, len(out)-i))
				span := append([]byte(nil), out[i:j]...)
				at := r.Intn(len(out) + 1)
				out = append(out[:at], append(span, out[at:]...)...)
			}
		case 4, 5: // splice dictionary word
			if len(dict) > 0 {
				w := Pick(r, dict)
				at := r.Intn(len(out) + 1)
				out = append(out[:at], append(append([]byte(nil), w...), out[at:]...)...)
			}
		case 6: // truncate
			if len(out) > 0 {
				out = out[:r.Intn(len(out))]
			}
		case 7: // insert valid multi-byte rune
			at := r.Intn(len(out) + 1)
			ru := utf8.AppendRune(nil, Rune(r))
			out = append(out[:at], append(ru, out[at:]...)...)
		case 8: // NUL
			at := r.Intn(len(out) + 1)
			out = append(out[:at], append([]byte{0}, out[at:]...)...)
		}
	}
	return out
}

// Hostile builds a hostile byte string for a language given its seed corpus and dictionary.
func Hostile(r *rand.Rand, corpus, dict [][]byte, maxLen int) []byte {
	var b []byte
	switch r.Intn(10) {
	case 0: // pure random bytes
		b = RawBytes(r, SmallLen(r, 64))
	case 1, 2: // dictionary soup
		n := 1 + SmallLen(r, 30)
		for i := 0; i < n; i++ {
			b = append(b, Pick(r, dict)...)
			if r.Intn(3) == 0 {
				b = append(b, ' ')
			}
		}
	case 3: // splice of two corpus entries at random points
		x, y := Pick(r, corpus), Pick(r, corpus)
		b = append(append(b, x[:r.Intn(len(x)+1)]...), y[r.Intn(len(y)+1):]...)
	case 4: // truncation of a corpus entry
		x := Pick(r, corpus)
		b = append(b, x[:r.Intn(len(x)+1)]...)
	default: // mutated corpus entry
		b = Mutate(r, Pick(r, corpus), dict, 1+r.Intn(4))
	}
	if r.Intn(12) == 0 {
		b = TruncatedTail(r, b)
	}
	if r.Intn(40) == 0 && len(dict) > 0 { // long run
		w := Pick(r, dict)
		n := r.Intn(2000)
		for i := 0; i < n && len(b) < maxLen; i++ {
			b = append(b, w...)
		}
	}
	if len(b) > maxLen {
		b = b[:maxLen]
	}
	return b
}

// ToValidUTF8 replaces invalid sequences so that the result is valid UTF-8.
func ToValidUTF8(b []byte) []byte {
	if utf8.Valid(b) {
		return b
	}
	out := make([]byte, 0, len(b))
	for len(b) > 0 {
		r, n := utf8.DecodeRune(b)
		if r == utf8.RuneError && n == 1 {
			out = append(out, '?')
		} else {
			out = append(out, b[:n]...)
		}
		b = b[n:]
	}
	return out
}

func min(a, b int) int {
	if a < b {
		return a
	}
	return b
}

// Words converts strings to byte slices.
func Words(ss ...string) [][]byte {
	out := make([][]byte, len(ss))
	for i, s := range ss {
		out[i] = []byte(s)
	}
	return out
}
