#!/usr/bin/env python3
"""Summarises .work/mutants.jsonl (written by tools/mutate.py): per file caught/missed, and the missed mutants."""
import json, os, collections, sys
V = os.path.dirname(os.path.dirname(os.path.abspath(__file__)))
rows = [json.loads(l) for l in open(os.path.join(V, ".work", "mutants.jsonl"))]
seen = {}
for r in rows:
    seen[(r["file"], r["orig"], r["mutation"])] = r  # last run wins (re-tests replace the first result)
per = collections.defaultdict(lambda: [0, 0])
for r in seen.values():
    per[r["file"]][0 if r["caught_by"] else 1] += 1
tc = tm = 0
for f in sorted(per):
    c, m = per[f]
    tc += c; tm += m
    print("%-26s caught %3d  missed %3d" % (f, c, m))
print("%-26s caught %3d  missed %3d" % ("TOTAL", tc, tm))
if "-v" in sys.argv:
    for r in sorted(seen.values(), key=lambda r: (r["file"], r["line"])):
        if not r["caught_by"]:
            print("MISSED %s:%d  %-18s %s" % (r["file"], r["line"], r["mutation"], r["orig"][:120]))
