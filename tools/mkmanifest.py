#!/usr/bin/env python3
"""Regenerates /verif/MANIFEST.json from the table below (single source of truth for registered checks)."""
import json, os, subprocess
HERE = os.path.dirname(os.path.dirname(os.path.abspath(__file__)))

CHECKS = {
 # id: (technique, level text, level note, design section)
}
exec(open(os.path.join(HERE, "tools", "checks_table.py")).read())

NOT_APPLICABLE = []
all_ids = [json.loads(l)["id"] for l in open(os.path.join(HERE, "properties.jsonl"))]
for pid in all_ids:
    if pid not in CHECKS:
        NOT_APPLICABLE.append({"property_id": pid, "reason": "not claimed yet: the monitor for this property is designed in DESIGN.md §4 but not built/validated in this commit"})

hooks_commits = []
hf = os.path.join(HERE, "MANIFEST.hooks")
if os.path.exists(hf):
    hooks_commits = [l.split()[0] for l in open(hf) if l.strip() and not l.startswith("#")]

m = {
 "version": 1,
 "setup_cmd": "./check --build",
 "hooks": {
  "guard": "verif",
  "enable": "go build -tags verif (the harness module /verif/harness replaces github.com/tdewolff/parse/v2 by /repo, so every check compiles the working tree with the tag on)",
  "baseline_off_cmd": "cd /repo && GOFLAGS=-mod=mod GOPROXY=off GOSUMDB=off GOTOOLCHAIN=local go test -json -vet=off -count=1 -timeout 25m ./...",
  "source_commits": hooks_commits,
  "add_only": True,
 },
 "engines": [
  {"name": "vh", "path": "harness/cmd/vh", "serves_properties": sorted(CHECKS),
   "kind_free_text": "Go runtime-monitoring harness: seeded workload generators, reference-model / trace / differential monitors, child-process workers with crash attribution, Go race detector build for the concurrency clauses"},
 ],
 "checks": [],
 "not_applicable": NOT_APPLICABLE,
 "notes": "All checks decide by observing executions of the real code (runtime monitoring). exit 0 = held on everything observed, exit 1 = VIOLATION, exit 2 = INCONCLUSIVE (watchdog / monitor observed nothing). known_findings.jsonl lists recorded and fixed defects.",
}
import re, glob
def _counts(pid):
    """sums the per-stream case counts of a property from its source file (streams with literal counts)"""
    q = t = 0
    for f in glob.glob(os.path.join(HERE, "harness", "props", pid.lower() + "*.go")):
        for mm in re.finditer(r"Quick: (\d+), Thorough: (\d+)", open(f).read()):
            q += int(mm.group(1)); t += int(mm.group(2))
    return q, t
def _sci(n):
    e = len(str(n)) - 1
    mant = round(n / 10**e, 2)
    s = ("%g" % mant)
    return ("10^%d" % e) if s == "1" else ("%s*10^%d" % (s, e))
for pid in sorted(CHECKS):
    tech, text, note, ref = CHECKS[pid]
    q, t = _counts(pid)
    text = text.replace("{Q}", _sci(q)).replace("{T}", _sci(t))
    m["checks"].append({
      "property_id": pid,
      "quick_cmd": "./check %s quick" % pid,
      "thorough_cmd": "./check %s thorough" % pid,
      "evidence_file": "evidence/%s.json" % pid,
      "replay_cmd_template": "./check %s --replay {path}" % pid,
      "engine": "vh",
      "level_claimed": {"category": "exploration", "text": text, "design_ref": ref},
      "level_note": note,
      "technique": tech,
    })
json.dump(m, open(os.path.join(HERE, "MANIFEST.json"), "w"), indent=1)
print("checks:", len(m["checks"]), "not_applicable:", len(NOT_APPLICABLE))
