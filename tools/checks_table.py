CHECKS["C12"] = (
 "online reference-model monitor over random cursor histories (runtime monitoring)",
 "Every method result of parse.Input and buffer.Lexer is compared with an executable reference cursor while {Q} (quick) / {T} (thorough) random contract-respecting histories run over hostile inputs and all constructors incl. failing readers and standard-library readers of which the caller has already consumed a prefix; caller backing array guarded by a canary. Held-on-what-was-observed, not a proof.",
 "Trusts unicode/utf8 as the decoding reference and the harness's reference cursor (40 lines). Histories never move past the terminator (documented contract).",
 "DESIGN.md §4 C12")
CHECKS["C13"] = (
 "online reference-model monitor over reader schedules x op histories, shadow copies of returned slices, pool-invariant hook, held-memory measurement (runtime monitoring)",
 "StreamLexer is driven by {Q} (quick) / {T} (thorough) random histories over random reader chunk schedules (zero-length reads incl. runs of up to 300, EOF/error with or after the last bytes, failure at a random offset), initial sizes 0..4096 and five Free disciplines; every result (incl. look-behind Peek inside the token and forward Rewind to an earlier mark) is compared with a reference cursor, every returned slice is shadow-copied and re-compared after each call while protected, ShiftLen is compared with the model, hook H2 pool invariants are asserted at each quiescent point, and held memory / allocation are measured on streams of length L and 8L. Held on what was observed.",
 "Trusts the reference cursor and the reading of the protection threshold recorded in DESIGN.md §4 C13; memory clause decided against the bound 32*(bufsize+k*longest)+4 KiB with full-buffer reads for the delayed discipline (see DESIGN).",
 "DESIGN.md §4 C13")
CHECKS["C01"] = (
 "hostile-input workloads under panic/fatal-error, pointer-range, call-bound, sticky-end and stack monitors in child processes (runtime monitoring)",
 "{Q} (quick) / {T} (thorough) hostile byte strings are fed to 14 streaming entry points x 4 Input constructors and to js.Parse x 4 Options; every call runs under recover(), children are watched for fatal errors, every slice handed out is classified against the input buffer, the number of calls until the terminal report is bounded by 4*len+64, the terminal report must repeat, error offsets (hook H1) must lie inside the input, accepted trees are printed/walked/converted, and 105 recursive constructs are nested 10^3..10^6 deep with the stack high-water measured. Held on what was observed.",
 "A hang is decided by CPU time (90 s in a batch, 600 s alone). 'Terminal report' is read as an Error result that does not advance the cursor and repeats identically (weakest reading covering sticky lexer errors such as XML NUL); once a report carried io.EOF every further call must be an error result with io.EOF again.",
 "DESIGN.md §4 C01")
CHECKS["C14"] = (
 "differential monitors against strconv/math/big on boundary-centred generated inputs, dst canaries (runtime monitoring)",
 "{Q} (quick) / {T} (thorough) cases (about 10 evaluations each): parsers compared with a longest-prefix reference and math/big / strconv.ParseFloat within the stated 1e-14, formatters checked for well-formedness, sign, parse-back window and destination preservation, AppendNumber/ParseNumber round trip over multi-byte symbols. Held on what was observed.",
 "Tolerances and readings are those of DESIGN.md §4 C14 (AppendFloat: at least prec correct leading digits, truncated). Trusts strconv/math/big.",
 "DESIGN.md §4 C14")
CHECKS["C16"] = (
 "differential monitors against regexp, net/url, encoding/base64, mime and byte-wise references, canaries on in-place regions (runtime monitoring)",
 "{Q} (quick) / {T} (thorough) cases around the syntax boundaries of Number, Dimension, EncodeURL/DecodeURL (both built-in tables and three caller-owned tables), DataURI, Mediatype, EqualFold/ToLower/TrimWhitespace/IsAllWhitespace and the css/html hash tables (all 256 byte values, every constant, near-miss non-members). Held on what was observed.",
 "Mediatype compared with mime only on generated well-formed lower-case unquoted values; DecodeURL with url.QueryUnescape only where that succeeds. Trusts the standard library references.",
 "DESIGN.md §4 C16")
CHECKS["C17"] = (
 "reference-model and read-back monitors (regexp, html.UnescapeString, the library's own lexers) on fragment-built strings (runtime monitoring)",
 "{Q} (quick) / {T} (thorough) cases: whitespace function vs regexp, ReplaceEntities for length, idempotence and decoded-text preservation over consistent entity maps, combined function vs sequence, html/xml EscapeAttrVal read back through the lexers with the documented quoting decision, EscapeCDATAVal un-escape. Held on what was observed.",
 "Decoded text is html.UnescapeString repaired for two stdlib deviations (numeric references above 0x10FFFF, empty hexadecimal reference) and with NUL/U+FFFD identified; entity maps are consistent with HTML and in normal form.",
 "DESIGN.md §4 C17")
CHECKS["C19"] = (
 "reference-model monitor (bytes.Reader + encoding/binary) over typed write/read scripts on eight backends with truncation at every byte, Go race detector for parallel ReadAt (runtime monitoring)",
 "{Q} (quick) / {T} (thorough) cases: BinaryWriter bytes compared with encoding/binary, every read on every backend compared with a model {data,pos,eof}, Seek compared with bytes.Reader for all (whence, target), Read/ReadAt io contracts, clones inherit the byte order, a slice returned by ReadBytes has no spare capacity inside the reader's data, Bitmap round trip (also into a reused scratch buffer full of one-bits) and 8*len bits, and goroutines doing parallel ReadAt on one reader and on clones under the -race build. Held on what was observed.",
 "Readings of the short-read and Seek-beyond-end cases are listed in the evidence assumptions. Race clause rests on the Go race detector's happens-before analysis of the executions produced.",
 "DESIGN.md §4 C19")
CHECKS["C02"] = (
 "tiling / pointer-range trace monitor over token events, re-lex differential, buffer diff against a pristine copy (runtime monitoring)",
 "{Q} (quick) / {T} (thorough) hostile inputs through the css, js, html (plain and 3 template dialects) and xml lexers with 4 Input constructors: every token is compared with the buffer at the offset reported after the call, order/non-emptiness/no spare capacity are asserted, css and js tokens before the first lexical error must tile exactly and re-lex to themselves, html/xml gaps must be tag-internal whitespace, Text/AttrKey/AttrVal must lie inside their token, and the buffer is diffed with a pristine copy for rewrites outside the allowed regions. Held on what was observed.",
 "Readings of the allowed rewrites (whole end-tag token lower-cased, names of foreign elements cut short by NUL) are listed in the evidence assumptions and DESIGN.md §4 C02.",
 "DESIGN.md §4 C02")
CHECKS["C10"] = (
 "differential monitor against encoding/json (Valid/Compact), shadow-stack nesting monitor with State() and depth hook, structural-mutant oracle (runtime monitoring)",
 "{Q} (quick) / {T} (thorough) cases: generated valid documents must parse without error and re-join byte-identically to json.Compact; on fuzzed inputs every Start/End unit is matched against a shadow stack, State() and the hooked stack depth are compared with it after every call; five kinds of structural mutants (mismatched/extra closer, missing comma, missing colon, non-string key) must end in a *parse.Error before the offending construct is delivered. Held on what was observed.",
 "encoding/json.Valid defines validity. After an error report only Start/End matching is demanded.",
 "DESIGN.md §4 C10")
CHECKS["C11"] = (
 "construction-time ground truth from a document generator, differential monitor against encoding/xml RawToken, attribute-placement trace automaton and end-report clause on hostile bytes (runtime monitoring)",
 "{Q} (quick) / {T} (thorough) cases: generated well-formed documents are compared token by token (type, bytes, Text(), AttrVal()) with the abstract document they were spelled from and with encoding/xml for element names, attribute names and entity-free values; on hostile byte strings Attribute tokens must lie between a start tag and its closer, io.EOF may only be reported at Offset()==Len(), and an input containing NUL must end in an error. Held on what was observed.",
 "Generator restricted to the XML subset named in the property (see evidence assumptions); encoding/xml is trusted as the conforming reader.",
 "DESIGN.md §4 C11")
CHECKS["C09"] = (
 "construction-time ground truth from a document generator compared token by token, attribute-placement trace automaton on hostile bytes (runtime monitoring)",
 "{Q} (quick) / {T} (thorough) cases: generated documents of well-formed HTML constructs (all attribute syntaxes, void/end tags, six raw-text elements with look-alike end tags and script double-escape, plaintext, svg/math) in random case and whitespace, half with one of the six template dialects, are lexed and every token is compared (type, exact bytes, Text/AttrKey, AttrVal, HasTemplate) with the abstract document; on hostile bytes Attribute tokens must lie between a start tag and its closer. Held on what was observed; three recorded known findings about svg/math content are probed individually.",
 "Random svg/math content avoids the three shapes recorded in known_findings.jsonl; template regions are placed at the positions the unit tests document.",
 "DESIGN.md §4 C09")
CHECKS["C07"] = (
 "construction-time ground truth from a token-sequence generator with a conservative would-merge predicate, differential monitor IsIdent/IsURLUnquoted vs the lexer (runtime monitoring)",
 "{Q} (quick) / {T} (thorough) cases: sequences of 1-40 tokens over all 33 token kinds, separated only where neighbours could merge, must lex to exactly the written (type, text) sequence incl. BadString on a raw newline and one BadURL up to the closing parenthesis; IsIdent and IsURLUnquoted are compared with the lexer on byte strings around the syntax boundaries. Evidence lists the adjacent-kind pairs observed. Held on what was observed.",
 "The generator encodes the css-syntax-3 railroad diagrams plus the 2014 tokens the lexer keeps; url is spelled with plain letters.",
 "DESIGN.md §4 C07")
CHECKS["C08"] = (
 "construction-time ground truth from a stylesheet generator compared unit by unit; shadow-stack nesting monitor with state-stack hook, offset-window token-conservation monitor against an independent lexer run, end-report clause on hostile bytes (runtime monitoring)",
 "{Q} (quick) / {T} (thorough) cases: generated well-formed stylesheets and inline declaration lists must yield exactly the abstract unit sequence (type, lower-cased name, Values() with the whitespace rules of the statement); on hostile byte strings every Begin/End unit is matched against a shadow stack while no parse error was reported (also against the hooked state-stack depth), every token reported through data or Values() must be one of the lexer tokens consumed by that call, in source order, and the stream must end with ErrorGrammar/io.EOF within 2*tokens+8 calls and stay there. Held on what was observed.",
 "Whitespace is generated only at positions on which the statement is explicit (see evidence assumptions); Values() is checked only for the unit kinds its documentation names plus parse-error units.",
 "DESIGN.md §4 C08")
CHECKS["C03"] = (
 "construction-time ground truth: abstract programs spelled in several styles, metamorphic comparison of String() against the fully parenthesised spelling, generator-side WhileToFor rewrite, rejection mutants (runtime monitoring)",
 "{Q} (quick) / {T} (thorough) cases: every generated ES2022 program is spelled in a fully parenthesised reference style and four other styles (minimal/redundant parentheses, whitespace/comments/line breaks, ';' vs ASI); all spellings must be accepted under every applicable Options value and give, after removing GroupExpr, the String() of the reference spelling and a tree equal to it field by field (reflection; token types, flags, nil-vs-empty); WhileToFor must give the tree of the generator-rewritten for-loop program; single-bracket mutants, forbidden operator sequences composed from operand/operator tables and duplicate lexical declarations must be rejected without a tree; identifiers include the contextual keywords async/of/get/set/as/from, import/export clauses are generated. Evidence lists operator-in-operator pairs and node kinds observed. Held on what was observed.",
 "The fully parenthesised spelling is taken as the definition of the prescribed structure (it leaves the parser no precedence/associativity/ASI decision). Generator domain listed in the evidence assumptions; generated programs were cross-checked for validity with an independent engine during development only.",
 "DESIGN.md §4 C03")
CHECKS["C04"] = (
 "reference-model monitor: the generator's own ECMAScript scope resolver labels every identifier; the library tree is renamed, printed and lexed, and the identifier tokens are aligned with the generator's (runtime monitoring)",
 "{Q} (quick) / {T} (thorough) generated programs with names drawn from a pool of five plus six contextual keywords (shadowing at every level, hoisting of var and block-level function declarations, closures, catch clauses incl. var redeclaring the parameter, loop heads, parameter defaults that mention outer names, classes, parenthesised lists that are or are not arrow heads): same binding <=> same fresh name, unbound names unchanged and listed in the outermost Undeclared, Var.Uses == printed occurrences, renamed program accepted. Six recorded known findings are probed individually. Held on what was observed.",
 "Domain restrictions (no forward references between parameters, literal-only destructuring defaults, lexical declarations of a for body first, a default-mentioned name declared at the start of the body or not at function level, no class-expression self reference, no module items) are listed in the evidence assumptions and DESIGN.md; each exists because of a recorded known finding or to keep the token alignment exact.",
 "DESIGN.md §4 C04")
CHECKS["C05"] = (
 "round-trip monitor (parse, print, re-parse, re-print) over generated programs, literal-stress snippets and mutated corpus entries, through JSString and JS(Indenter) (runtime monitoring)",
 "{Q} (quick) / {T} (thorough) inputs: for every accepted valid-UTF-8 input under a random Options value the printed text must be accepted, its tree must equal the original (String() after removing GroupExpr, and field by field through reflection) and re-printing must reproduce the text byte for byte, also when printed through an outer parse.Indenter of width 0-8 and for literals with line breaks nested in 0-6 blocks. Held on what was observed.",
 "Tree identity is observed through String() and a field-by-field reflection comparison (Scope tables and the Prec annotation excluded, Var by name) after a reflection-based removal of GroupExpr nodes.",
 "DESIGN.md §4 C05")
CHECKS["C06"] = (
 "construction-time ground truth from a token-sequence generator with a conservative would-merge predicate, lexer state hook H4, canonical-spelling monitor on hostile bytes (runtime monitoring)",
 "{Q} (quick) / {T} (thorough) cases: token sequences over the whole ECMAScript vocabulary (all punctuators, reserved and contextual keywords, identifiers with escapes and astral letters, all numeric forms, strings, nested templates, comments, all whitespace and line-terminator kinds) must lex to exactly the written (type, text) sequence, RegExp() must return the written literal, the hooked bracket level / open-template count must match the generator's; on hostile bytes every punctuator/keyword token's canonical spelling must equal its text. Evidence keeps the adjacent-kind pair matrix. Held on what was observed.",
 "Separators are inserted whenever merging cannot be excluded; domain exclusions (legacy octal, HTML-like comment openers, regular expressions without RegExp()) are listed in the evidence assumptions.",
 "DESIGN.md §4 C06")
CHECKS["C15"] = (
 "reference-model monitor for Position (line/column/context) on generated texts at every offset, error-offset hook H1 on hostile inputs for every lexer/parser, illegal-character insertion at token boundaries of generated JS/JSON (runtime monitoring)",
 "{Q} (quick) / {T} (thorough) cases (about 4*10^6 Position evaluations in the quick tier): line and column against an independent reference for all five break kinds, context layout and caret position, every *parse.Error's offset inside the input and its line/column/context equal to Position(input, offset), and exact position of one illegal character (@, U+0001, U+2030, 0x7f, for JS also a backslash) inserted between two tokens. Held on what was observed.",
 "Context layout details the statement leaves open (number column width, how a U+2028 ends the context line) are not judged; see evidence assumptions.",
 "DESIGN.md §4 C15")
CHECKS["C18"] = (
 "trace monitor over the Enter/Exit log of a recording visitor against a reflection walk of the same tree (runtime monitoring)",
 "{Q} (quick) / {T} (thorough) trees from generated programs and mutated corpus entries x three visitor policies (plus 19 programs in syntax newer than the pinned grammar, checked whenever a tree is returned): every statement/expression/binding/identifier/block position and every addressable sub-structure that is a node (Element incl. holes, Property, Params, …) entered (exactly once per position when descending everywhere), parent before child, Exit once per non-nil Enter in stack order and delivered to the visitor object that Enter returned (children to the visitor returned for their parent), nothing entered below a node whose Enter returned nil, every pointer handed to Enter points into the tree (no copies, nothing reachable only through scope tables). Held on what was observed.",
 "Required positions are defined by reflection over exported fields other than Scope; Walk may additionally enter sub-structures.",
 "DESIGN.md §4 C18")
CHECKS["C20"] = (
 "Go race detector over goroutines driving private instances of every entry point, digest comparison concurrent vs sequential, history-independence digests, data-segment/heap-one-level snapshot diff of library package variables (runtime monitoring)",
 "{Q} (quick) / {T} (thorough) cases: 8-64 goroutines run 48 entry-point families on private copies under -race (a race report fails the case; concurrent digests must equal sequential ones; the full entry x entry matrix is covered), pool cases are replayed after different prefixes and orders in several processes (digests must not depend on history), and all library data/bss symbols (followed one level through pointers, slices and maps) are snapshotted before and after mixed workloads; for 25 ordered pairs of reader-backed instance kinds, one instance is held inside its data source while another goroutine's instance must obtain its solo result. Held on what was observed.",
 "Rests on the race detector's happens-before analysis of the executions produced; the 'no mutable package state' clause is decided by the snapshot diff instead of a static scan.",
 "DESIGN.md §4 C20")
