CHECKS["C12"] = (
 "online reference-model monitor over random cursor histories (runtime monitoring)",
 "Every method result of parse.Input and buffer.Lexer is compared with an executable reference cursor while 10^6 (quick) / 3*10^7 (thorough) random contract-respecting histories run over hostile inputs and all constructors incl. failing readers; caller backing array guarded by a canary. Held-on-what-was-observed, not a proof.",
 "Trusts unicode/utf8 as the decoding reference and the harness's reference cursor (40 lines). Histories never move past the terminator (documented contract).",
 "DESIGN.md §4 C12")
CHECKS["C13"] = (
 "online reference-model monitor over reader schedules x op histories, shadow copies of returned slices, pool-invariant hook, held-memory measurement (runtime monitoring)",
 "StreamLexer is driven by 1.5*10^6 (quick) / 4*10^7 (thorough) random histories over random reader chunk schedules (zero-length reads, EOF/error with or after the last bytes, failure at a random offset), initial sizes 0..4096 and five Free disciplines; every result is compared with a reference cursor, every returned slice is shadow-copied and re-compared after each call while protected, ShiftLen is compared with the model, hook H2 pool invariants are asserted at each quiescent point, and held memory / allocation are measured on streams of length L and 8L. Held on what was observed.",
 "Trusts the reference cursor and the reading of the protection threshold recorded in DESIGN.md §4 C13; memory clause decided against the bound 32*(bufsize+k*longest)+4 KiB with full-buffer reads for the delayed discipline (see DESIGN).",
 "DESIGN.md §4 C13")
