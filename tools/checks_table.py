CHECKS["C12"] = (
 "online reference-model monitor over random cursor histories (runtime monitoring)",
 "Every method result of parse.Input and buffer.Lexer is compared with an executable reference cursor while 10^6 (quick) / 3*10^7 (thorough) random contract-respecting histories run over hostile inputs and all constructors incl. failing readers; caller backing array guarded by a canary. Held-on-what-was-observed, not a proof.",
 "Trusts unicode/utf8 as the decoding reference and the harness's reference cursor (40 lines). Histories never move past the terminator (documented contract).",
 "DESIGN.md §4 C12")
