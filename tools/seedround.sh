#!/bin/bash
# tools/seedround.sh <dirprefix> <offset> <PID>...  : seedtest for out/1..3 of /tmp/<dirprefix>-<pid>, stored as variants offset+1..offset+3
cd "$(dirname "$0")/.."
PFX=$1; OFF=$2; shift 2
for P in "$@"; do
  lc=$(echo $P | tr A-Z a-z)
  for k in 1 2 3; do
    [ -d /tmp/$PFX-$lc/out/$k ] || continue
    echo "== $P-$((k+OFF))"
    tools/seedtest.sh $P $((k+OFF)) /tmp/$PFX-$lc/out/$k
  done
done
