#!/usr/bin/env python3
"""Regenerates the table of DESIGN.md section 7 (seeded changes) from seeded/*/meta.json."""
import json, os, glob, re
HERE = os.path.dirname(os.path.dirname(os.path.abspath(__file__)))
rows = []
for d in sorted(glob.glob(os.path.join(HERE, "seeded", "C*-*"))):
    m = json.load(open(os.path.join(d, "meta.json")))
    txt = " ".join(m["breaks_and_needs"].split())[:230].replace("|", "\\|")
    first = ""
    for c in m["checks"]:
        if c["exit"] == 1:
            mm = re.match(r"stream=(\S+)", c["first_violation"])
            first = " (first report: stream `%s`)" % mm.group(1) if mm else ""
            break
    rows.append("| %s | %s%s | %s |" % (os.path.basename(d), ", ".join(m["caught_by"]) or "**missed**", first, txt))
p = os.path.join(HERE, "DESIGN.md")
s = open(p).read()
head = "| id | caught by (quick tier) | what the change is / needs |\n|----|------------------------|----------------------------|\n"
i = s.index(head) + len(head)
j = s.index("\n\n", i)
s = s[:i] + "\n".join(rows) + s[j:]
open(p, "w").write(s)
print(len(rows), "rows")
