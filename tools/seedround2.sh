#!/bin/bash
# tools/seedround2.sh <PID>...  : runs seedtest for the three round-2 variants of each property (stored as variants 3,4,5)
cd "$(dirname "$0")/.."
for P in "$@"; do
  lc=$(echo $P | tr A-Z a-z)
  for k in 1 2 3; do
    [ -d /tmp/s2-$lc/out/$k ] || continue
    echo "== $P-$((k+2))"
    tools/seedtest.sh $P $((k+2)) /tmp/s2-$lc/out/$k
  done
done
