#!/bin/bash
# tools/seedtest.sh <PID> <variant> <srcdir>   e.g. tools/seedtest.sh C12 1 /tmp/seed-c12/out/1
# Confirms a seeded change (builds, suite passes, demo fails with / passes without), runs ./check <PID> quick
# against a scratch worktree with the change applied, and stores everything under seeded/<PID>-<variant>/.
set -u
PID=$1; K=$2; SRC=$3; EXTRA=${4:-}
export GOFLAGS=-mod=mod GOPROXY=off GOSUMDB=off GOTOOLCHAIN=local
cd "$(dirname "$0")/.."
V=$PWD
DST=$V/seeded/$PID-$K
S=/tmp/seedchk-$PID-$K
rm -rf "$S"; git -C /repo worktree prune; git -C /repo worktree add -q --detach "$S" HEAD || exit 3
res() { echo "$1" >> "$S.log"; echo "$1"; }
: > "$S.log"
mkdir -p "$S/out/$K"; cp -r "$SRC"/. "$S/out/$K/"
cd "$S"
demo_run() {
  if [ -f out/$K/demo/main.go ]; then go run ./out/$K/demo >/dev/null 2>&1; return $?; fi
  f=out/$K/demo_test.go
  pkg=$(grep -m1 '^package ' $f | awk '{print $2}')
  dir=$(grep -m1 -oE 'place[d]? (it )?(in|into|under) [^ ]+' $f | awk '{print $NF}' | tr -d '`",.' )
  case "$pkg" in parse|parse_test) d=.;; *) d=${pkg%_test};; esac
  [ -d "$d" ] || d=.
  cp $f $d/zz_seed_demo_test.go
  go test -vet=off -count=1 ./$d -run . >/dev/null 2>&1; rc=$?
  rm -f $d/zz_seed_demo_test.go
  return $rc
}
demo_run; base=$?
git apply out/$K/patch.diff || { res "patch does not apply"; cd /; git -C /repo worktree remove --force "$S"; exit 3; }
go build ./... >/dev/null 2>&1; b=$?
go test -vet=off -count=1 $(go list ./... | grep -v /out/) >/dev/null 2>&1; suite=$?
demo_run; withp=$?
res "build=$b suite=$suite demo_without_patch=$base demo_with_patch=$withp"
rm -rf out
cd "$V"
caught=""
for P in $PID $EXTRA; do
  VERIF_REPO="$S" timeout 1500 ./check $P quick > "$S.$P.out" 2>&1; rc=$?
  nv=$(grep -c '^VIOLATION' "$S.$P.out")
  first=$(grep -m1 -A1 '^VIOLATION' "$S.$P.out" | tail -1 | cut -c1-300)
  res "check $P quick: exit=$rc violations=$nv :: $first"
  [ $rc = 1 ] && caught="$caught $P"
done
res "caught_by:$caught"
mkdir -p "$DST"; cp -r "$SRC"/. "$DST/"; cp "$S.log" "$DST/run.log"
git -C /repo worktree remove --force "$S"; rm -f "$S".*.out "$S.log"
