#!/usr/bin/env python3
# development aid: show the source and renamed print-out of recorded C04 replays
import json,base64,subprocess,sys,glob
for f in sorted(glob.glob('/verif/replays/C04-*.json')):
    d=json.load(open(f))
    if sys.argv[1:] and str(d.get('index')) not in sys.argv[1:]: continue
    desc=d.get('desc') or d.get('case')
    src=base64.b64decode(desc['src']['b64']).decode()
    print('=====',f,d.get('index'),d.get('message','')[:300])
    if len(src)<700:
        print(src)
        print(subprocess.run(['/verif/.bin/jsdump','rename','-e',src],capture_output=True,text=True).stdout)
    else:
        print('(len %d)'%len(src))
