#!/usr/bin/env python3
"""Writes seeded/<PID>-<k>/meta.json from the seeding agent's meta.txt and tools/seedtest.sh's run.log."""
import json, os, re, glob
HERE = os.path.dirname(os.path.dirname(os.path.abspath(__file__)))
for d in sorted(glob.glob(os.path.join(HERE, "seeded", "C*-*"))):
    pid, k = os.path.basename(d).split("-")
    meta_txt = open(os.path.join(d, "meta.txt")).read() if os.path.exists(os.path.join(d, "meta.txt")) else ""
    log = open(os.path.join(d, "run.log"), errors="replace").read() if os.path.exists(os.path.join(d, "run.log")) else ""
    res = dict(re.findall(r"(build|suite|demo_without_patch|demo_with_patch)=(\d+)", log))
    checks = []
    for m in re.finditer(r"check (C\d+) quick: exit=(\d+) violations=(\d+) :: (.*)", log):
        checks.append({"check": m.group(1), "tier": "quick", "exit": int(m.group(2)), "violation_lines": int(m.group(3)), "first_violation": m.group(4).strip()[:300]})
    caught = re.search(r"caught_by:(.*)", log)
    demo = "demo/main.go" if os.path.exists(os.path.join(d, "demo", "main.go")) else "demo_test.go"
    meta = {
        "property": pid, "variant": int(k),
        "breaks_and_needs": meta_txt.strip(),
        "files": {"patch": "patch.diff", "demonstration": demo, "author_notes": "meta.txt", "log": "run.log"},
        "what_was_run": [
            "git worktree of /repo HEAD under /tmp; git apply patch.diff",
            "go build ./... ; go test -vet=off -count=1 ./... (whole library suite, must pass with the patch)",
            "demonstration with and without the patch (go run ./out/<k>/demo from the worktree root): must fail with, pass without",
            "VERIF_REPO=<worktree> ./check %s quick (harness compiled against the patched copy)" % pid,
        ],
        "confirmed": {"builds_with_patch": res.get("build") == "0", "suite_passes_with_patch": res.get("suite") == "0",
                      "demo_passes_without_patch": res.get("demo_without_patch") == "0", "demo_fails_with_patch": res.get("demo_with_patch") not in (None, "0")},
        "checks": checks,
        "caught_by": caught.group(1).split() if caught else [],
    }
    json.dump(meta, open(os.path.join(d, "meta.json"), "w"), indent=1)
    print(os.path.basename(d), meta["caught_by"], meta["confirmed"])
