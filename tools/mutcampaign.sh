#!/bin/bash
# tools/mutcampaign.sh <n-per-file> <seed> <file>...   runs tools/mutate.py over several files one after another
cd "$(dirname "$0")/.."
N=$1; SEED=$2; shift 2
for f in "$@"; do
  python3 tools/mutate.py "$f" "$N" "$SEED"
done
