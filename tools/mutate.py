#!/usr/bin/env python3
"""Mutation self-test of the checks (development aid, not a registered check).

tools/mutate.py <file-relative-to-repo> <n> [seed]   e.g. tools/mutate.py js/parse.go 40

Takes n random single-token mutants of one library source file (relational / logical / arithmetic operator swaps,
boolean flips, +1/-1 constants, dropped negations, break<->continue, deleted simple statements) in a scratch git
worktree under /tmp, keeps those that still compile AND pass the library's whole test suite (the mutants the unit
tests cannot see), and runs the quick tier (VH_SCALE from the environment, default 0.3) of the properties mapped to
that file against each. Appends one JSON line per mutant to .work/mutants.jsonl and prints a summary. Nothing is
ever written to /repo; the worktree is removed at the end.
"""
import json, os, random, re, subprocess, sys, time

V = os.path.dirname(os.path.dirname(os.path.abspath(__file__)))
ENV = dict(os.environ, GOFLAGS="-mod=mod", GOPROXY="off", GOSUMDB="off", GOTOOLCHAIN="local")
ENV.setdefault("VH_SCALE", "0.3")
ENV.setdefault("VH_CASE_CPU", "20")
ENV.setdefault("VH_SOLO_CPU", "30")

PROPS = {
    "js/lex.go": ["C06", "C02", "C01"], "js/parse.go": ["C03", "C04", "C05", "C01", "C15"], "js/ast.go": ["C04", "C05", "C03", "C01"],
    "js/walk.go": ["C18"], "js/util.go": ["C05", "C03"], "js/tokentype.go": ["C06", "C03"],
    "css/lex.go": ["C07", "C02", "C01"], "css/parse.go": ["C08", "C01"], "css/util.go": ["C07"],
    "html/lex.go": ["C09", "C02", "C01"], "html/util.go": ["C17"],
    "json/parse.go": ["C10", "C01", "C15"], "xml/lex.go": ["C11", "C02", "C01", "C15"], "xml/util.go": ["C17"],
    "input.go": ["C12", "C01"], "buffer/lexer.go": ["C12"], "buffer/streamlexer.go": ["C13"], "buffer/reader.go": ["C12"], "buffer/writer.go": ["C12"],
    "strconv/float.go": ["C14"], "strconv/int.go": ["C14"], "strconv/decimal.go": ["C14"], "strconv/number.go": ["C14"], "strconv/price.go": ["C14"],
    "common.go": ["C16", "C17"], "util.go": ["C16", "C17", "C05"], "position.go": ["C15"], "error.go": ["C15"], "binary.go": ["C19"],
}

SWAPS = [
    (r"<=", ["<"]), (r">=", [">"]), (r"(?<![<\-=!>])<(?![<\-=])", ["<="]), (r"(?<![>\-=])>(?![>=])", [">="]),
    (r"==", ["!="]), (r"!=", ["=="]), (r"&&", ["||"]), (r"\|\|", ["&&"]),
    (r"\btrue\b", ["false"]), (r"\bfalse\b", ["true"]),
    (r"\+ 1\b", ["+ 2", "+ 0"]), (r"- 1\b", ["- 2", "- 0"]), (r"\+1\b", ["+2"]), (r"-1\b", ["-2"]),
    (r"\bbreak\b(?! \w)", ["continue"]), (r"\bcontinue\b(?! \w)", ["break"]),
    (r"if !", ["if "]), (r"&& !", ["&& "]), (r"\|\| !", ["|| "]),
    (r"\+\+", ["--"]), (r"\+=", ["-="]),
    (r"\b0 <", ["1 <"]), (r"\b0 <=", ["1 <="]),
]
DELETABLE = re.compile(r"^\s*(?:[\w.\[\]]+(?:, [\w.\[\]]+)* (?:=|\+=|-=|\|=) .*|[\w.]+(?:\+\+|--)|[\w.]+\.(?:next|Move|Skip|Rewind|Shift|MarkForStmt|MarkFuncArgs|HoistUndeclared)\(.*\)|continue|break)\s*$")


def sh(cmd, cwd, timeout=1800, env=ENV):
    p = subprocess.run(cmd, cwd=cwd, env=env, stdout=subprocess.PIPE, stderr=subprocess.STDOUT, text=True, timeout=timeout)
    return p.returncode, p.stdout


def candidates(lines):
    out = []
    in_block_comment = False
    for i, ln in enumerate(lines):
        s = ln.strip()
        if s.startswith("//") or not s or s.startswith("import") or s.startswith("package"):
            continue
        if os.environ.get("MUT_NO_TABLES") and re.match(r"^(true|false)(, (true|false))*,?(\s*//.*)?$", s):
            continue  # rows of the 256-entry lookup tables
        code = ln.split("//")[0]
        if '"' in code or "'" in code or "`" in code:
            # keep it simple: only mutate outside string/rune literals
            code_ok = re.sub(r'"(?:[^"\\]|\\.)*"|\'(?:[^\'\\]|\\.)*\'|`[^`]*`', lambda m: " " * len(m.group(0)), code)
        else:
            code_ok = code
        for pat, reps in SWAPS:
            for m in re.finditer(pat, code_ok):
                for rep in reps:
                    out.append((i, ln[:m.start()] + rep + ln[m.end():], "%s -> %s @%d" % (m.group(0), rep, m.start())))
        if DELETABLE.match(code_ok) and "defer" not in code_ok:
            out.append((i, None, "delete statement"))
    return out


def retest():
    """tools/mutate.py --retest : applies every mutant recorded as missed in .work/mutants.jsonl again (located by
    the text of the original line) and runs the mapped checks of the current harness; appends the new records."""
    rows = [json.loads(l) for l in open(os.path.join(V, ".work", "mutants.jsonl"))]
    last = {}
    for r in rows:
        last[(r["file"], r["orig"], r["mutation"])] = r
    todo = [r for r in last.values() if not r["caught_by"]]
    if os.environ.get("MUT_FILES"):
        keep = set(os.environ["MUT_FILES"].split(","))
        todo = [r for r in todo if r["file"] in keep]
    wt = "/tmp/mut-%d" % os.getpid()
    subprocess.run(["git", "-C", "/repo", "worktree", "prune"])
    subprocess.run(["git", "-C", "/repo", "worktree", "add", "-q", "--detach", wt, "HEAD"], check=True)
    outf = open(os.path.join(V, ".work", "mutants.jsonl"), "a")
    try:
        for r in todo:
            path = os.path.join(wt, r["file"])
            orig = open(path).read()
            lines = orig.split("\n")
            idx = [i for i, ln in enumerate(lines) if ln.strip()[:160] == r["orig"]]
            if not idx:
                print("GONE   %s:%d %s" % (r["file"], r["line"], r["mutation"]), flush=True)
                continue
            i = min(idx, key=lambda k: abs(k - (r["line"] - 1)))
            ln = lines[i]
            mut = r["mutation"]
            if mut == "delete statement":
                new = ""
            else:
                mm = re.match(r"(.*) -> (.*?)(?: @(\d+))?$", mut)
                a, b, col = mm.group(1), mm.group(2), mm.group(3)
                if col is not None and ln[int(col):int(col) + len(a)] == a:
                    new = ln[:int(col)] + b + ln[int(col) + len(a):]
                elif col is None and ln.count(a) == 1:
                    new = ln.replace(a, b)
                else:
                    print("AMBIG  %s:%d %s" % (r["file"], r["line"], r["mutation"]), flush=True)
                    continue
            ml = list(lines)
            ml[i] = new
            open(path, "w").write("\n".join(ml))
            rc, out = sh(["go", "build", "./..."], wt, 300)
            caught_by, detail = [], {}
            if rc == 0:
                props = PROPS[r["file"]]
                for p in props:
                    t0 = time.time()
                    try:
                        rc, out = sh([os.path.join(V, "check"), p, "quick"], V, 1500, dict(ENV, VERIF_REPO=wt))
                    except subprocess.TimeoutExpired:
                        rc, out = 3, "timeout"
                    first = ""
                    m2 = re.search(r"^VIOLATION.*\n(.*)", out, re.M)
                    if m2:
                        first = m2.group(1).strip()[:200]
                    detail[p] = {"rc": rc, "first": first, "s": round(time.time() - t0, 1)}
                    if rc == 1:
                        caught_by.append(p)
                        break
                    if rc == 2 and ("does not return within" in out or "HANG" in out):
                        caught_by.append(p + "(hang: inconclusive)")
                        break
            open(path, "w").write(orig)
            rec = dict(r, line=i + 1, caught_by=caught_by, detail=detail, retest=True)
            outf.write(json.dumps(rec) + "\n")
            outf.flush()
            print("%s %s:%d %s [%s]" % ("CAUGHT " + ",".join(caught_by) if caught_by else "MISSED", r["file"], i + 1, mut, r["orig"][:90]), flush=True)
    finally:
        subprocess.run(["git", "-C", "/repo", "worktree", "remove", "--force", wt])


def main():
    if sys.argv[1] == "--retest":
        retest()
        return
    rel, n = sys.argv[1], int(sys.argv[2])
    seed = int(sys.argv[3]) if len(sys.argv) > 3 else 1
    props = PROPS[rel]
    if os.environ.get("MUT_PROPS"):
        props = os.environ["MUT_PROPS"].split(",")
    wt = "/tmp/mut-%d" % os.getpid()
    subprocess.run(["git", "-C", "/repo", "worktree", "prune"])
    subprocess.run(["git", "-C", "/repo", "worktree", "add", "-q", "--detach", wt, "HEAD"], check=True)
    try:
        path = os.path.join(wt, rel)
        orig = open(path).read()
        lines = orig.split("\n")
        cands = candidates(lines)
        random.Random(seed).shuffle(cands)
        done = 0
        stats = {"tried": 0, "no_build": 0, "killed_by_tests": 0, "survive_tests": 0, "caught": 0, "missed": 0}
        outf = open(os.path.join(V, ".work", "mutants.jsonl"), "a")
        for (i, newline, what) in cands:
            if done >= n:
                break
            stats["tried"] += 1
            ml = list(lines)
            if newline is None:
                ml[i] = ""
            else:
                ml[i] = newline
            open(path, "w").write("\n".join(ml))
            rc, out = sh(["go", "build", "./..."], wt, 300)
            if rc != 0:
                stats["no_build"] += 1
                continue
            rc, out = sh(["go", "vet", "./" + os.path.dirname(rel)], wt, 300) if False else (0, "")
            try:
                rc, out = sh(["go", "test", "-vet=off", "-count=1", "-timeout", "30s", "./..."], wt, 400)
            except subprocess.TimeoutExpired:
                rc = 1
            if rc != 0:
                stats["killed_by_tests"] += 1
                continue
            stats["survive_tests"] += 1
            done += 1
            caught_by, detail = [], {}
            for p in props:
                t0 = time.time()
                try:
                    rc, out = sh([os.path.join(V, "check"), p, "quick"], V, 1500, dict(ENV, VERIF_REPO=wt))
                except subprocess.TimeoutExpired:
                    rc, out = 3, "timeout"
                first = ""
                m = re.search(r"^VIOLATION.*\n(.*)", out, re.M)
                if m:
                    first = m.group(1).strip()[:200]
                if rc == 2:
                    m = re.search(r"^INCONCLUSIVE.*", out, re.M)
                    first = m.group(0)[:200] if m else "inconclusive"
                detail[p] = {"rc": rc, "first": first, "s": round(time.time() - t0, 1)}
                if rc == 1:
                    caught_by.append(p)
                    break
                if rc == 2 and ("does not return within" in out or "HANG" in out):
                    caught_by.append(p + "(hang: inconclusive)")
                    break
            rec = {"file": rel, "line": i + 1, "orig": lines[i].strip()[:160], "mutation": what, "caught_by": caught_by, "detail": detail}
            outf.write(json.dumps(rec) + "\n")
            outf.flush()
            if caught_by:
                stats["caught"] += 1
            else:
                stats["missed"] += 1
            print("%s:%d %-22s %s  [%s]" % (rel, i + 1, what, "CAUGHT " + ",".join(caught_by) if caught_by else "MISSED", lines[i].strip()[:110]), flush=True)
        print("SUMMARY", rel, json.dumps(stats), flush=True)
    finally:
        subprocess.run(["git", "-C", "/repo", "worktree", "remove", "--force", wt])


if __name__ == "__main__":
    main()
