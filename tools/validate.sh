#!/bin/bash
# validates MANIFEST.json and every evidence file against the schemas
cd "$(dirname "$0")/.."
python3-vt - <<'PY'
import json,jsonschema,glob,sys
ok=True
try:
    jsonschema.validate(json.load(open('MANIFEST.json')),json.load(open('/root/.vp/MANIFEST.schema.json'))); print('MANIFEST ok')
except Exception as e:
    ok=False; print('MANIFEST INVALID',e)
es=json.load(open('/root/.vp/EVIDENCE.schema.json'))
for f in sorted(glob.glob('evidence/*.json')):
    try:
        jsonschema.validate(json.load(open(f)),es); print(f,'ok')
    except Exception as e:
        ok=False; print(f,'INVALID',str(e)[:300])
sys.exit(0 if ok else 1)
PY
