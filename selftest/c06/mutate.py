import subprocess, sys, shutil, os, re
REPO='/tmp/ag-c06/repo'; MUT='/tmp/ag-c06/mut'
muts = [
 ("M01 drop digit lookahead of '?.'", 'js/lex.go', "c == '?' && l.r.Peek(0) == '.' && (l.r.Peek(1) < '0' || l.r.Peek(1) > '9')", "c == '?' && l.r.Peek(0) == '.'"),
 ("M02 wrong table entry %= -> *=", 'js/lex.go', "'%': ModEqToken,", "'%': MulEqToken,"),
 ("M03 '>>>=' branch dropped", 'js/lex.go', """			if l.r.Peek(0) == '=' {
				l.r.Move(1)
				return GtGtGtEqToken
			}
""", ""),
 ("M04 octal BigInt suffix dropped", 'js/lex.go', """				for l.consumeOctalDigit() || l.consumeNumericSeparator(l.consumeOctalDigit) {
				}
				if l.r.Peek(0) == 'n' {
					l.r.Move(1)
				}""", """				for l.consumeOctalDigit() || l.consumeNumericSeparator(l.consumeOctalDigit) {
				}"""),
 ("M05 TemplateMiddle/Start does not count '${'", 'js/lex.go', """		} else if c == '$' && l.r.Peek(1) == '{' {
			l.level++
""", """		} else if c == '$' && l.r.Peek(1) == '{' {
"""),
 ("M06 regexp: ']' does not close the class", 'js/lex.go', """		} else if c == ']' {
			inClass = false
""", """		} else if c == ']' {
			inClass = inClass && false || inClass
"""),
 ("M07 U+2029 not a line terminator in consumeLineTerminator", 'js/lex.go', """	} else if c == 0xE2 && l.r.Peek(1) == 0x80 && (l.r.Peek(2) == 0xA8 || l.r.Peek(2) == 0xA9) {
		l.r.Move(3)
		return true""", """	} else if c == 0xE2 && l.r.Peek(1) == 0x80 && l.r.Peek(2) == 0xA8 {
		l.r.Move(3)
		return true"""),
 ("M08 Keywords: of -> missing", 'js/table.go', '	"of":     OfToken,\n', ''),
 ("M09 identifierBytes get/set swapped", 'js/tokentype.go', '	[]byte("get"),\n', '	[]byte("set"),\n'),  # crude: makes two 'set'
 ("M10 prevNumericLiteral never reset", 'js/lex.go', "	l.prevNumericLiteral = false\n", ""),
 ("M11 prevLineTerminator never reset", 'js/lex.go', "	prevLineTerminator := l.prevLineTerminator\n	l.prevLineTerminator = false\n", "	prevLineTerminator := l.prevLineTerminator\n"),
 ("M12 string: escaped delimiter not skipped", 'js/lex.go', "if c := l.r.Peek(0); c == delim || c == '\\\\' {", "if c := l.r.Peek(0); c == '\\\\' {"),
 ("M13 whitespace: Zs dropped", 'js/lex.go', "r == '\\u00A0' || r == '\\uFEFF' || unicode.Is(unicode.Zs, r)", "r == '\\u00A0' || r == '\\uFEFF'"),
 ("M14 exponent: '-' sign not accepted", 'js/lex.go', "		if c == '+' || c == '-' {\n			l.r.Move(1)\n		}\n		if !l.consumeDigit() {", "		if c == '+' {\n			l.r.Move(1)\n		}\n		if !l.consumeDigit() {"),
 ("M15 \\uXXX with 3 digits accepted", 'js/lex.go', "} else if !l.consumeHexDigit() || !l.consumeHexDigit() || !l.consumeHexDigit() || !l.consumeHexDigit() {", "} else if !l.consumeHexDigit() || !l.consumeHexDigit() || !l.consumeHexDigit() {"),
 ("M16 consumeWhitespace lead byte bound 0xC0 -> 0xC3", 'js/lex.go', """		return true
	} else if 0xC0 <= c {
		if r, n := l.r.PeekRune(0); r == '\\u00A0'""", """		return true
	} else if 0xC3 <= c {
		if r, n := l.r.PeekRune(0); r == '\\u00A0'"""),
 ("M17 ')' does not decrement level", 'js/lex.go', "	case ')':\n		l.level--\n", "	case ')':\n"),
 ("M18 single-line comment runs over U+2028", 'js/lex.go', "if r, _ := l.r.PeekRune(0); r == '\\u2028' || r == '\\u2029' {\n				break", "if r, _ := l.r.PeekRune(0); r == '\\u2029' {\n				break"),
 ("M19 '}' resumes template at level <= instead of ==", 'js/lex.go', "l.level == l.templateLevels[len(l.templateLevels)-1]", "l.level <= l.templateLevels[len(l.templateLevels)-1]+1"),
 ("M20 hex separator: consumeNumericSeparator accepts trailing '_'", 'js/lex.go', "	if !f() {\n		l.r.Move(-1)\n		return false\n	}", "	if !f() {\n		return false\n	}"),
 ("M21 '**=' -> ExpToken (opOpEqTokens wrong entry)", 'js/lex.go', "	'*': ExpEqToken,", "	'*': ExpToken,"),
 ("M22 regexp escape: '\\\\' does not skip next char", 'js/lex.go', """		} else if c == '\\\\' {
			l.r.Move(1)
			if l.isLineTerminator() || l.r.Peek(0) == 0 && l.r.Err() != nil {
				return false
			}
		} else if l.isLineTerminator()""", """		} else if c == '\\\\' {
			if l.isLineTerminator() || l.r.Peek(0) == 0 && l.r.Err() != nil {
				return false
			}
		} else if l.isLineTerminator()"""),
 ("M23 identifierTable: digits in start table ('$' row shifted) -> '$' not identifier part", 'js/lex.go', None, None),
 ("M24 template escape does not skip next byte", 'js/lex.go', "			if c := l.r.Peek(0); c != 0 {\n				l.r.Move(1)\n			}\n			continue", "			continue"),
 ("M25 comment: LT inside does not switch type for CR", 'js/lex.go', """	} else if c == '\\r' {
		if l.r.Peek(1) == '\\n' {
			l.r.Move(2)
		} else {
			l.r.Move(1)
		}
		return true""", """	} else if c == '\\r' && l.r.Peek(1) == '\\n' {
		l.r.Move(2)
		return true"""),
 ("M26 identifierStart drops Nl", 'js/lex.go', "unicode.Lo, unicode.Nl, unicode.Other_ID_Start}", "unicode.Lo, unicode.Other_ID_Start}"),
 ("M27 '<!-' already opens an HTML-like comment", 'js/lex.go', "if c == '<' && l.r.Peek(1) == '!' && l.r.Peek(2) == '-' && l.r.Peek(3) == '-' {", "if c == '<' && l.r.Peek(1) == '!' && l.r.Peek(2) == '-' {"),
 ("M28 identifierContinue drops Mc", 'js/lex.go', "unicode.Mn, unicode.Mc, unicode.Nd", "unicode.Mn, unicode.Nd"),
 ("M29 RegExp() rewinds one byte over '/='", 'js/lex.go', "		l.r.Move(-2)\n	} else {", "		l.r.Move(-1)\n	} else {"),
 ("M30 regexp flags: non-ASCII branch dropped", 'js/lex.go', """		if identifierTable[c] {
			l.r.Move(1)
		} else if 0xC0 <= c {
			if r, n := l.r.PeekRune(0); r == '\\u200C' || r == '\\u200D' || unicode.IsOneOf(identifierContinue, r) {
				l.r.Move(n)
			} else {
				break
			}
		} else {
			break
		}
	}
	return true""", """		if identifierTable[c] {
			l.r.Move(1)
		} else {
			break
		}
	}
	return true"""),
 ("M31 hex digit upper bound 'F' exclusive", 'js/lex.go', "(c >= 'A' && c <= 'F')", "(c >= 'A' && c < 'F')"),
 ("M32 fraction digits without separators", 'js/lex.go', """		if l.consumeDigit() {
			for l.consumeDigit() || l.consumeNumericSeparator(l.consumeDigit) {
			}
			c = l.r.Peek(0)""", """		if l.consumeDigit() {
			for l.consumeDigit() {
			}
			c = l.r.Peek(0)"""),
 ("M33 '??=' chain: '?' missing in opOpEqTokens test", 'js/lex.go', "if l.r.Peek(0) == '=' && c != '+' && c != '-' {", "if l.r.Peek(0) == '=' && c != '+' && c != '-' && c != '?' {"),
 ("M34 string: U+2028 ends the string like a newline", 'js/lex.go', "} else if c == '\\n' || c == '\\r' || c == 0 && l.r.Err() != nil {\n			l.err = parse.NewErrorLexer(l.r, \"unterminated string literal\")", "} else if c == '\\n' || c == '\\r' || c == 0xE2 || c == 0 && l.r.Err() != nil {\n			l.err = parse.NewErrorLexer(l.r, \"unterminated string literal\")"),
 ("M35 TemplateEnd does not pop templateLevels", 'js/lex.go', "			l.templateLevels = l.templateLevels[:len(l.templateLevels)-1]\n			l.r.Move(1)\n			if continuation {", "			if !continuation {\n				l.templateLevels = l.templateLevels[:len(l.templateLevels)-1]\n			}\n			l.r.Move(1)\n			if continuation {"),
 ("R1 revert pinned fix: '~=' '?='", 'js/lex.go', "if l.r.Peek(0) == '=' && c != '~' && c != '?' {", "if l.r.Peek(0) == '=' {"),
 ("R2 revert pinned fix: '#' at end", 'js/lex.go', "	if l.r.Peek(0) != 0 || l.r.Err() == nil {\n		l.r.MoveRune() // allow to continue after error, but never move past the end of the input\n	}", "	l.r.MoveRune()"),
 ("R3 revert own fix: Other_ID_Start", 'js/lex.go', "unicode.Nl, unicode.Other_ID_Start, unicode.Mn", "unicode.Nl, unicode.Mn"),
 ("R4 revert own fix: identifier after number", 'js/lex.go', "return ErrorToken, l.r.Shift() // the rejected identifier must not become part of the next token", "return ErrorToken, nil"),
]
sel = sys.argv[1:]
for name, f, old, new in muts:
    if sel and not any(name.startswith(s+' ') for s in sel): continue
    if os.path.exists(MUT): shutil.rmtree(MUT)
    shutil.copytree(REPO, MUT, ignore=shutil.ignore_patterns('.git'))
    p=os.path.join(MUT,f); s=open(p).read()
    if name.startswith('M23'):
        # second table (identifierTable): '$' entry false
        i = s.index('var identifierTable')
        j = s.index('false, false, false, false, true, false, false, false, // $', i)
        s = s[:j] + 'false, false, false, false, false, false, false, false, // $' + s[j+len('false, false, false, false, true, false, false, false, // $'):]
    else:
        if old not in s:
            print(name, ': PATTERN NOT FOUND'); continue
        s = s.replace(old, new, 1)
    open(p,'w').write(s)
    env=dict(os.environ, VERIF_REPO=MUT, GOFLAGS='-mod=mod', GOPROXY='off', GOSUMDB='off', GOTOOLCHAIN='local')
    r=subprocess.run(['./check','C06','quick'],cwd='/tmp/ag-c06/verif',env=env,capture_output=True,text=True)
    lines=[l for l in r.stdout.split('\n') if l.strip()]
    viol=[l for l in lines if 'stream=' in l][:2]
    tot=[l for l in lines if 'violations' in l]
    print(f"{name}: exit={r.returncode}", tot[-1].strip() if tot else lines[-3:])
    for v in viol: print("    ", v.strip()[:260])
    sys.stdout.flush()
if os.path.exists(MUT): shutil.rmtree(MUT)
