import subprocess, shutil, sys, os
MUT='/tmp/ag-c17/mut'; REPO='/tmp/ag-c17/repo'
LB_OLD = open(REPO+'/common.go').read()
def lookbehind_block(s):
    a = s.index("\t\tif 0 < len(r) && (r[0] >= '0'")
    b = s.index("\t\tcopy(b[i:], r)")
    return s[a:b]
muts = [
 ("M01 revert fix a2432f4 (look-behind guard removed)", "common.go", lookbehind_block(LB_OLD), ""),
 ("M02 revert fix 975c44d (hex accumulator unbounded)", "common.go", "j < len(b) && c < 10000 && (b[j]", "j < len(b) && (b[j]"),
 ("M03 ws: '1 < i-start' -> '2 < i-start' (first occurrence, ReplaceMultipleWhitespace)", "common.go", "if 1 < i-start {", "if 2 < i-start {"),
 ("M04 ws: newline flag ignores first byte of run (ReplaceMultipleWhitespace)", "common.go", "newline := IsNewline(b[i])", "newline := false"),
 ("M05 ws: leading-run case keeps b[k-1] (drops 'b[k-1] = b[0]')", "common.go", "\t\tb[k-1] = b[0]\n\t\treturn b[k-1:]\n\t} else if k < len(b) {\n\t\tj += copy(b[j:], b[k:])\n\t}\n\treturn b[:j]\n}\n\n// replaceEntities", "\t\treturn b[k-1:]\n\t} else if k < len(b) {\n\t\tj += copy(b[j:], b[k:])\n\t}\n\treturn b[:j]\n}\n\n// replaceEntities"),
 ("M06 hex upper-case digit offset 'A' -> 'a'", "common.go", "c = c<<4 + int(b[j]-'A') + 10", "c = c<<4 + int(b[j]-'a') + 10"),
 ("M07 look-ahead guard drops '#'", "common.go", "b[k] >= 'A' && b[k] <= 'Z' || b[k] == '#') {\n\t\t\t\t\treturn b, k", "b[k] >= 'A' && b[k] <= 'Z') {\n\t\t\t\t\treturn b, k"),
 ("M08 hex 'no digits' test j <= i+3 -> j < i+3", "common.go", "if j <= i+3 || 10000 <= c {", "if j < i+3 || 10000 <= c {"),
 ("M09 resume index after replacement off by one", "common.go", "return b, i + len(r) - 1", "return b, i + len(r)"),
 ("M10 hex >= 128 re-encoded in base 16 instead of 10", "common.go", "r = strconv.AppendInt(r, int64(c), 10)", "r = strconv.AppendInt(r, int64(c), 16)"),
 ("M11 decimal limit 128 -> 256 (raw byte >= 0x80 emitted)", "common.go", "c < 128 && b[j] >= '0' && b[j] <= '9'; j++ {\n\t\t\t\tc = c*10 + int(b[j]-'0')\n\t\t\t}\n\t\t\tif j <= i+2 || 128 <= c {", "c < 256 && b[j] >= '0' && b[j] <= '9'; j++ {\n\t\t\t\tc = c*10 + int(b[j]-'0')\n\t\t\t}\n\t\t\tif j <= i+2 || 256 <= c {"),
 ("M12 html: unquoted decision ignores origQuote==0", "html/util.go", "if unquoted && (!mustQuote || origQuote == 0) {", "if unquoted && !mustQuote {"),
 ("M13 html: size estimate doubles*4 -> doubles*3", "html/util.go", "n += doubles * 4", "n += doubles * 3"),
 ("M14 html: charTable '>' entry false", "html/util.go", "false, false, false, false, true, true, true, false, // <, =, >", "false, false, false, false, true, true, false, false, // <, =, >"),
 ("M15 html: quote choice singles > doubles -> singles < doubles", "html/util.go", "if singles > doubles || singles == doubles && origQuote != '\\'' {", "if singles < doubles || singles == doubles && origQuote != '\\'' {"),
 ("M16 html: keeps orig quote test uses doubles for single quote", "html/util.go", "} else if singles == 0 && origQuote == '\\'' || doubles == 0 && origQuote == '\"' {", "} else if doubles == 0 && origQuote == '\\'' || doubles == 0 && origQuote == '\"' {"),
 ("M17 xml: escaped single quote entity is &#34;", "xml/util.go", 'singleQuoteEntityBytes = []byte("&#39;")', 'singleQuoteEntityBytes = []byte("&#34;")'),
 ("M18 xml: picks quote but escapes none when doubles == singles", "xml/util.go", "if doubles > singles {", "if doubles >= singles {"),
 ("M18b xml: escaping loop tests double quote instead of the chosen quote", "xml/util.go", "if c == quote {", "if c == 34 {"),
 ("M19 cdata: '&' costs 3 instead of 4", "xml/util.go", "n += 4 // &amp;", "n += 3 // &amp;"),
 ("M20 cdata: '&' escaped as &lt;", "xml/util.go", "j += copy(t[j:], ampEntityBytes)", "j += copy(t[j:], ltEntityBytes)"),
 ("M21 util.go: form feed not whitespace", "util.go", None, None),
 ("M22 combined: entity test 'i+3 < len(b)' -> 'i+4 < len(b)'", "common.go", "if i+3 < len(b) && b[i] == '&' {", "if i+4 < len(b) && b[i] == '&' {"),
 ("M23 look-behind scan drops '#' from the entity characters", "common.go", "b[k] >= 'A' && b[k] <= 'Z' || b[k] == '#') {\n\t\t\t\t\tbreak", "b[k] >= 'A' && b[k] <= 'Z') {\n\t\t\t\t\tbreak"),
 ("M24 look-behind guard ignores ';' replacements", "common.go", " || r[0] == '#' || r[0] == ';') {", " || r[0] == '#') {"),
 ("M25 combined: second occurrence '1 < i-start' -> '1 <= i-start'", "common.go", "SECOND", None),
 ("M25b combined: leading-run case drops 'b[k-1] = b[0]'", "common.go", "\t\tb[k-1] = b[0] // move newline to end of whitespace\n", ""),
 ("M26 named reference scan stops one early: 'j-i-1 <= MaxEntityLength' with wrong terminator test b[j] != ';' dropped", "common.go", "if len(b) <= j || j == i+1 || b[j] != ';' {", "if len(b) <= j || j == i+1 {"),
]
only = sys.argv[1:] 
for name, f, old, new in muts:
    if only and name.split()[0] not in only: continue
    shutil.copy(REPO+'/'+f, MUT+'/'+f)
    s = open(MUT+'/'+f).read()
    if name.startswith("M21"):
        print(name); sys.stdout.flush()
        # find whitespace table usage
        old = "func IsWhitespace(c byte) bool {\n\treturn whitespaceTable[c]\n}"
        new = "func IsWhitespace(c byte) bool {\n\treturn whitespaceTable[c] && c != '\\f'\n}"
    if old == "SECOND":
        a = s.index("if 1 < i-start {"); b2 = s.index("if 1 < i-start {", a+1)
        s2 = s[:b2] + "if 1 <= i-start {" + s[b2+len("if 1 < i-start {"):]
    else:
        if s.count(old) < 1:
            print(name, "PATTERN NOT FOUND"); continue
        s2 = s.replace(old, new, 1)
    open(MUT+'/'+f,'w').write(s2)
    p = subprocess.run(['/tmp/ag-c17/scratch/mutcheck.sh', MUT, 'quick'], capture_output=True, text=True, errors='replace')
    lines = p.stdout.splitlines()
    viol = [l for l in lines if l.startswith('VIOLATION') ]
    first = next((l for l in lines if l.startswith('  stream=')), '')
    summ = next((l for l in lines if l.startswith('C17 quick')), lines[-1] if lines else p.stderr[-300:])
    print(f"{name}\n   exit={p.returncode} nviolLines={len(viol)} {summ}\n   {first[:330]}")
    sys.stdout.flush()
    shutil.copy(REPO+'/'+f, MUT+'/'+f)
