#!/bin/bash
# usage: mutcheck.sh <repo-dir> [tier]  -- build the harness against <repo-dir> and run C17
set -u
export GOFLAGS=-mod=mod GOPROXY=off GOSUMDB=off GOTOOLCHAIN=local CGO_ENABLED=1
V=/tmp/ag-c17/verif
W=/tmp/ag-c17/scratch/mutwork
rm -rf "$W"; mkdir -p "$W/verif/.work" "$W/verif/evidence" "$W/verif/replays"
sed "s#=> /tmp/ag-c17/repo#=> $1#" $V/harness/go.mod > "$W/alt.mod"
cp $V/harness/go.sum "$W/alt.sum"
cp $V/known_findings.jsonl "$W/verif/"
(cd $V/harness && go build -modfile="$W/alt.mod" -tags verif -o "$W/vh" ./cmd/vh) || { echo BUILD-FAILED; exit 70; }
export VERIF_DIR="$W/verif" VH_PLAIN_BIN="$W/vh"
"$W/vh" run C17 "${2:-quick}"
