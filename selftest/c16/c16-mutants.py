import subprocess, sys, shutil, os
REPO='/tmp/ag-c16/repo'; MUT='/tmp/ag-c16/mut'
M=[
 ("num-sign-eof","common.go","		if i >= len(b) {\n			return 0\n		}\n	}\n	firstDigit","		if i > len(b) {\n			return 0\n		}\n	}\n	firstDigit"),
 ("num-dot-backoff","common.go","			// . could belong to the next token\n			i--\n","			// . could belong to the next token\n"),
 ("num-exp-backoff","common.go","			// e could belong to next token\n			return iOld","			// e could belong to next token\n			return iOld + 1"),
 ("num-exp-sign-only-plus","common.go","if i < len(b) && (b[i] == '+' || b[i] == '-') {\n			i++\n		}\n		if i >= len(b) || b[i] < '0'","if i < len(b) && (b[i] == '+') {\n			i++\n		}\n		if i >= len(b) || b[i] < '0'"),
 ("num-digit-range","common.go","for i < len(b) && b[i] >= '0' && b[i] <= '9' {\n			i++\n		}\n	}\n	if i < len(b) && b[i] == '.'","for i < len(b) && b[i] >= '0' && b[i] < '9' {\n			i++\n		}\n	}\n	if i < len(b) && b[i] == '.'"),
 ("dim-z","common.go","} else if b[num] >= 'a' && b[num] <= 'z' ||","} else if b[num] >= 'a' && b[num] < 'z' ||"),
 ("dim-percent-len","common.go","	} else if b[num] == '%' {\n		return num, 1","	} else if b[num] == '%' {\n		return num, 0"),
 ("dim-upper-loop","common.go","for i < len(b) && (b[i] >= 'a' && b[i] <= 'z' || b[i] >= 'A' && b[i] <= 'Z') {","for i < len(b) && (b[i] >= 'a' && b[i] <= 'z' || b[i] > 'A' && b[i] <= 'Z') {"),
 ("media-start-4","common.go","for i := 3; i < n; i++ { // mimetype","for i := 4; i < n; i++ { // mimetype"),
 ("media-no-space-after-eq","common.go","				i++\n				for i < n && s[i] == ' ' {\n					i++\n				}\n				start = i\n				for i < n && s[i] != ';' && s[i] != ' ' {","				i++\n				start = i\n				for i < n && s[i] != ';' && s[i] != ' ' {"),
 ("media-lead-space","common.go","	for i < len(b) && b[i] == ' ' {\n		i++\n	}\n	b = b[i:]","	for i+1 < len(b) && b[i] == ' ' {\n		i++\n	}\n	b = b[i:]"),
 ("datauri-absent-param","common.go","if len(mediatype) == 0 || mediatype[0] == ';' {","if len(mediatype) == 0 {"),
 ("datauri-b64-url","common.go","n, err := base64.StdEncoding.Decode(decoded, data)","n, err := base64.URLEncoding.Decode(decoded, data)"),
 ("datauri-len","common.go","if len(dataURI) > 5 && bytes.Equal(dataURI[:5], dataSchemeBytes) {","if len(dataURI) > 6 && bytes.Equal(dataURI[:5], dataSchemeBytes) {"),
 ("datauri-err-swallow","common.go","						if err != nil {\n							return nil, nil, err\n						}\n						data = decoded[:n]","						data = decoded[:n]\n						_ = err"),
 ("datauri-strip-semicolon","common.go","					if len(mediatype) > 0 {\n						mediatype = mediatype[:len(mediatype)-1]\n					}\n","					if len(mediatype) > 1 {\n						mediatype = mediatype[:len(mediatype)-1]\n					}\n"),
 ("enc-nibble","common.go","b[i+1] = \"0123456789ABCDEF\"[c>>4]","b[i+1] = \"0123456789ABCDEF\"[c>>5]"),
 ("enc-copy","common.go","copy(b[i+3:], b[i+1:])","copy(b[i+3:], b[i+2:])"),
 ("enc-table-plus","common.go","	false, false, false, true, true, false, false, true, // +, comma, /\n	false, false, false, false, false, false, false, false,\n	false, false, true, true, true, true, true, true, // :, ;, <, =, >, ?","	false, false, false, false, true, false, false, true, // +, comma, /\n	false, false, false, false, false, false, false, false,\n	false, false, true, true, true, true, true, true, // :, ;, <, =, >, ?"),
 ("dec-bound","common.go","if b[i] == '%' && i+2 < len(b) {","if b[i] == '%' && i+3 < len(b) {"),
 ("dec-bound-over","common.go","if b[i] == '%' && i+2 < len(b) {","if b[i] == '%' && i+1 < len(b) {"),
 ("dec-lower-hex","common.go","} else if b[j] <= 'F' {\n					c = c<<4 + int(b[j]-'A') + 10\n				} else if b[j] <= 'f' {\n					c = c<<4 + int(b[j]-'a') + 10\n				}\n			}\n			if j == i+3 {","} else if b[j] <= 'F' {\n					c = c<<4 + int(b[j]-'A') + 10\n				} else if b[j] <= 'f' {\n					c = c<<4 + int(b[j]-'a') + 9\n				}\n			}\n			if j == i+3 {"),
 ("dec-hex-range","common.go","j < i+3 && (b[j] >= '0' && b[j] <= '9' || b[j] >= 'a' && b[j] <= 'f' || b[j] >= 'A' && b[j] <= 'F'); j++","j < i+3 && (b[j] >= '0' && b[j] <= '9' || b[j] >= 'a' && b[j] <= 'f' || b[j] >= 'A' && b[j] <= 'G'); j++"),
 ("dec-hex-range-lo","common.go","j < i+3 && (b[j] >= '0' && b[j] <= '9' || b[j] >= 'a' && b[j] <= 'f' || b[j] >= 'A' && b[j] <= 'F'); j++","j < i+3 && (b[j] >= '0' && b[j] <= '9' || b[j] > 'a' && b[j] <= 'f' || b[j] >= 'A' && b[j] <= 'F'); j++"),
 ("dec-j-bound","common.go","if j == i+3 {\n				b[i] = byte(c)","if j >= i+2 {\n				b[i] = byte(c)"),
 ("media-no-lead-skip","common.go","	for i < len(b) && b[i] == ' ' {\n		i++\n	}\n	b = b[i:]","	b = b[i:]"),
 ("media-param-key-stop","common.go","for i < n && s[i] != '=' && s[i] != ';' && s[i] != ' ' {","for i < n && s[i] != '=' && s[i] != ';' {"),
 ("datauri-no-trim-append","common.go","mediatype = append(append(mediatype, TrimWhitespace(dataURI[i:j])...), c)\n					i = j + 1","mediatype = append(append(mediatype, TrimWhitespace(dataURI[i:j])...), c)\n					i = j"),
 ("datauri-decode-skip","common.go","						data = DecodeURL(data)","						data = DecodeURL(data[:len(data):len(data)])[:len(data)]"),
 ("dec-plus","common.go","} else if b[i] == '+' {\n			b[i] = ' '","} else if b[i] == '+' {\n			b[i] = '+'"),
 ("dec-append","common.go","b = append(b[:i+1], b[i+3:]...)","b = append(b[:i+1], b[i+2:]...)"),
 ("fold-A","util.go","if d != c && (d < 'A' || d > 'Z' ||","if d != c && (d <= 'A' || d > 'Z' ||"),
 ("fold-no-range","util.go","if d != c && (d < 'A' || d > 'Z' || d+('a'-'A') != c) {","if d != c && (d+('a'-'A') != c) {"),
 ("lower-Z","util.go","if c >= 'A' && c <= 'Z' {\n			src[i] = c + ('a' - 'A')","if c >= 'A' && c < 'Z' {\n			src[i] = c + ('a' - 'A')"),
 ("ws-table-ff","util.go","	false, true, true, false, true, true, false, false, // tab, new line, form feed, carriage return\n	false, false, false, false, false, false, false, false,\n	false, false, false, false, false, false, false, false,\n\n	true, false, false, false, false, false, false, false, // space","	false, true, true, true, false, true, false, false, // tab, new line, form feed, carriage return\n	false, false, false, false, false, false, false, false,\n	false, false, false, false, false, false, false, false,\n\n	true, false, false, false, false, false, false, false, // space"),
 ("trim-end","util.go","for i := n - 1; i >= start; i-- {","for i := n - 1; i > start; i-- {"),
 ("css-hash-second-probe","css/hash.go","if i := _Hash_table[(h>>16)&uint32(len(_Hash_table)-1)]","if i := _Hash_table[(h>>15)&uint32(len(_Hash_table)-1)]"),
 ("css-hash-maxlen","css/hash.go","if len(s) == 0 || len(s) > _Hash_maxLen {","if len(s) == 0 || len(s) >= _Hash_maxLen {"),
 ("html-hash-cmp","html/hash.go","		for i := 0; i < len(s); i++ {\n			if t[i] != s[i] {\n				goto NEXT","		for i := 1; i < len(s); i++ {\n			if t[i] != s[i] {\n				goto NEXT"),
 ("html-hash-table","html/hash.go","	0x8: 0x1c03, // xml","	0x8: 0x1f03, // xml"),
 ("html-hash-second-cmp","html/hash.go","		for i := 0; i < len(s); i++ {\n			if t[i] != s[i] {\n				return 0","		for i := 0; i < len(s)-1; i++ {\n			if t[i] != s[i] {\n				return 0"),
 ("canary-lower-cap","util.go","	for i, c := range src {\n		if c >= 'A' && c <= 'Z' {\n			src[i] = c + ('a' - 'A')","	for i, c := range src[:cap(src)] {\n		if c >= 'A' && c <= 'Z' {\n			src[:cap(src)][i] = c + ('a' - 'A')"),
 ("canary-fold-normalises-s","util.go","		d := s[i]\n		if d != c &&","		d := s[i]\n		if d >= 'A' && d <= 'Z' {\n			s[i] = d + ('a' - 'A')\n		}\n		if d != c &&"),
 ("canary-decode-tail","common.go","				b[i] = byte(c)\n				b = append(b[:i+1], b[i+3:]...)","				b[i] = byte(c)\n				b = append(b[:i+1], b[i+3:]...)\n				if len(b)+2 < cap(b) {\n					b[:cap(b)][len(b)+2] = 0\n				}"),
 ("canary-datauri-head","common.go","					mediatype = append(append(mediatype, TrimWhitespace(dataURI[i:j])...), c)","					mediatype = append(append(mediatype, ToLower(TrimWhitespace(dataURI[i:j]))...), c)"),
 ("revert-fix","common.go","if c != '=' && (i == 0 || dataURI[i-1] != '=') && bytes.Equal(","if c != '=' && bytes.Equal("),
]
only=sys.argv[1:]
for name,f,old,new in M:
    if only and name not in only: continue
    src=open(os.path.join(REPO,f)).read()
    if src.count(old)<1:
        print(name,"PATTERN-NOT-FOUND"); continue
    open(os.path.join(MUT,f),'w').write(src.replace(old,new,1))
    p=subprocess.run(['/tmp/ag-c16/verif/selftest/c16-mutcheck.sh','quick'],capture_output=True,text=True)
    out=p.stdout+p.stderr
    viol=[l for l in out.split('\n') if l.startswith('VIOLATION')]
    first=''
    for i,l in enumerate(out.split('\n')):
        if l.startswith('VIOLATION'):
            first=out.split('\n')[i+1].strip()[:230]; break
    summ=[l for l in out.split('\n') if l.startswith('C16 quick')]
    print(f"{name:28s} exit={p.returncode} violations={len(viol)} {summ[0].split(':')[1].strip() if summ else out[-300:]}\n      {first}")
    sys.stdout.flush()
    shutil.copy(os.path.join(REPO,f),os.path.join(MUT,f))
