#!/bin/bash
# mutation self-test helper: build the harness against /tmp/ag-c16/mut and run the C16 check
# (the stock ./check rewrites only a literal "=> /repo", which this private copy's go.mod does not contain)
set -u
cd /tmp/ag-c16/verif
export VERIF_DIR="$PWD" GOFLAGS=-mod=mod GOPROXY=off GOSUMDB=off GOTOOLCHAIN=local CGO_ENABLED=1
mkdir -p .work
mf="$PWD/.work/alt-$$.mod"
sed "s#=> /tmp/ag-c16/repo#=> /tmp/ag-c16/mut#" harness/go.mod > "$mf"
cp harness/go.sum "${mf%.mod}.sum"
BIN="$PWD/.work/altbin-$$"; mkdir -p "$BIN"
trap 'rm -rf "$mf" "${mf%.mod}.sum" "$BIN"' EXIT
(cd harness && go build -modfile="$mf" -tags verif -o "$BIN/vh" ./cmd/vh) || { echo BUILD-FAILED; exit 70; }
export VH_PLAIN_BIN="$BIN/vh"
"$BIN/vh" run C16 "${1:-quick}"
