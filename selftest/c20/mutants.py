#!/usr/bin/env python3
"""C20 mutation self-test. Each mutant introduces mutable package-level state into a scratch copy of the library
(cp -r of the repository, given as MUT) in a way that compiles and (17 of 19) passes the library's own suite,
then `VERIF_REPO=$MUT ./check C20 quick` must exit 1. In addition shard 0 of every stream is run on its own to
show which monitor catches what (VH_C20_OFF=seg,exported,race,digest switches single monitors off).

usage: REPO=/path/to/repo MUT=/tmp/scratch-copy VERIF=/path/to/verif mutants.py [--no-official] [names...]
"""
import sys, subprocess, shutil, os, re
REPO=os.environ.get('REPO','/repo'); MUT=os.environ.get('MUT','/tmp/c20-mut'); VERIF=os.environ.get('VERIF', os.path.dirname(os.path.dirname(os.path.dirname(os.path.abspath(__file__)))))
SCR=os.environ.get('SCR','/tmp/c20-mut-scratch')
M = {}
# 1: package-level scratch buffer in html.EscapeAttrVal (ignores the caller's buffer)
M['html-escape-global-scratch'] = ('html/util.go', [
 ('func EscapeAttrVal(buf *[]byte, b []byte, origQuote byte, mustQuote bool) []byte {\n',
  'var scratchBuf []byte\n\nfunc EscapeAttrVal(_ *[]byte, b []byte, origQuote byte, mustQuote bool) []byte {\n\tbuf := &scratchBuf\n')])
# 2: strconv.AppendInt via a package-level digit buffer
M['strconv-appendint-global-digits'] = ('strconv/int.go', None)
# 3: memoising cache map in css.ToHash
M['css-tohash-cache-map'] = ('css/hash.go', [
 ('func ToHash(s []byte) Hash {\n\tif len(s) == 0 || len(s) > _Hash_maxLen {\n\t\treturn 0\n\t}\n',
  'var hashCache = map[string]Hash{}\n\nfunc ToHash(s []byte) Hash {\n\tif len(s) == 0 || len(s) > _Hash_maxLen {\n\t\treturn 0\n\t}\n\tif h, ok := hashCache[string(s)]; ok {\n\t\treturn h\n\t}\n\th0 := toHash(s)\n\tif len(hashCache) < 64 {\n\t\thashCache[string(s)] = h0\n\t}\n\treturn h0\n}\n\nfunc toHash(s []byte) Hash {\n')])
# 4: lazily initialised table behind IsWhitespace
M['lazy-whitespace-table'] = ('util.go', [
 ('func IsWhitespace(c byte) bool {\n', 'var wsReady bool\nvar wsLazy [256]bool\n\nfunc IsWhitespace(c byte) bool {\n\tif !wsReady {\n\t\twsLazy = whitespaceTable\n\t\twsReady = true\n\t}\n\treturn wsLazy[c]\n}\n\nfunc isWhitespaceOld(c byte) bool {\n')])
# 5: the shared terminator buffer is written through (same value) when an empty input is built
M['nullbuffer-written'] = ('input.go', [
 ('\t\tz.buf = nullBuffer\n\t} else {', '\t\tz.buf = nullBuffer\n\t\tz.buf[0] = 0\n\t} else {')])
# 6: instance counter in js.NewLexer
M['js-newlexer-counter'] = ('js/lex.go', [
 ('func NewLexer(r *parse.Input) *Lexer {\n', 'var lexersCreated int\n\nfunc NewLexer(r *parse.Input) *Lexer {\n\tlexersCreated++\n')])
# 7: history dependence without concurrency: every 1000th css parser of the process starts at nesting level 1
M['css-parser-sticky-global'] = ('css/parse.go', None)
# 8: ToLower through a package-level scratch buffer (result copied back)
M['tolower-global-scratch'] = ('util.go', [
 ('func ToLower(src []byte) []byte {\n\tfor i, c := range src {\n\t\tif c >= \'A\' && c <= \'Z\' {\n\t\t\tsrc[i] = c + (\'a\' - \'A\')\n\t\t}\n\t}\n\treturn src\n}',
  'var lowerScratch []byte\n\nfunc ToLower(src []byte) []byte {\n\tlowerScratch = append(lowerScratch[:0], src...)\n\tfor i, c := range lowerScratch {\n\t\tif c >= \'A\' && c <= \'Z\' {\n\t\t\tlowerScratch[i] = c + (\'a\' - \'A\')\n\t\t}\n\t}\n\tcopy(src, lowerScratch)\n\treturn src\n}')])
# 9: js.Keywords lookup memoised: identifiers seen are added to the map
M['js-keywords-memo'] = ('js/lex.go', None)
# 10: json parser state stack pooled in a package variable
M['json-state-pool'] = ('json/parse.go', None)
# 11: the css parser recycles one package-level Lexer
M['css-spare-lexer'] = ('css/parse.go', None)
# 12: strconv AppendFloat package-level digit buffer
M['strconv-appendfloat-global'] = ('strconv/float.go', None)


# 13: history dependence through heap state only (invisible to the shallow M-seg, no concurrency needed):
# on a tie between the quote counts EscapeAttrVal prefers the quote it used last time
M['html-escape-heap-history'] = ('html/util.go', [
 ('func EscapeAttrVal(buf *[]byte, b []byte, origQuote byte, mustQuote bool) []byte {\n', 'var prefs = &struct{ last byte }{}\n\nfunc EscapeAttrVal(buf *[]byte, b []byte, origQuote byte, mustQuote bool) []byte {\n'),
 ("\tif singles > doubles || singles == doubles && origQuote != '\\'' {\n", "\tif singles > doubles || singles == doubles && origQuote != '\\'' && prefs.last != '\\'' {\n"),
 ("\tt := (*buf)[:n] // maximum size, not actual size\n", "\tprefs.last = quote\n\tt := (*buf)[:n] // maximum size, not actual size\n")])
# 14: the first call in a process answers differently (buggy lazy initialisation, flag on the heap)
M['css-isident-first-call'] = ('css/util.go', [
 ('func IsIdent(b []byte) bool {\n', 'var identReady = new(bool)\n\nfunc IsIdent(b []byte) bool {\n\tif !*identReady {\n\t\t*identReady = true\n\t\treturn false\n\t}\n')])


# 15: the css parser "refreshes" the shared constant "}" before handing it out (same value: invisible to a byte diff)
M['css-endbytes-rewritten'] = ('css/parse.go', [
 ('\t\tp.tt, p.data = RightBraceToken, endBytes\n', '\t\tendBytes[0] = \'}\'\n\t\tp.tt, p.data = RightBraceToken, endBytes\n')])
# 16: AST.JSString builds its output in a package-level buffer
M['js-jsstring-global-buffer'] = ('js/ast.go', [
 ('func (ast AST) JSString() string {\n\tsb := strings.Builder{}\n\tast.JS(&sb)\n\treturn sb.String()\n}',
  'var jsBuf bytes.Buffer\n\nfunc (ast AST) JSString() string {\n\tjsBuf.Reset()\n\tast.JS(&jsBuf)\n\treturn jsBuf.String()\n}')])
# 17: xml.EscapeAttrVal keeps its scratch buffer in a package variable (allocated with make: header constant)
M['xml-escape-global-make'] = ('xml/util.go', [
 ('func EscapeAttrVal(buf *[]byte, b []byte) []byte {\n', 'var attrScratch = make([]byte, 0, 256)\n\nfunc EscapeAttrVal(buf *[]byte, b []byte) []byte {\n\tif len(b) < 100 {\n\t\tbuf = &attrScratch\n\t}\n')])
# 18: StreamLexer instances share one package-level initial buffer ("shared bufferPool")
M['streamlexer-shared-first-buffer'] = ('buffer/streamlexer.go', [
 ('\treturn &StreamLexer{\n\t\tr:   r,\n\t\tbuf: make([]byte, 0, size),\n\t}\n', '\tif size <= cap(firstBuf) {\n\t\treturn &StreamLexer{r: r, buf: firstBuf[:0:size]}\n\t}\n\treturn &StreamLexer{\n\t\tr:   r,\n\t\tbuf: make([]byte, 0, size),\n\t}\n'),
 ('func NewStreamLexerSize(', 'var firstBuf = make([]byte, 0, 64)\n\nfunc NewStreamLexerSize(')])
# 19: Position memoises the last (offset -> line) it computed
M['position-memo'] = ('position.go', [
 ('func Position(r io.Reader, offset int) (line, col int, context string) {\n\tl := NewInput(r)\n\tline = 1\n',
  'var lastOffset, lastLine = -1, 0\n\nfunc Position(r io.Reader, offset int) (line, col int, context string) {\n\tl := NewInput(r)\n\tline = 1\n\tif offset == lastOffset && lastLine > 3 {\n\t\tline = lastLine - lastLine + 1\n\t}\n\tdefer func(o int) { lastOffset, lastLine = o, line }(offset)\n')])

def apply(name):
    f, edits = M[name]
    shutil.copy(os.path.join(REPO,f), os.path.join(MUT,f))
    p=os.path.join(MUT,f); s=open(p).read()
    if edits is None:
        s = CUSTOM[name](s)
    else:
        for a,b in edits:
            assert a in s, (name, a)
            s=s.replace(a,b,1)
    open(p,'w').write(s)
    return f

def restore(f):
    shutil.copy(os.path.join(REPO,f), os.path.join(MUT,f))

CUSTOM={}
def m2(s):
    a='func AppendInt(b []byte, num int64) []byte {\n'
    assert a in s
    i=s.index(a); j=s.index('\n}\n', i)+3
    return s[:i]+'''var intDigits [24]byte

func AppendInt(b []byte, num int64) []byte {
	if num == 0 {
		return append(b, '0')
	} else if num == -9223372036854775808 {
		return append(b, "-9223372036854775808"...)
	}
	neg := num < 0
	if neg {
		num = -num
	}
	i := len(intDigits)
	for num > 0 {
		i--
		intDigits[i] = byte(num%10) + '0'
		num /= 10
	}
	if neg {
		i--
		intDigits[i] = '-'
	}
	return append(b, intDigits[i:]...)
}
'''+s[j:]
CUSTOM['strconv-appendint-global-digits']=m2
def m7(s):
    # history dependence without concurrency: the number of parsers made so far decides a parser's initial nesting level
    a='func NewParser(r *parse.Input, isInline bool) *Parser {\n'
    assert a in s
    s=s.replace(a,'var parsersMade int\n\n'+a,1)
    i=s.index(a); j=s.index('\treturn p\n', i)
    return s[:j]+'\tparsersMade++\n\tif parsersMade%1000 == 0 {\n\t\tp.level = 1\n\t}\n'+s[j:]
CUSTOM['css-parser-sticky-global']=m7
def m9(s):
    a='\t\t\t} else if keyword, ok := Keywords[string(l.r.Lexeme())]; ok {\n\t\t\t\treturn keyword, l.r.Shift()\n\t\t\t}\n'
    assert a in s
    return s.replace(a, a+'\t\t\tif len(Keywords) < 200 {\n\t\t\t\tKeywords[string(l.r.Lexeme())] = IdentifierToken\n\t\t\t}\n',1)
CUSTOM['js-keywords-memo']=m9
def m10(s):
    a='func NewParser(r *parse.Input) *Parser {\n\treturn &Parser{\n\t\tr:     r,\n\t\tstate: []State{ValueState},\n\t}\n}\n'
    assert a in s
    return s.replace(a,'var statePool = make([]State, 0, 64)\n\nfunc NewParser(r *parse.Input) *Parser {\n\treturn &Parser{\n\t\tr:     r,\n\t\tstate: append(statePool[:0], ValueState),\n\t}\n}\n',1)
CUSTOM['json-state-pool']=m10
def m11(s):
    # "optimisation": the css lexer is not recreated: a package-level free list of one Lexer
    a='func NewParser(r *parse.Input, isInline bool) *Parser {\n\tl := NewLexer(r)\n'
    assert a in s
    return s.replace(a,'var spareLexer *Lexer\n\nfunc NewParser(r *parse.Input, isInline bool) *Parser {\n\tl := spareLexer\n\tif l == nil {\n\t\tl = NewLexer(r)\n\t\tspareLexer = l\n\t} else {\n\t\t*l = *NewLexer(r)\n\t}\n',1)
CUSTOM['css-spare-lexer']=m11
def m12(s):
    a='\tif cap(b) < i+maxLen {\n\t\tb = append(b, make([]byte, maxLen)...)\n\t} else {\n\t\tb = b[:i+maxLen]\n\t}\n'
    assert a in s
    s=s.replace(a,'\tif cap(b) < i+maxLen {\n\t\tif cap(floatScratch) < maxLen {\n\t\t\tfloatScratch = make([]byte, 2*maxLen)\n\t\t}\n\t\tb = append(b, floatScratch[:maxLen]...)\n\t} else {\n\t\tb = b[:i+maxLen]\n\t}\n',1)
    return s.replace('func AppendFloat(','var floatScratch []byte\n\nfunc AppendFloat(',1)
CUSTOM['strconv-appendfloat-global']=m12


import json, glob, tempfile
def per_stream(env):
    """build both binaries against MUT and run shard 0 of every stream separately; returns {stream: (violations, first message)}"""
    H=VERIF+'/harness'
    os.makedirs(SCR, exist_ok=True)
    mf=SCR+'/alt.mod'
    src=open(H+'/go.mod').read()
    open(mf,'w').write(re.sub(r'(replace .* => ).*', lambda m: m.group(1)+MUT, src))
    shutil.copy(H+'/go.sum',SCR+'/alt.sum')
    out={}
    for tag,binname,extra in (('plain','vh-m',[]),('race','vh-m-race',['-race'])):
        b=subprocess.run(['go','build','-modfile='+mf,'-tags','verif']+extra+['-o',SCR+'/'+binname,'./cmd/vh'],cwd=H,env=env,capture_output=True,text=True)
        if b.returncode!=0:
            return {'build':(1,b.stderr[:300])}
    for stream,binname,n in (('order','vh-m',16),('segment','vh-m',16),('probes','vh-m',1),('race-probes','vh-m-race',1),('race','vh-m-race',4)):
        d=tempfile.mkdtemp(dir=SCR)
        e=dict(env, VH_SCRATCH=d, VERIF_DIR=VERIF)
        r=subprocess.run([SCR+'/'+binname,'worker','C20','quick','0','0',str(n),d,stream],env=e,capture_output=True,text=True)
        nv=0; msg=''
        for f in glob.glob(d+'/stats-*.json'):
            st=json.load(open(f))
            for v in st.get('violations') or []:
                nv+=1
                if not msg: msg=v['message'][:160]
        if r.returncode not in (0,):
            msg = 'exit %d %s | %s' % (r.returncode, (r.stderr or r.stdout)[:200].replace('\n',' '), msg)
        out[stream]=(nv,msg)
        shutil.rmtree(d)
    return out

if __name__=='__main__':
    names = [a for a in sys.argv[1:] if not a.startswith('-')] or list(M)
    official = '--no-official' not in sys.argv
    for name in names:
        f = apply(name)
        env=dict(os.environ, VERIF_REPO=MUT, GOFLAGS='-mod=mod', GOPROXY='off', GOSUMDB='off', GOTOOLCHAIN='local')
        b=subprocess.run(['go','build','./...'],cwd=MUT,env=env,capture_output=True,text=True)
        if b.returncode!=0:
            print(name,'DOES NOT COMPILE',b.stderr[:500]); restore(f); continue
        print('==',name)
        if official:
            r=subprocess.run(['./check','C20','quick'],cwd=VERIF,env=env,capture_output=True,text=True)
            lines=[l for l in r.stdout.split('\n') if 'VIOLATION' in l or 'INCONCLUSIVE' in l]
            last=[l for l in r.stdout.split('\n') if l.startswith('C20 quick')]
            print('   official: exit',r.returncode, len(lines),'VIOLATION/INCONCLUSIVE lines;', last)
        env2=dict(env); env2.pop('VERIF_REPO')
        for st,(nv,msg) in per_stream(env2).items():
            print('   %-12s %3d  %s' % (st,nv,msg))
        restore(f)
