#!/bin/bash
# usage: mutcheck.sh <repo-dir> [tier]   — build the harness against <repo-dir> and run C14
cd "$(dirname "$0")/.."
export VERIF_DIR=$PWD GOFLAGS=-mod=mod GOPROXY=off GOSUMDB=off GOTOOLCHAIN=local CGO_ENABLED=1
mkdir -p .work/mutbin
sed "s#=> .*#=> $1#" harness/go.mod > .work/mut.mod; cp harness/go.sum .work/mut.sum
(cd harness && go build -modfile=../.work/mut.mod -tags verif -o ../.work/mutbin/vh ./cmd/vh) || { echo BUILD-FAILED; exit 70; }
VH_PLAIN_BIN=$PWD/.work/mutbin/vh .work/mutbin/vh run C14 ${2:-quick}
