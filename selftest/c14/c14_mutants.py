#!/usr/bin/env python3
# Mutation self-test of the C14 check (strconv). For every mutant: copy the worktree to a scratch
# directory, apply one small breaking change, run the library's own strconv suite (informative) and
# the quick tier of the check built against the copy; expect exit 1. Usage:
#   python3 selftest/c14_mutants.py [M01 M07 ...]
# Survivors on the fixed tree (all value-preserving, i.e. equivalent w.r.t. the property):
#   M13 (fast path also for g < -1e15: 1 ulp), M21/M46/M49 (layout only: ".0001" vs "1e-4", "1.2e1" vs "12"),
#   M26/M44/M45 (unreachable / recomputed size).
import subprocess, sys, shutil, os
HERE=os.path.dirname(os.path.abspath(__file__))
SRC=os.environ.get('C14_SRC','/tmp/ag-c14/repo'); MUT=os.environ.get('C14_MUT','/tmp/ag-c14/mut')
muts=[
 ("M01 ParseInt: MaxInt64 bound < -> <=", 'strconv/int.go', 'if !neg && uint64(math.MaxInt64) < n {', 'if !neg && uint64(math.MaxInt64) <= n {'),
 ("M02 ParseUint: dropped add-overflow guard", 'strconv/int.go', 'if math.MaxUint64/10 < n || math.MaxUint64-uint64(c-\'0\') < n*10 {\n\t\t\t\treturn 0, 0', 'if math.MaxUint64/10 < n {\n\t\t\t\treturn 0, 0'),
 ("M03 LenUint: wrong table entry (i < 1e12 -> 13)", 'strconv/int.go', 'case i < 1000000000000:\n\t\treturn 12', 'case i < 1000000000000:\n\t\treturn 13'),
 ("M04 LenUint: off-by-one bound (i < 1e5 -> i <= 1e5)", 'strconv/int.go', 'case i < 100000:', 'case i <= 100000:'),
 ("M05 AppendInt: dropped MinInt64 branch", 'strconv/int.go', '} else if num == -9223372036854775808 {\n\t\treturn append(b, "-9223372036854775808"...)\n\t}', '}'),
 ("M06 AppendInt: offset forgotten (i = 0)", 'strconv/int.go', 'i, n := len(b), LenInt(num)\n\tif cap(b) < i+n {\n\t\tb = append(b, make([]byte, n)...)', 'i, n := len(b), LenInt(num)\n\tif cap(b) < i+n {\n\t\tb = append(b, make([]byte, n)...)\n\t\ti = 0'),
 ("M07 ParseFloat: second dot accepted", 'strconv/float.go', "} else if dot == -1 && c == '.' {", "} else if c == '.' {"),
 ("M08 ParseFloat: truncated mantissa exponent off by one", 'strconv/float.go', 'mantExp = int64(trunk - dot)\n', 'mantExp = int64(trunk - dot - 1)\n'),
 ("M09 ParseFloat: fast-path bound -22 -> -23 (table overrun)", 'strconv/float.go', '} else if -22 <= exp && exp < 0 { // int / 10^k\n\t\treturn f / float64pow10[-exp], i\n\t}\n\tif f == 0.0', '} else if -23 <= exp && exp < 0 { // int / 10^k\n\t\treturn f / float64pow10[-exp], i\n\t}\n\tif f == 0.0'),
 ("M10 ParseFloat: wrong pow10 table entry 1e17 -> 1e16", 'strconv/float.go', '1e10, 1e11, 1e12, 1e13, 1e14, 1e15, 1e16, 1e17, 1e18, 1e19,', '1e10, 1e11, 1e12, 1e13, 1e14, 1e15, 1e16, 1e16, 1e18, 1e19,'),
 ("M11 ParseFloat: capital E not an exponent", 'strconv/float.go', "if i < len(b) && (b[i] == 'e' || b[i] == 'E') {", "if i < len(b) && b[i] == 'e' {"),
 ("M12 ParseFloat: exponent sign + not accepted", 'strconv/float.go', "if i < len(b) && (b[i] == '+' || b[i] == '-') {\n\t\t\texpNeg", "if i < len(b) && b[i] == '-' {\n\t\t\texpNeg"),
 ("M13 ParseFloat: negative mantissa sign dropped on truncation path (neg only when exp==0)", 'strconv/float.go', 'if -1e15 <= g && g <= 1e15 {', 'if g <= 1e15 {'),
 ("M14 ParseFloat: step scaling 1e-300 with exp += 301", 'strconv/float.go', 'f *= 1e-300\n\t\texp += 300\n\t}\n\tfor 300', 'f *= 1e-300\n\t\texp += 301\n\t}\n\tfor 300'),
 ("M15 ParseDecimal: dropped exp++ for leading-dot numbers", 'strconv/decimal.go', 'if dot < start {\n\t\texp++\n\t}', ''),
 ("M16 ParseDecimal: sign lost (sign = 1.0)", 'strconv/decimal.go', 'sign = -1.0\n\t\ti++', 'sign = 1.0\n\t\ti++'),
 ("M17 ParseDecimal: second dot not a terminator", 'strconv/decimal.go', 'if dot != -1 {\n\t\t\t\tbreak\n\t\t\t}\n\t\t\tdot = i', 'if dot == -1 {\n\t\t\t\tdot = i\n\t\t\t}'),
 ("M18 AppendFloat: sign byte not reserved", 'strconv/float.go', 'if neg {\n\t\tmaxLen++\n\t}', ''),
 ("M19 AppendFloat: precision clamp 17 -> 18 < prec", 'strconv/float.go', 'if prec < 0 || 17 < prec {\n\t\tprec = 17', 'if prec < 0 || 18 < prec {\n\t\tprec = 17'),
 ("M20 AppendFloat: NaN/Inf guard dropped for Inf", 'strconv/float.go', 'if math.IsNaN(f) || math.IsInf(f, 0) {\n\t\treturn b\n\t}\n\n\tneg := false', 'if math.IsNaN(f) {\n\t\treturn b\n\t}\n\n\tneg := false'),
 ("M21 AppendFloat: negative exponent threshold mantExp < -3 -> < -4 (layout)", 'strconv/float.go', '} else if mantExp < -3 {', '} else if mantExp < -4 {'),
 ("M22 AppendFloat: exponent sign dropped", 'strconv/float.go', "if exp < 0 {\n\t\t\t\tb[i] = '-'\n\t\t\t\ti++\n\t\t\t\texp = -exp\n\t\t\t}", "if exp < 0 {\n\t\t\t\texp = -exp\n\t\t\t}"),
 ("M23 AppendDecimal: negative rounding towards zero (f += 0.5)", 'strconv/decimal.go', '} else {\n\t\tf -= 0.5\n\t}', '} else {\n\t\tf += 0.5\n\t}'),
 ("M24 AppendDecimal: no rounding for positives", 'strconv/decimal.go', 'if 0.0 <= f {\n\t\tf += 0.5', 'if 0.0 <= f {\n\t\tf += 0.0'),
 ("M25 AppendDecimal: trailing zeros kept", 'strconv/decimal.go', 'for 0 < dec && num%10 == 0 {', 'for false && num%10 == 0 {'),
 ("M26 AppendDecimal: leading zero bound num < lim -> num <= lim", 'strconv/decimal.go', '0 < num && num < lim ||', '0 < num && num <= lim ||'),
 ("M27 AppendDecimal: dec clamp 17 -> dec = 16", 'strconv/decimal.go', 'if dec < 0 || 17 < dec {\n\t\tdec = 17', 'if dec < 0 || 17 < dec {\n\t\tdec = 16'),
 ("M28 AppendNumber: group every groupSize+? (j%groupSize == 1)", 'strconv/number.go', '0 < j && j%groupSize == 0 {', '0 < j && j%groupSize == 1 {'),
 ("M29 AppendNumber: decimal symbol length taken from group symbol", 'strconv/number.go', 'i -= utf8.RuneLen(decSym)\n\t\tutf8.EncodeRune(b[i+1:], decSym)', 'i -= utf8.RuneLen(groupSym)\n\t\tutf8.EncodeRune(b[i+1:], decSym)'),
 ("M30 AppendNumber: n <= dec -> n < dec", 'strconv/number.go', 'if n <= dec {\n\t\t\tn = 1 + dec', 'if n < dec {\n\t\t\tn = 1 + dec'),
 ("M31 ParseNumber: MinInt64 guard wrong operator", 'strconv/number.go', 'num*10 < math.MinInt64-digit', 'num*10 <= math.MinInt64-digit'),
 ("M32 ParseNumber: decimals counted before the decimal symbol too", 'strconv/number.go', 'if hasDecimals {\n\t\t\t\tdec++\n\t\t\t}', 'dec++'),
 ("M33 AppendNumber: minus sign of MinInt64 digits (sign* dropped)", 'strconv/number.go', "\t\tc := byte(sign*(num%10)) + '0'\n\t\tnum /= 10\n\t\tb[i] = c\n\t\ti--\n\t\tj++", "\t\tc := byte(num%10) + '0'\n\t\tnum /= 10\n\t\tb[i] = c\n\t\ti--\n\t\tj++"),
 ("M34 AppendDecimal: writes one byte in front (sign at b[i-1] when prefix)", 'strconv/decimal.go', "num = -num\n\t\tb[i] = '-'", "num = -num\n\t\tb[i] = '-'\n\t\tif 0 < i {\n\t\t\tb[i-1] = '-'\n\t\t}"),
 ("M35 AppendFloat: spare-capacity path forgets the offset", 'strconv/float.go', 'b = b[:i+maxLen]\n\t}\n\n\t// write to string representation', 'b = b[:i+maxLen]\n\t\tcopy(b, b[:0])\n\t\tif 0 < i {\n\t\t\tb[0] = b[0] ^ 1\n\t\t}\n\t}\n\n\t// write to string representation'),
 ("M36 ParseInt: plus sign not accepted", 'strconv/int.go', "if len(b) > 0 && (b[0] == '+' || b[0] == '-') {", "if len(b) > 0 && b[0] == '-' {"),
 ("M37 ParseInt: overflow guard /10 -> /100", 'strconv/int.go', 'if uint64(-math.MinInt64)/10 < n ||', 'if uint64(-math.MinInt64)/1 < n ||'),
 ("M38 AppendFloat: truncation replaced by round-up (mant+1)", 'strconv/float.go', 'mant := int64(f)\n', 'mant := int64(f) + 1\n'),
 ("M39 float64exp: log2 constant 0.30103 -> 0.3", 'strconv/float.go', 'const log2 = 0.3010299956639812', 'const log2 = 0.3'),
 ("M40 ParseFloat: lone-dot guard dropped", 'strconv/float.go', 'if i == start || i == start+1 && dot == start {', 'if i == start {'),
 ("M41 ParseFloat: trunk < dot -> trunk > dot", 'strconv/float.go', 'if trunk < dot {', 'if trunk > dot {'),
 ("M43 ParseDecimal: infinite result with swapped sign", 'strconv/decimal.go', 'if sign == 1.0 {\n\t\t\treturn math.Inf(1), i', 'if sign != 1.0 {\n\t\t\treturn math.Inf(1), i'),
 ("M44 AppendDecimal: n < dec -> n <= dec", 'strconv/decimal.go', 'if n < dec {\n\t\t\tn = dec // number', 'if n <= dec {\n\t\t\tn = dec // number'),
 ("M45 AppendNumber: dec < n -> dec <= n", 'strconv/number.go', 'if dec < n && 0 < groupSize', 'if dec <= n && 0 < groupSize'),
 ("M46 AppendFloat: prec < 0 -> prec <= 0 (exp = mantExp)", 'strconv/float.go', 'if prec < 0 {\n\t\t\texp = mantExp', 'if prec <= 0 {\n\t\t\texp = mantExp'),
 ("M48 AppendFloat: extra zeros space off by one", 'strconv/float.go', 'mantLen += -mantExp - 1 // extra zero', 'mantLen += -mantExp - 2 // extra zero'),
 ("M49 AppendFloat: exponent-length condition flipped", 'strconv/float.go', 'if LenInt(int64(newExp)) == LenInt(int64(exp)) {', 'if LenInt(int64(newExp)) != LenInt(int64(exp)) {'),
 ("M51 ParseFloat: upward step exp -= 30", 'strconv/float.go', 'f *= 1e300\n\t\texp -= 300', 'f *= 1e300\n\t\texp -= 30'),
 ("M52 ParseDecimal: step exp += 30", 'strconv/decimal.go', 'f *= 1e-300\n\t\texp += 300', 'f *= 1e-300\n\t\texp += 30'),
 ("M53 AppendFloat: second step Pow10(prec-307)", 'strconv/float.go', 'f *= math.Pow10(prec - 308)', 'f *= math.Pow10(prec - 307)'),
 ("M54 ParseFloat: exponent saturation at 1e3", 'strconv/float.go', 'if expExp < 1e17 {', 'if expExp < 1e2 {'),
 ("M55 AppendNumber: fraction digits of negative numbers unsigned", 'strconv/number.go', "c := byte(sign*(num%10)) + '0'\n\t\t\tnum /= 10\n\t\t\tb[i] = c\n\t\t\tdec--", "c := byte(num%10) + '0'\n\t\t\tnum /= 10\n\t\t\tb[i] = c\n\t\t\tdec--"),
 ("M56 LenInt: MinInt64 length 19", 'strconv/int.go', 'if i == -9223372036854775808 {\n\t\t\treturn 20', 'if i == -9223372036854775808 {\n\t\t\treturn 19'),
 ("M57 AppendDecimal: NaN guard dropped", 'strconv/decimal.go', 'if math.IsNaN(float64(f)) || math.IsInf(float64(f), 0) {', 'if math.IsInf(float64(f), 0) {'),
]
only=sys.argv[1:] 
res=[]
for name,f,old,new in muts:
    tag=name.split()[0]
    if only and tag not in only: continue
    subprocess.run(['rm','-rf',MUT]); subprocess.run(['cp','-r',SRC,MUT])
    p=os.path.join(MUT,f); s=open(p).read()
    if s.count(old)!=1:
        print(name,': PATTERN COUNT',s.count(old)); res.append((name,'pattern?')); continue
    open(p,'w').write(s.replace(old,new))
    env=dict(os.environ, GOFLAGS='-mod=mod',GOPROXY='off',GOSUMDB='off',GOTOOLCHAIN='local')
    ut=subprocess.run(['go','test','-vet=off','-count=1','./strconv/'],cwd=MUT,env=env,capture_output=True,text=True)
    suite='suite-pass' if ut.returncode==0 else 'suite-FAIL'
    r=subprocess.run([os.path.join(HERE,'c14_mutcheck.sh'),MUT],capture_output=True,text=True)
    viol=[l for l in r.stdout.splitlines() if l.startswith('  stream=')]
    first=viol[0][:230] if viol else ''
    nv=[l for l in r.stdout.splitlines() if 'violations' in l and l.startswith('C14')]
    print(f"{name}: exit={r.returncode} {suite} | {first}", flush=True)
    res.append((name,r.returncode))
subprocess.run(['rm','-rf',MUT])
print('SURVIVORS:',[n for n,c in res if c!=1])
